#!/usr/bin/env python3
"""pin.py -- the regenerating translator (small, syntactic, in the trusted base).

Re-reads /repo's current sources and regenerates coq/Generated/Constants.v: every numeric
constant / table the Coq models depend on.  A pin that disappeared or can no longer be
parsed is reported (exit status 2 and a JSON list of broken pins) -- the caller treats that
as a broken tie.  The file is rewritten only when its content changes, so `make` rebuilds
dependants exactly when a pinned value moved.

Usage: pin.py [--repo /repo] [--out coq/Generated/Constants.v] [--json pins.json]
"""
import argparse, json, os, re, sys

REPO = "/repo"

def clean_int_expr(expr):
    """Evaluate a Rust integer constant expression (literals, + - * / << >> |, parentheses,
    `as T` casts, type suffixes, `_` separators, references to already pinned names)."""
    e = expr.strip()
    e = re.sub(r"\bas\s+(u|i)(8|16|32|64|128|size)\b", "", e)
    e = re.sub(r"(?<=[0-9a-fA-F])_(?=[0-9a-fA-F])", "", e)
    e = re.sub(r"\b(0x[0-9a-fA-F]+|[0-9]+)(u|i)(8|16|32|64|128|size)\b", r"\1", e)
    e = e.replace("u32::MAX", str(2**32 - 1)).replace("u64::MAX", str(2**64 - 1))
    e = e.replace("/", "//")
    return e

class Pins:
    def __init__(self, repo):
        self.repo = repo
        self.items = []      # (name, kind, value, file, line)
        self.broken = []
        self.env = {}
        self._cache = {}

    def src(self, rel):
        if rel not in self._cache:
            try:
                self._cache[rel] = open(os.path.join(self.repo, rel), encoding="utf-8").read()
            except OSError:
                self._cache[rel] = None
        return self._cache[rel]

    def _line(self, text, pos):
        return text.count("\n", 0, pos) + 1

    def int_const(self, name, rel, regex, ty=None, flags=0, group=1):
        """Pin an integer: `regex` has one group holding a constant expression."""
        text = self.src(rel)
        if text is None:
            self.broken.append({"pin": name, "file": rel, "why": "file missing"}); return
        m = re.search(regex, text, flags | re.M)
        if not m:
            self.broken.append({"pin": name, "file": rel, "why": "pattern not found: " + regex}); return
        expr = clean_int_expr(m.group(group))
        if not re.fullmatch(r"[0-9a-fA-FxX_A-Z+\-*/<>|&() \n]+", expr):
            self.broken.append({"pin": name, "file": rel, "why": "unsupported expression: " + m.group(group)}); return
        try:
            val = int(eval(expr, {"__builtins__": {}}, dict(self.env)))
        except Exception as ex:  # noqa
            self.broken.append({"pin": name, "file": rel, "why": "cannot evaluate %r: %s" % (expr, ex)}); return
        self.env[name] = val
        self.items.append((name, ty or "N", val, rel, self._line(text, m.start(group))))

    def int_table(self, name, rel, regex, flags=0):
        """Pin a table of integers: group 1 holds comma separated literals."""
        text = self.src(rel)
        if text is None:
            self.broken.append({"pin": name, "file": rel, "why": "file missing"}); return
        m = re.search(regex, text, flags | re.M | re.S)
        if not m:
            self.broken.append({"pin": name, "file": rel, "why": "pattern not found"}); return
        body = re.sub(r"//[^\n]*", "", m.group(1))
        try:
            vals = [int(eval(clean_int_expr(x), {"__builtins__": {}}, dict(self.env)))
                    for x in body.split(",") if x.strip()]
        except Exception as ex:  # noqa
            self.broken.append({"pin": name, "file": rel, "why": "cannot evaluate table: %s" % ex}); return
        self.items.append((name, "table", vals, rel, self._line(text, m.start(1))))

    def rational(self, name, rel, regex, flags=0):
        """Pin a decimal float literal as an exact rational (numerator, denominator)."""
        text = self.src(rel)
        if text is None:
            self.broken.append({"pin": name, "file": rel, "why": "file missing"}); return
        m = re.search(regex, text, flags | re.M)
        if not m:
            self.broken.append({"pin": name, "file": rel, "why": "pattern not found"}); return
        lit = m.group(1).replace("_", "")
        lit = re.sub(r"f(32|64)$", "", lit)
        mm = re.fullmatch(r"(\d+)(?:\.(\d*))?", lit)
        if not mm:
            self.broken.append({"pin": name, "file": rel, "why": "unsupported float literal " + lit}); return
        frac = mm.group(2) or ""
        num = int(mm.group(1) + frac); den = 10 ** len(frac)
        self.items.append((name, "Q", (num, den), rel, self._line(text, m.start(1))))

    def flag(self, name, rel, regex, flags=0):
        """Pin a boolean (N 1/0): does `regex` match the source? (used for the order of two statements)"""
        text = self.src(rel)
        if text is None:
            self.broken.append({"pin": name, "file": rel, "why": "file missing"}); return
        m = re.search(regex, text, flags | re.M | re.S)
        self.env[name] = 1 if m else 0
        self.items.append((name, "N", 1 if m else 0, rel, self._line(text, m.start()) if m else 0))

    def string(self, name, rel, regex, flags=0):
        text = self.src(rel)
        if text is None:
            self.broken.append({"pin": name, "file": rel, "why": "file missing"}); return
        m = re.search(regex, text, flags | re.M)
        if not m:
            self.broken.append({"pin": name, "file": rel, "why": "pattern not found"}); return
        self.items.append((name, "bytes", list(m.group(1).encode()), rel, self._line(text, m.start(1))))


def collect(repo):
    P = Pins(repo)
    # ---- crate version / index format (C20) ----
    P.int_const("CRATE_VERSION_MAJOR", "Cargo.toml", r'^\[package\]\s*\nname = "tantivy"\s*\nversion = "(\d+)\.\d+\.\d+"')
    P.int_const("CRATE_VERSION_MINOR", "Cargo.toml", r'^\[package\]\s*\nname = "tantivy"\s*\nversion = "\d+\.(\d+)\.\d+"')
    P.int_const("CRATE_VERSION_PATCH", "Cargo.toml", r'^\[package\]\s*\nname = "tantivy"\s*\nversion = "\d+\.\d+\.(\d+)"')
    P.int_const("INDEX_FORMAT_VERSION", "src/lib.rs", r"pub const INDEX_FORMAT_VERSION: u32 = ([^;]+);", "u32")
    P.int_const("INDEX_FORMAT_OLDEST_SUPPORTED_VERSION", "src/lib.rs",
                r"pub const INDEX_FORMAT_OLDEST_SUPPORTED_VERSION: u32 = ([^;]+);", "u32")
    P.int_const("FOOTER_MAGIC_NUMBER", "src/directory/footer.rs", r"const FOOTER_MAGIC_NUMBER: u32 = ([^;]+);", "u32")
    P.int_const("FOOTER_MAX_LEN", "src/directory/footer.rs", r"const FOOTER_MAX_LEN: u32 = ([^;]+);", "u32")
    P.int_const("EXTRACT_MIN_LEN", "src/directory/footer.rs",
                r"pub fn extract_footer\(file: FileSlice\)[^{]*\{\s*if file\.len\(\) < (\d+) \{")
    # further pins are appended by the per-engine sections below
    for fn in EXTRA_COLLECTORS:
        fn(P)
    return P

EXTRA_COLLECTORS = []

def emit(P):
    out = []
    out.append("(* GENERATED by tools/pin.py from /repo -- do not edit. *)")
    out.append("From Coq Require Import NArith List.")
    out.append("Import ListNotations.")
    out.append("Local Open Scope N_scope.")
    out.append("")
    for name, kind, val, rel, line in P.items:
        out.append("(* %s:%d *)" % (rel, line))
        if kind in ("N", "u8", "u16", "u32", "u64", "usize"):
            out.append("Definition %s : N := %d." % (name, val))
            bits = {"u8": 8, "u16": 16, "u32": 32, "u64": 64, "usize": 64}.get(kind)
            if bits:
                out.append("Lemma %s_%s : %s < 2 ^ %d. Proof. reflexivity. Qed." % (name, kind, name, bits))
        elif kind == "table":
            out.append("Definition %s : list N := [%s]." % (name, "; ".join(str(v) for v in val)))
        elif kind == "Q":
            out.append("Definition %s_num : N := %d." % (name, val[0]))
            out.append("Definition %s_den : N := %d." % (name, val[1]))
        elif kind == "bytes":
            out.append("Definition %s : list N := [%s]." % (name, "; ".join(str(v) for v in val)))
        out.append("")
    return "\n".join(out)

def main():
    ap = argparse.ArgumentParser()
    ap.add_argument("--repo", default=REPO)
    ap.add_argument("--out", default=os.path.join(os.path.dirname(os.path.abspath(__file__)), "..", "coq", "Generated", "Constants.v"))
    ap.add_argument("--json", default=None)
    a = ap.parse_args()
    sys.path.insert(0, os.path.dirname(os.path.abspath(__file__)))
    import glob, importlib.util
    for f in sorted(glob.glob(os.path.join(os.path.dirname(os.path.abspath(__file__)), "pindefs", "*.py"))):
        spec = importlib.util.spec_from_file_location("pindef_" + os.path.basename(f)[:-3], f)
        mod = importlib.util.module_from_spec(spec)
        spec.loader.exec_module(mod)
        EXTRA_COLLECTORS.append(mod.collect)
    P = collect(a.repo)
    text = emit(P)
    out = os.path.abspath(a.out)
    os.makedirs(os.path.dirname(out), exist_ok=True)
    old = open(out).read() if os.path.exists(out) else None
    if old != text:
        with open(out, "w") as f:
            f.write(text)
    info = {"pins": [{"name": n, "kind": k, "value": (v if not isinstance(v, (list, tuple)) or len(v) <= 8 else "<%d entries>" % len(v)),
                      "source": "%s:%d" % (rel, line)} for n, k, v, rel, line in P.items],
            "broken": P.broken}
    if a.json:
        with open(a.json, "w") as f:
            json.dump(info, f, indent=1)
    if P.broken:
        print(json.dumps(P.broken))
        sys.exit(2)

if __name__ == "__main__":
    main()
