"""Orchestration shared by every property check (see DESIGN.md §1.3/§1.4)."""
import concurrent.futures as cf
import fcntl
import glob
import json
import os
import re
import shutil
import subprocess
import sys
import time

VERIF = os.path.dirname(os.path.dirname(os.path.abspath(__file__)))
COQ = os.path.join(VERIF, "coq")
BUILD = os.path.join(VERIF, ".build")
HARNESS = os.path.join(VERIF, "harness")
REPO = "/repo"

FORBIDDEN = re.compile(r"\b(Admitted|admit|Axiom|Axioms|Parameter|Parameters|Conjecture|Conjectures|Abort All|bypass_check)\b|Unset\s+Guard|Unset\s+Positivity|Unset\s+Universe|type-in-type|impredicative-set|Admit\s+Obligations")

# axioms the standard library itself declares, accepted when a theorem depends on them (named in
# the trusted base of the evidence file whenever they occur)
AXIOM_ALLOW = {
    "FunctionalExtensionality.functional_extensionality_dep",
    "functional_extensionality_dep",
    "Classical_Prop.classic", "classic",
    "ProofIrrelevance.proof_irrelevance", "proof_irrelevance",
    "Eqdep.Eq_rect_eq.eq_rect_eq", "eq_rect_eq", "Eq_rect_eq.eq_rect_eq",
    "JMeq.JMeq_eq", "JMeq_eq",
    "ClassicalDedekindReals.sig_forall_dec", "sig_forall_dec",
    "ClassicalDedekindReals.sig_not_dec", "sig_not_dec",
    "PropExtensionality.propositional_extensionality", "propositional_extensionality",
    "ClassicalEpsilon.constructive_indefinite_description", "constructive_indefinite_description",
    "Rdefinitions.Rabst", "Rdefinitions.Rrepr", "Raxioms.completeness",
}


def env_offline():
    e = dict(os.environ)
    e["CARGO_NET_OFFLINE"] = "true"
    e.setdefault("CARGO_TERM_COLOR", "never")
    return e


def run(cmd, timeout=None, cwd=None, env=None):
    """Run a command; returns (rc, stdout+stderr). rc = 124 on timeout."""
    try:
        p = subprocess.run(cmd, cwd=cwd, env=env or env_offline(), stdout=subprocess.PIPE, stderr=subprocess.STDOUT,
                           timeout=timeout, shell=isinstance(cmd, str))
        return p.returncode, p.stdout.decode("utf-8", "replace")
    except subprocess.TimeoutExpired as ex:
        out = (ex.stdout or b"").decode("utf-8", "replace")
        return 124, out + "\n[timeout after %ss]" % timeout


class Lock:
    def __init__(self, name, shared=False):
        os.makedirs(BUILD, exist_ok=True)
        self.path = os.path.join(BUILD, name + ".lock")
        self.shared = shared

    def __enter__(self):
        self.f = open(self.path, "a")
        fcntl.flock(self.f, fcntl.LOCK_SH if self.shared else fcntl.LOCK_EX)
        return self

    def __exit__(self, *a):
        fcntl.flock(self.f, fcntl.LOCK_UN)
        self.f.close()


# ----------------------------------------------------------------------------- pins
def do_pins():
    os.makedirs(BUILD, exist_ok=True)
    pj = os.path.join(BUILD, "pins.json")
    rc, out = run([sys.executable, os.path.join(VERIF, "tools", "pin.py"), "--json", pj], timeout=120)
    info = {"pins": [], "broken": []}
    if os.path.exists(pj):
        info = json.load(open(pj))
    if rc not in (0, 2):
        info["broken"].append({"pin": "*", "why": "pin.py failed: " + out[-400:]})
    return info


# ----------------------------------------------------------------------------- coq
def coq_files():
    fs = []
    for root, _dirs, files in os.walk(COQ):
        for f in files:
            if f.endswith(".v"):
                fs.append(os.path.relpath(os.path.join(root, f), COQ))
    return sorted(fs)


def ensure_makefile():
    files = coq_files()
    proj = "-Q . TV\n-arg -w -arg -notation-overridden,-deprecated-hint-without-locality,-deprecated-instance-without-locality,-ambiguous-paths\n" + "\n".join(files) + "\n"
    pp = os.path.join(COQ, "_CoqProject")
    old = open(pp).read() if os.path.exists(pp) else None
    if old != proj or not os.path.exists(os.path.join(COQ, "Makefile")):
        open(pp, "w").write(proj)
        rc, out = run(["coq_makefile", "-f", "_CoqProject", "-o", "Makefile"], cwd=COQ, timeout=120)
        if rc != 0:
            raise RuntimeError("coq_makefile failed: " + out)


def coq_make(targets, timeout=1500):
    """make the given .vo targets (relative to coq/). Returns (ok, output)."""
    with Lock("coq"):
        ensure_makefile()
        rc, out = run(["make", "-j16", "-k"] + targets, cwd=COQ, timeout=timeout)
    return rc == 0, out


def theorems_of(prop_file):
    text = open(os.path.join(COQ, prop_file)).read()
    return re.findall(r"^\s*Theorem\s+([A-Za-z0-9_']+)", text, re.M)


def coq_closure(prop_file):
    """.v files (relative to coq/) the property file transitively depends on, via coqdep."""
    seen, todo = set(), [prop_file]
    while todo:
        f = todo.pop()
        if f in seen or not os.path.exists(os.path.join(COQ, f)):
            continue
        seen.add(f)
        rc, out = run(["coqdep", "-Q", ".", "TV", f], cwd=COQ, timeout=120)
        for m in re.finditer(r"(\S+)\.vo\b", out.split(":", 1)[1] if ":" in out else ""):
            dep = m.group(1) + ".v"
            if not dep.startswith("/") and dep not in seen:
                todo.append(dep)
    return sorted(seen)


def forbidden_scan(prop_file=None):
    bad = []
    files = coq_closure(prop_file) if prop_file else coq_files()
    for f in files:
        if f.startswith("Generated/"):
            continue
        text = open(os.path.join(COQ, f)).read()
        # strip comments (innermost first, repeated for nesting)
        prev = None
        while prev != text:
            prev = text
            text = re.sub(r"\(\*(?:(?!\(\*|\*\)).)*\*\)", " ", text, flags=re.S)
        for m in FORBIDDEN.finditer(text):
            bad.append("%s: %s" % (f, m.group(0)))
    return bad


def print_assumptions(pid, prop_file, thms):
    """Compile a tiny file that imports the property file and prints the assumptions of each theorem."""
    d = os.path.join(BUILD, "assum")
    os.makedirs(d, exist_ok=True)
    mod = prop_file[:-2].replace("/", ".")
    path = os.path.join(d, "Assum_%s.v" % pid)
    with open(path, "w") as f:
        f.write("From TV Require Import %s.\n" % mod)
        for t in thms:
            f.write('Goal True. idtac "@@THM %s". exact I. Qed.\nPrint Assumptions %s.\n' % (t, t))
    rc, out = run(["coqc", "-Q", COQ, "TV", path], timeout=600)
    res = {}
    if rc != 0:
        return {t: {"ok": False, "axioms": ["<Print Assumptions failed: %s>" % out[-300:]]} for t in thms}
    parts = re.split(r"@@THM (\S+)", out)
    for i in range(1, len(parts), 2):
        name, body = parts[i], parts[i + 1]
        if "Closed under the global context" in body:
            res[name] = {"ok": True, "axioms": []}
        else:
            axs = re.findall(r"^([A-Za-z_][A-Za-z0-9_.']*)\s*:", body, re.M)
            axs = [a for a in axs if a not in ("Axioms", "Section", "Opaque", "Transparent", "Variables")]
            bad = [a for a in axs if a not in AXIOM_ALLOW and a.split(".")[-1] not in AXIOM_ALLOW]
            res[name] = {"ok": not bad, "axioms": axs, "not_allowed": bad}
    for t in thms:
        res.setdefault(t, {"ok": False, "axioms": ["<no output>"]})
    return res


# ----------------------------------------------------------------------------- harness
def cargo_build(bin_name, profile="release", timeout=2400):
    lockf = os.path.join(HARNESS, "Cargo.lock")
    if not os.path.exists(lockf):
        shutil.copy(os.path.join(REPO, "Cargo.lock"), lockf)
    cmd = ["cargo", "build", "--offline", "--bin", bin_name]
    if profile == "release":
        cmd.insert(2, "--release")
    rc, out = run(cmd, cwd=HARNESS, timeout=timeout)
    exe = os.path.join(BUILD, "target", "release" if profile == "release" else "debug", bin_name)
    return rc == 0 and os.path.exists(exe), out, exe


def run_harness(exe, pid, seed, tier, outdir, timeout=1500, extra=()):
    if os.path.isdir(outdir):
        shutil.rmtree(outdir)
    os.makedirs(outdir)
    rc, out = run([exe, "--seed", str(seed), "--tier", tier, "--out", outdir] + list(extra), timeout=timeout, cwd=VERIF)
    summ = None
    sp = os.path.join(outdir, "summary.json")
    if os.path.exists(sp):
        summ = json.load(open(sp))
    return rc, out, summ


def eval_shards(outdir, timeout=900):
    """coqc every cases_*.v in parallel; returns (failing_ids, shard_errors, n_evaluated)."""
    shards = sorted(glob.glob(os.path.join(outdir, "cases_*.v")))
    failing, errors, n_eval = [], [], 0

    def one(path):
        # (large case literals: the parser recurses deeply -- lift the stack limit for this process only)
        rc, out = run(["bash", "-c", 'ulimit -s unlimited 2>/dev/null || ulimit -s 1000000 2>/dev/null; exec coqc -noglob -Q "$0" TV "$1"', COQ, path], timeout=timeout)
        return path, rc, out

    # shared lock: a concurrent check may not recompile .vo files (e.g. Generated/Constants.vo) while
    # the shards that import them are being evaluated
    with Lock("coq", shared=True), cf.ThreadPoolExecutor(max_workers=16) as ex:
        for path, rc, out in ex.map(one, shards):
            if rc != 0:
                errors.append({"shard": os.path.basename(path), "rc": rc, "output": out[-800:]})
                continue
            flat = " ".join(out.split())
            m = re.search(r"=\s*\((\d+)%nat,\s*(\[.*?\])\s*\)\s*:", flat)
            if not m:
                errors.append({"shard": os.path.basename(path), "rc": rc, "output": "unparsable: " + flat[-400:]})
                continue
            n_eval += int(m.group(1))
            failing += [int(x) for x in re.findall(r"\d+", m.group(2))]
    for p in glob.glob(os.path.join(outdir, "cases_*.vo")) + glob.glob(os.path.join(outdir, "cases_*.vok")) + glob.glob(os.path.join(outdir, "cases_*.vos")) + glob.glob(os.path.join(outdir, ".cases_*.aux")):
        try:
            os.remove(p)
        except OSError:
            pass
    return failing, errors, n_eval


def load_cases(outdir):
    d = {}
    p = os.path.join(outdir, "cases.jsonl")
    if os.path.exists(p):
        for line in open(p):
            c = json.loads(line)
            d[c["id"]] = c
    return d


# ----------------------------------------------------------------------------- known findings
def known_findings(pid):
    p = os.path.join(VERIF, "known_findings.json")
    if not os.path.exists(p):
        return {}
    data = json.load(open(p))
    return {e["id"]: e for e in data.get("findings", []) if e.get("property") == pid and e.get("status") == "known"}


# ----------------------------------------------------------------------------- evidence
def validate_evidence(path):
    schema = "/root/.vp/EVIDENCE.schema.json"
    if not os.path.exists(schema) or not shutil.which("python3-vt"):
        return True, "schema check skipped"
    code = ("import json,sys,jsonschema; s=json.load(open(%r)); d=json.load(open(%r)); "
            "jsonschema.validate(d,s); print('ok')") % (schema, path)
    rc, out = run(["python3-vt", "-c", code], timeout=60)
    return rc == 0, out[-500:]


def write_evidence(pid, ev):
    os.makedirs(os.path.join(VERIF, "evidence"), exist_ok=True)
    path = os.path.join(VERIF, "evidence", pid + ".json")
    with open(path, "w") as f:
        json.dump(ev, f, indent=1, sort_keys=True)
    ok, msg = validate_evidence(path)
    if not ok:
        print("evidence file does not validate: " + msg, file=sys.stderr)
    return path


def write_replay(pid, payload):
    d = os.path.join(VERIF, "replays", pid)
    os.makedirs(d, exist_ok=True)
    n = len(os.listdir(d))
    path = os.path.join(d, "replay_%d.json" % n)
    with open(path, "w") as f:
        json.dump(payload, f, indent=1)
    return path
