#!/usr/bin/env python3
"""seedtest.py <seeded/<id>> [--tier quick|thorough] [--also Cxx,Cyy]

Applies a seeded change (patch.diff) to /repo, runs the check(s) of the property it breaks,
records what they reported in <dir>/result.json, and ALWAYS reverts /repo afterwards.
/repo must be clean (no uncommitted change to tracked files) when this starts."""
import argparse, json, os, re, subprocess, sys, time

VERIF = os.path.dirname(os.path.dirname(os.path.abspath(__file__)))

def sh(cmd, **kw):
    return subprocess.run(cmd, shell=True, stdout=subprocess.PIPE, stderr=subprocess.STDOUT, text=True, **kw)

def main():
    ap = argparse.ArgumentParser()
    ap.add_argument("dir")
    ap.add_argument("--tier", default="quick")
    ap.add_argument("--also", default="")
    a = ap.parse_args()
    d = os.path.abspath(a.dir)
    meta = json.load(open(os.path.join(d, "meta.json")))
    props = [meta["property"]] + [x for x in a.also.split(",") if x]
    st = sh("git -C /repo status --porcelain --untracked-files=no").stdout.strip()
    if st:
        print("/repo is not clean:\n" + st); sys.exit(2)
    patch = os.path.join(d, "patch.diff")
    r = sh("git -C /repo apply --check %s" % patch)
    if r.returncode != 0:
        print("patch does not apply: " + r.stdout); sys.exit(2)
    results = {}
    try:
        sh("git -C /repo apply %s" % patch)
        for p in props:
            t0 = time.time()
            r = sh("./check %s --tier %s" % (p, a.tier), cwd=VERIF, timeout=3600)
            out = r.stdout
            m = re.search(r"^VIOLATION property=(\S+) replay=(\S+)(.*)$", out, re.M)
            results[p] = {"rc": r.returncode, "detected": bool(m) and r.returncode == 1,
                          "violation_line": m.group(0) if m else None,
                          "with_failing_input": bool(m) and "no-failing-input-found" not in (m.group(3) if m else ""),
                          "wall_s": round(time.time() - t0, 1), "tier": a.tier,
                          "tail": out[-1500:]}
            if m and os.path.exists(m.group(2)):
                try:
                    rep = json.load(open(m.group(2)))
                    results[p]["why"] = rep.get("why")
                    results[p]["layers"] = {"spec_failures": rep.get("n_failing", 0), "proof_breaks": len(rep.get("proof_breaks", []) or []), "tie_breaks": len(rep.get("tie_breaks", []) or [])}
                    first = (rep.get("failing") or rep.get("proof_breaks") or rep.get("tie_breaks") or [None])[0]
                    results[p]["first_item"] = json.dumps(first)[:1200]
                except Exception as ex:  # noqa
                    results[p]["replay_error"] = str(ex)
    finally:
        sh("git -C /repo apply -R %s" % patch)
        st = sh("git -C /repo status --porcelain --untracked-files=no").stdout.strip()
        if st:
            sh("git -C /repo checkout -- .")
    json.dump({"seed": os.path.basename(d), "results": results}, open(os.path.join(d, "result.json"), "w"), indent=1)
    for p, r in results.items():
        print("%s %s: detected=%s failing_input=%s rc=%s %.0fs %s" % (os.path.basename(d), p, r["detected"], r.get("with_failing_input"), r["rc"], r["wall_s"], (r.get("why") or "")[:90]))

if __name__ == "__main__":
    main()
