#!/bin/bash
# runs every claimed check (quick tier by default) sequentially and prints one line per property
cd "$(dirname "$0")/.."
tier=${1:-quick}
for p in $(python3 -c "import json;print(' '.join(c['property_id'] for c in json.load(open('MANIFEST.json'))['checks']))"); do
  s=$(date +%s)
  out=$(./check $p --tier $tier 2>&1)
  rc=$?
  e=$(date +%s)
  echo "$p rc=$rc $((e-s))s | $(echo "$out" | grep -c '^KNOWN-FINDING') known | $(echo "$out" | tail -1 | cut -c1-200)"
done
