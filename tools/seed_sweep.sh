#!/bin/bash
# runs tools/seedtest.py over every seeded change (sequentially; /repo must be clean and unused meanwhile)
cd "$(dirname "$0")/.."
for d in ${@:-seeded/*}; do
  [ -f $d/patch.diff ] || continue
  python3 tools/seedtest.py $d --tier quick 2>&1 | tail -2
done
