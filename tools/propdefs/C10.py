from common import COMMON_TB

PROP = {
    "bin": "c10",
    "prop_file": "Properties/C10.v",
    "model_files": ["Storage/Crash.v", "Storage/CrashProofs.v", "Storage/GC.v", "Storage/TempStore.v", "Storage/Proto.v", "Storage/ProtoProofs.v"],
    "level": "proof",
    "engine": "E1-storage",
    "level_text": "Proof (partial): ManagedDirectory bookkeeping (register-then-create, garbage_collect = delete managed \\ living and un-register) is modelled and "
                  "proved, for every history of creations and collections, to keep all files managed, never to delete a living or an unmanaged file, and to leave "
                  "only living files and living managed entries after one collection (no orphan at quiescence). That no file of a recoverable commit is ever deleted "
                  "follows from the commit discipline D3 (shared with C01: C10_gc_never_removes_committed_files for every accepted trace, crash point and outcome). "
                  "Tie: real writer histories (1-3 threads, merges, rollbacks, restarts, extra collections at arbitrary points) on a VerifDirectory: the trace passes "
                  "the monitor in Coq, the GC model reproduces the implementation's collection (with planted leftovers) and the quiescence predicate holds on the real "
                  "directory; no open of a segment file ever fails with NotFound. Crash part: recovered crash images + commit + GC must reach the same equality, except "
                  "class F5 (a file whose .managed.json registration was lost by the crash; classifier evaluated in Coq). Partial: that the SegmentMeta inventory covers "
                  "segments being written or merged at the instant GC lists living files (C10_inventory_covers_needed of DESIGN) is not modelled; it is covered by the "
                  "runs only (collections forced while workers and merge threads are active). "
                  "C10_needed_files_kept_on_every_history (from the writer protocol model behind C01_all_histories): at every point of EVERY history and schedule the files of "
                  "the published commit, of every committed / registered uncommitted segment and of every running job (segment under construction, merge) are in place and complete.",
    "level_note": "Trusted: as C01; the living set passed to GC is observed (files of meta.json at quiescence), not derived from a model of the inventory. No axioms.",
    "technique": "Coq set-algebra theorems over the GC bookkeeping + shared trace monitor; quiescence equality and GC model evaluated in Coq on real directories",
    "rule": "histories of 6-40 operations with 3 extra collections each; non-trivial = >= 2 commits and the final collection removed files; 3-10 crash images per history",
    "trusted_base": COMMON_TB + ["persistence model of coq/Storage/Crash.v"],
    "assumptions": ["files created by user code through Index::directory() are outside the property"],
}

ENGINE = {"name": "E1-storage", "path": "coq/Storage", "serves_properties": ["C10"],
          "kind_free_text": "persistence model + trace monitors proved sound; lock lifecycle machine; GC bookkeeping; tie: VerifDirectory traces, crash images, lifecycles, fault injection"}
