from common import COMMON_TB

PROP = {
    "bin": "c06",
    "prop_file": "Properties/C06.v",
    "model_files": ["Rank/TopN.v", "Rank/Paging.v", "Rank/Wand.v", "Rank/WandUnionBase.v", "Rank/WandUnionProofs.v", "Rank/WandNoFreq.v"],
    "level": "proof",
    "engine": "E4-ranking",
    "level_text": "Proof (partial where stated): TopNComputer (buffer of capacity 2*max(K,1), strict threshold test, truncation by select_nth_unstable_by, "
                  "into_sorted_vec / into_vec) is modelled in Gallina and proved, for every comparator that is a total preorder, every K (0 included), every key "
                  "sequence pushed in ascending address order and every std select_nth/sort meeting their contracts, to return exactly entries 0..K of the complete "
                  "(key, ascending address) order and never to panic (C06_topn_exact, C06_segment_fruit); the pruning threshold is proved sound (C06_threshold_sound); "
                  "per-segment top-(O+K) merged and sliced equals entries O..O+K of the complete list (C06_merge_paging) and successive pages enumerate every match exactly "
                  "once (C06_pages_enumerate); merge_top_k and the whole collector are proved exact under the proviso that fruits reach the merge in ascending address "
                  "order (C06_merge_top_k_exact, C06_collect_exact). That proviso is NOT met by the code: finding F15 (wrong tie-break across segments, witness "
                  "C06_collect_tie_refuted, reproduced on the implementation). The design's claim that the threshold only rises is refuted on model and code "
                  "(C06_threshold_monotone_refuted; harmless). Block-max WAND: block_wand_single_scorer (term queries) is modelled over posting lists with arbitrary block "
                  "boundaries and proved, for every collector with a non-decreasing threshold, to terminate within a linear fuel bound in exactly the state exhaustive scoring "
                  "reaches whenever block maxima are upper bounds (C06_wand_single_sound, C06_wand_single_terminates; C06_wand_needs_upper_bounds_refuted shows the hypothesis is "
                  "needed). block_wand for unions of >= 2 term scorers (find_pivot_doc, block_max_was_too_low_advance_one_scorer, align_scorers, advance_all_scorers_on_pivot, "
                  "restore_ordering) is modelled and proved sound and terminating under the same hypotheses plus max_score >= every block max "
                  "(C06_wand_union_sound, C06_wand_union_terminates in Rank/WandUnionBase.v / WandUnionProofs.v; C06_wand_union_needs_max_score_bound_refuted shows the extra hypothesis "
                  "is needed). PARTIAL: block_wand_intersection is NOT modelled; it is covered end-to-end only (including every 4..6-term conjunction over large skewed corpora, "
                  "which exercises its suffix-sum pruning bound with >= 3 secondary terms). Metadata that is not an upper bound (F3: C06_blockmax_bound_refuted, "
                  "F6: C06_max_score_bound_refuted, exact rationals over the regenerated BM25 constants) is classified, witnessed and reproduced on the implementation. "
                  "Posting lists without term frequencies (block max 0 on full blocks) are modelled (Rank/WandNoFreq.v): they violate the bounds contract for every list "
                  "(C06_nofreq_not_upper_bounds) and the single-scorer routine then misses the best document (C06_nofreq_blockmax_refuted) -- finding F61, reproduced on the implementation. "
                  "Multi-clause float sums are compared with the documented tolerance (partial).",
    "level_note": "Trusted: Coq kernel + vm_compute; pin.py; harness; std select_nth_unstable_by / sort_unstable_by and BinaryHeap only through their contracts "
                  "(Section hypotheses; TopNHeap of the score path is covered end-to-end, not modelled); posting-list codec and skip reader abstracted as lists of "
                  "blocks (C07/C13 cover them); f32 arithmetic not modelled (scores are exact numbers in the theorems). No axioms.",
    "technique": "Coq proof (invariant over push sequences, counting/rank argument for the merge, simulation of WAND against exhaustive scoring) + correspondence cases evaluated by vm_compute",
    "rule": "cases: (a) TopNComputer push sequences (ascending docs, Option keys, 4 comparators, K in {0,1,2,n-1,n,n+1,...}, lengths around 2K capacity crossings; "
            "non-trivial = at least one truncation or a tie at the boundary); (b) end-to-end TopDocs (score / fast field asc,desc u64,i64,f64,date,string / tweak_score) "
            "over generated indexes with 1-4 segments, deletes, posting lists crossing 128-doc blocks, single/union/intersection/boolean-tree queries, 1 and 3 search threads "
            "(non-trivial = more matches than K+O or >= 2 segments); paging sweeps; (b2) every conjunction of 4-6 Must term clauses out of 8 terms of document frequency 25%..97% with "
            "heavy-tailed term frequencies over single-segment corpora of 2600-4500 documents (with and without deletes), K in {1,2,3,5}, vs the exhaustive oracle; "
            "(b3) 260 (thorough 1200) tiny 2-4-segment indexes whose hits take 2-4 distinct scores, each at most twice per segment in 3 cases of 4 (ties on the K boundary of merge_fruits, "
            "fruits handed over in heap order), every K <= 8, offsets 0..2 and paging sweeps, exact comparison -- a wrong tie-break outside the F15 class is a violation with its input; "
            "(b4) single-segment corpora whose 7 terms live in their own doc-id ranges (posting lists ending at different places, frequent low-impact and rare high-impact terms), every "
            "union of 3-5 Should term clauses, K in {1,2,3,5}, under a 20 s watchdog (non-termination is an observation); "
            "(b5) single-segment corpora with a TEXT field and a multi-valued STRING field (no frequencies; field norm drifting with the doc id; tags with more and fewer than 128 postings): "
            "single STRING terms, STRING-only unions and unions mixing TEXT and STRING terms, K in {1,2,3,5}; every TopDocs with an offset is also run inside (Count, TopDocs) and a MultiCollector "
            "(generic for_segment/harvest route) in (b3) and for u64/i64 fast-field pages in (b); "
            "distinct by hash of the Gallina term",
    "trusted_base": COMMON_TB + ["std::slice::select_nth_unstable_by / sort_unstable_by: contracts as Section hypotheses (two concrete instances proved to meet them)",
                                 "f32 addition is not modelled: exact scores in theorems, tolerance 1e-5 relative for multi-clause sums in the end-to-end comparison"],
    "assumptions": ["keys are exactly comparable (no NaN; -0.0 not generated)", "the exhaustive (doc, key) oracle is the same searcher's non-pruning custom collector"],
    "harness_timeout": 1500,
}

ENGINE = {"name": "E4-ranking", "path": "coq/Rank", "serves_properties": ["C06"],
          "kind_free_text": "Gallina models + Coq proofs of TopNComputer, merge/paging, block-max WAND; tie: harness/src/bin/c06.rs"}
