from common import COMMON_TB

PROP = {
    "bin": "c13",
    "prop_file": "Properties/C13.v",
    "model_files": ["DocSet/Spec.v", "DocSet/Impl.v", "DocSet/Program.v", "DocSet/Exclude.v", "DocSet/ReqOpt.v", "DocSet/Sum.v",
                    "DocSet/Intersect.v", "DocSet/IntersectProofs.v", "DocSet/Union.v", "DocSet/Disjunction.v", "DocSet/Cases.v"],
    "level": "proof",
    "engine": "E3-docset",
    "level_text": "Proof: a DocSet implementation is a record of the trait's methods; the contract Repr(state, remaining sorted list) is stated once (Impl.v) and "
                  "every implementation meeting it is proved observationally equal to the plain sorted list for every valid call program of any length "
                  "(advance, seek(t >= doc), fill_buffer, fill_bitset_block, count_including_deleted), with TERMINATED sticky (induction on the program). "
                  "The trait's default methods are proved to meet the contract from doc/advance alone (loops fuelled by the remaining postings, fuel proved adequate), "
                  "hence the leaf and every docset that overrides nothing. Executable models of Exclude, Intersection (leap-frog with seek_danger, dense/sparse count), "
                  "BufferedUnionScorer (4096 window of TinySets, refill, in/out-of-horizon seek, wrapping_sub horizon test, fill_buffer, count), "
                  "RequiredOptionalScorer and Disjunction(min-should-match) transliterate the Rust and are tied by differential runs; "
                  "Compositional Repr theorems are proved for Exclude (single/Vec exclusion set through seek_danger, for ANY children meeting the contract, weak or strong), "
                  "RequiredOptionalScorer and heterogeneous (Box<dyn>) children, so these nest at any depth (example theorem: all programs on Exclude(ReqOpt(leaf,leaf),[leaf,leaf])). "
                  "For Intersection, go_to_first_doc (Intersection::new / intersect_scorers / seek) is proved for any children meeting the contract: terminates within the fuel, aligns all children on the first common member, skips none; hence new/doc/seek represent sem_inter. "
                  "seek_danger is specified relationally in the contract (Found iff member, else a bound in (t, next member], dangling states) and programs with seek_danger calls are proved to satisfy the relational spec_check for every implementation meeting the contract; the generated programs contain seek_danger sequences. "
                  "_partial: the leap-frog Intersection::advance/seek_danger and its dense count, BufferedUnionScorer and Disjunction have no Repr theorem (their models are tied by differential runs and checked against the set semantics); "
                  "scores are not modelled (score path-independence is decided on the implementation side, bit-exact). "
                  "F131 (union seek_danger below its window) is fixed in /repo; the model follows the pinned shape of the source (flag UNION_DANGER_GUARDS_CURRENT_DOC) and C13_union_in_union_refuted is the witness for the old shape. Known findings: F132 (fill_buffer leaves stale score combiners), "
                  "F133 (a union keeps a dangling intersection child as score contributor).",
    "level_note": "Trusted: Coq kernel + vm_compute; pin.py; the harness (leaf DocSet driven by the trait defaults, BooleanQuery trees over leaf queries, programs generated on line "
                  "against the real scorer). SIMD in-block search of postings, fast-field range and phrase scorers are exercised on the spec layer only (not modelled). "
                  "No axioms (Print Assumptions: closed under the global context).",
    "technique": "Coq proof (contract refinement to sorted-list semantics, induction on call programs, fuel adequacy) + correspondence cases evaluated by vm_compute",
    "rule": "a case = (scorer construction, call program, observations); non-trivial when the underlying list has >= 3 documents and the program >= 3 calls; "
            "scorers: leaves, direct Exclude/RequiredOptional/intersect_scorers, BooleanQuery trees (union, min-should-match, must, must_not; depth 1-3) over leaf queries, "
            "real term/boolean/all/range/phrase queries on an indexed corpus; targets biased to doc, doc+1, members +-1, +4095/4096/4097, multiples of 4096/1024/128/64 +-1, TERMINATED-1, TERMINATED; "
            "distinct by hash of the Gallina case term",
    "trusted_base": COMMON_TB + ["harness leaf `VecDs` (sorted vector + default trait methods) stands for VecDocSet (cfg(test) only in the crate)",
                                 "the BinaryHeap of Disjunction is modelled as pop-min on a list (tie order among equal docs is not observable on documents)",
                                 "scores are compared on the implementation side only (power-of-two leaf scores make every sum exact in f32)"],
    "assumptions": ["seek targets are >= the current document and <= TERMINATED (the trait's stated contract)",
                    "fill_bitset_block is called with min_doc + BLOCK_WINDOW <= TERMINATED",
                    "count_including_deleted is the last call on a docset (it consumes it)"],
}

ENGINE = {"name": "E3-docset", "path": "coq/DocSet", "serves_properties": ["C13"],
          "kind_free_text": "list semantics of a DocSet, the Repr contract, default trait methods, combinator models (Exclude, Intersection, BufferedUnion, ReqOpt, Disjunction); tie: harness/src/bin/c13.rs"}
