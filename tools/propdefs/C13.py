from common import COMMON_TB

PROP = {
    "bin": "c13",
    "prop_file": "Properties/C13.v",
    "model_files": ["DocSet/Spec.v", "DocSet/Impl.v", "DocSet/Program.v", "DocSet/Exclude.v", "DocSet/ReqOpt.v", "DocSet/Sum.v",
                    "DocSet/Intersect.v", "DocSet/IntersectProofs.v", "DocSet/IntersectAdvanceProofs.v", "DocSet/Union.v", "DocSet/UnionBits.v",
                    "DocSet/UnionProofs.v", "DocSet/UnionWitness.v", "DocSet/Disjunction.v", "DocSet/DisjunctionProofs.v", "DocSet/Cases.v", "DocSet/SimpleUnion.v", "DocSet/Phrase.v", "DocSet/Probe.v"],
    "level": "proof",
    "engine": "E3-docset",
    "level_text": "Proof: a DocSet implementation is a record of the trait's methods; the contract Repr(state, remaining sorted list), with dangling states and a relational seek_danger "
                  "(Found iff member, else a bound in (t, next member]), is stated once (Impl.v). Every implementation meeting it is proved observationally equal to the plain sorted list for every "
                  "valid call program of any length (advance, seek(t >= doc), fill_buffer, fill_bitset_block, count_including_deleted; induction on the program), TERMINATED is sticky, and programs "
                  "with seek_danger sequences satisfy the relational spec_check. The trait's default methods meet the contract from doc/advance alone (fuel proved adequate). "
                  "Compositional theorems, each for ANY children meeting the contract (so they nest at any depth, heterogeneous Box<dyn> children via the sum): Exclude (single/Vec exclusion set), "
                  "RequiredOptionalScorer, Intersection (go_to_first_doc, leap-frog advance with seek_danger restarts, seek, its own seek_danger; sparse count path), "
                  "Disjunction(min-should-match k >= 1), SimpleUnion (represents sem_union, strong contract, and the alignment invariant `a child contains the current doc iff it is positioned on it` "
                  "that `impl Postings for SimpleUnion` -- term_freq / positions -- relies on), PhraseScorer as the terms' intersection filtered by phrase_match with the positions machinery as an oracle count_of "
                  "(constructor/advance/seek meet the contract; its own seek_danger is exact from valid states; the stored phrase_count read by score()/term_freq is proved to be the current document's count on every route: "
                  "C13_phrase_count_path_independent), BufferedUnionScorer (build/doc/advance/in- and out-of-horizon seek/fill_buffer/fill_bitset_block/count keep the window invariant of DESIGN s9 "
                  "and represent sem_union); with seek_danger in the shape READ FROM THE CURRENT SOURCE (pinned flags: guard on the current document, re-synchronisation of the missed children in the hit branch) "
                  "the union meets the strong contract over children that never dangle (leaves, Exclude, Disjunction, every default seek_danger). "
                  "_partial: the union's contract over children that can dangle (Intersection / union children driven through seek_danger) is not proved -- that is where F133/F134 were; it is covered by the "
                  "differential runs and the witnesses (C13_union_over_dangling_child_refuted for the shape before the fix of F134, UnionWitness.W_current_source for the current one); "
                  "Intersection's dense count path, BitSetPostingUnion, postings/range/phrase-prefix scorers and the positions computation of phrases are not modelled (spec layer on the implementation only); "
                  "SimpleUnion and PhraseScorer are not publicly constructible, so their models are not tied case by case: RegexPhraseQuery / PhraseQuery scorers are checked on the spec layer; "
                  "scores are not modelled: score path-independence is decided on the implementation side (bit-exact for single clauses and power-of-two leaf scores, relative 1e-5 for f32 sums), "
                  "after every positioning call, along an advance walk to the end after every program, after `fresh scorer; seek(member)` for the members, and -- for conjunctions -- against the sum of the clauses' standalone scores. "
                  "seek_danger with a target below the child's document is part of the contract (clause c_danger_below), not a caller-side precondition: Exclude::contains and the union's out-of-horizon loop ask it "
                  "(witnesses C13_exclude_asks_below_doc / C13_union_asks_children_below_doc), and the phrase scorer's code meets it (C13_phrase_seek_danger_below); F135: its debug_assert contradicts this (debug builds only). "
                  "F131-F134 are fixed in /repo (C13_union_in_union_refuted / C13_union_over_dangling_child_refuted are witnesses about the old shapes); no known finding remains for this property.",
    "level_note": "Trusted: Coq kernel + vm_compute; pin.py; the harness (leaf DocSet driven by the trait defaults, BooleanQuery trees over leaf queries, programs generated on line "
                  "against the real scorer). SIMD in-block search of postings, fast-field range and phrase scorers are exercised on the spec layer only (not modelled). "
                  "No axioms (Print Assumptions: closed under the global context).",
    "technique": "Coq proof (contract refinement to sorted-list semantics, induction on call programs, fuel adequacy) + correspondence cases evaluated by vm_compute",
    "rule": "a case = (scorer construction, call program, observations); non-trivial when the underlying list has >= 3 documents and the program >= 3 calls; "
            "scorers: leaves, direct Exclude/RequiredOptional/intersect_scorers, BooleanQuery trees (union, min-should-match, must, must_not; depth 1-3) over leaf queries, "
            "real term/boolean (incl. dense term unions over > 3 windows)/all/range/phrase/phrase-prefix (2- and 3-term, alone and inside boolean queries) queries on indexed corpora; "
            "phrase / phrase-prefix clauses with 0..4 occurrences per document as leading and non-leading clauses of scored conjunctions; regex phrases whose regex expands to rare (< 100 docs) and frequent terms sharing documents; "
            "dense scoring unions with a scripted in-bucket seek followed by the same slots of the next windows; seek_danger sequences; every program is followed by an advance walk to the end; targets biased to doc, doc+1, members +-1, +4095/4096/4097, multiples of 4096/1024/128/64 +-1, TERMINATED-1, TERMINATED; "
            "distinct by hash of the Gallina case term",
    "trusted_base": COMMON_TB + ["harness leaf `VecDs` (sorted vector + default trait methods) stands for VecDocSet (cfg(test) only in the crate)",
                                 "the BinaryHeap of Disjunction is modelled as pop-min on a list (tie order among equal docs is not observable on documents)",
                                 "scores are compared on the implementation side only (power-of-two leaf scores make every sum exact in f32)"],
    "assumptions": ["seek targets are >= the current document and <= TERMINATED (the trait's stated contract)",
                    "fill_bitset_block is called with min_doc + BLOCK_WINDOW <= TERMINATED",
                    "count_including_deleted is the last call on a docset (it consumes it)"],
}

ENGINE = {"name": "E3-docset", "path": "coq/DocSet", "serves_properties": ["C13"],
          "kind_free_text": "list semantics of a DocSet, the Repr contract, default trait methods, combinator models (Exclude, Intersection, BufferedUnion, ReqOpt, Disjunction); tie: harness/src/bin/c13.rs"}
