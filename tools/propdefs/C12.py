from common import COMMON_TB

PROP = {
    "bin": "c12",
    "prop_file": "Properties/C12.v",
    "model_files": ["Rank/BM25.v", "Rank/Explain.v", "Rank/BM25Float.v"],
    "level": "proof",
    "engine": "E4-ranking",
    "level_text": "Proof (exact rationals, ln an abstract monotone function with ln 1 = 0; all corpora, segmentations and query trees by induction): "
                  "the searcher statistics N = sum max_doc, n_t = sum doc_freq, sum of tokens depend only on the multiset of physical documents, so with no "
                  "deleted documents every score is the same under any segmentation (C12_stats_partition_invariant, C12_score_partition_invariant); "
                  "the scorer tree as the code builds it (boosts pushed down into the Bm25Weights, const-score, SumCombiner, DisjunctionMaxCombiner folding "
                  "from 0.0, single-clause booleans unwrapped, must/should/must_not with minimum_number_should_match) computes boost x the BM25 formula over the "
                  "searcher statistics, the document's term frequency and its quantised length (C12_scorer_is_boost_times_formula, C12_score_is_formula, "
                  "C12_term_clause_formula, C12_dismax_is_max_plus_tie_rest); the explanation tree built as in the five explain functions has that score as its "
                  "value, exists exactly on matching documents (C12_explain_agrees) and is internally consistent node by node: product / tf formula / idf / boost / sum / dis-max of its details "
                  "(C12_explain_tree_consistent); boolean trees of boosted term and phrase clauses score the sum over the matching scoring clauses of "
                  "boost-path x idf x (1+K1) x tf_factor (C12_score_is_sum_over_matching_clauses); any selecting collector, Top-K for every K included, reports the score "
                  "function of (statistics, query, document) (C12_collector_independent); tf_factor is increasing in tf, decreasing in the field-norm id, in [0,1) "
                  "(C12_tf_factor_monotone), idf >= 0 and decreasing in the document frequency. Bm25Weight::max_score is characterised: it dominates exactly the "
                  "documents with tf <= decoded length (C12_max_score_bounds_tf_le_decoded_len) and is NOT an upper bound otherwise (C12_max_score_is_not_upper_bound_refuted, F6). "
                  "Partial: `ln` itself (checked numerically, +-1 ulp against f64); the binary32 evaluation is tied bit-exactly (Flocq model, operation by operation) "
                  "but no error bound between the binary32 and the rational formula is proved (checked per case: exact-rational formula within 2^-18 relative); "
                  "multi-clause sums only up to n ulps as the property words it; on the implementation every explanation node is checked against the stated "
                  "function of its details in f32 (bit-exact for products/quotients, n ulps for sums). Known findings: F40 (TopDocs scores a top-level DisjunctionMaxQuery of term scorers as the plain "
                  "sum: block_wand ignores the combiner; witness C12_dismax_topdocs_refuted, C12_sum_is_not_dismax) and F41 (explain of a boosted clause multiplies the "
                  "boost last, 1-ulp differences; witness C12_boost_explain_rounding_refuted) and F42 (phrase / const / boolean explain seek a fresh scorer without the "
                  "doc() > target guard of TermWeight::explain: DocSet contract breach, a panic in debug builds; C12_guarded_explain_respects_seek_contract, "
                  "C12_unguarded_explain_backward_seek_refuted; observed in release through a transparent probe scorer).",
    "level_note": "Trusted: Coq kernel + vm_compute; pin.py (K1, B, max_score arguments, field-norm table, cache length regenerated from /repo); the harness "
                  "(corpus generator, its own tokenisation-free corpus model, JSON walk of explanations). The rational theorems are closed under the global context "
                  "(no axioms: BM25.v / Explain.v import neither Flocq nor Reals). C12_float_cache_is_function, C12_dismax_topdocs_refuted and "
                  "C12_boost_explain_rounding_refuted go through Flocq and depend on the standard library's real-number/classical axioms "
                  "(ClassicalDedekindReals.sig_forall_dec, sig_not_dec, functional_extensionality_dep, possibly classic). "
                  "The idf values are an oracle table (ln is not computable): shipped from the implementation's explanation and checked against f64 ln (+-1 ulp) and for monotonicity on every run. "
                  "Document matching (phrase positions, boolean semantics) is modelled at the level of one document and belongs to C03.",
    "technique": "Coq proof over Q (structural induction on query trees, induction over segment lists, Permutation) + Flocq binary32 model evaluated by vm_compute against the implementation's score/explain bits",
    "rule": "a case is one (searcher, query, matching document) observation or one Bm25Weight::score call; non-trivial = the searcher has >= 2 segments "
            "(end-to-end cases) or the call is on the public Bm25Weight API with a field-norm id in 0..255; distinct by hash of the Gallina case term. "
            "Corpora: 1-700 documents, field lengths at/around every reachable quantisation boundary, 1-6 segments, one third with deletes; "
            "queries: term, phrase, boost, const-score, boolean must/should/must_not mixes, disjunction-max with tie breaker, depth <= 3; "
            "Bm25Weight is driven directly over all 256 field-norm ids; "
            "directed conjunctions of a composite clause (required/optional, union, dis-max, boosted, phrase- or const-optional) with a strictly rarer clause, both orders "
            "(composite scorers scored after seek_danger); probe-wrapped copies of every query on a third of the small corpora (explain must not seek backwards); "
            "one segment of ~9000 small documents per run (dis-max / boolean unions whose matches lie in every 4096-document window of the union scorers, "
            "each document checked through the non-pruning collector, explain and the model); "
            "corpora with 2-3 text fields of very different length distributions and conjunctions of Must term clauses across fields "
            "(TopDocs with K = all, 1, 3, 10 vs the scoring collector vs explain vs per-field Flocq evaluation of every clause)",
    "trusted_base": COMMON_TB + [
        "Flocq 4.1.0 (IEEE754.BinarySingleNaN: Bplus/Bminus/Bmult/Bdiv/binary_normalize, mode_NE) for the binary32 model only",
        "`ln` is not modelled: a Section variable with the contract (monotone, ln 1 = 0); idf values reach Coq as an oracle table checked against f64 ln",
        "serde_json rendering of Explanation (f32 -> shortest decimal -> f32 round trip) when walking explanation trees",
    ],
    "assumptions": ["f32::ln (libm) is within 1 ulp of the real logarithm (checked per run against f64)",
                    "rustc/LLVM evaluate f32 expressions as written (no contraction, no fast-math): tied by bit-exact comparison on every case",
                    "boosts, const scores and tie breakers are non-negative finite floats (negative boosts are outside the generator and outside wfq)"],
    "coq_timeout": 900,
}

ENGINE = {"name": "E4-ranking", "path": "coq/Rank", "serves_properties": ["C12"],
          "kind_free_text": "Gallina models + Coq proofs of BM25 scoring (exact rationals), explanation trees, Flocq binary32 evaluation; tie: harness/src/bin/c12.rs"}
