COMMON_TB = [
    "Coq 8.16.1 kernel (coqc, full .vo builds) and vm_compute; no native_compute",
    "tools/pin.py (regenerates coq/Generated/Constants.v from /repo)",
    "Rust harness /verif/harness (generators, VerifDirectory, printers of Gallina case files)",
    "tools/vlib.py + check (orchestration, parsing of coqc output)",
]
