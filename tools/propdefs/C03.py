from common import COMMON_TB

PROP = {
    "bin": "c03",
    "prop_file": "Properties/C03.v",
    "model_files": ["Query/QuerySem.v", "Query/Compose.v", "Query/ComposeProofs.v", "Query/Phrase.v", "Query/PhraseProofs.v", "Query/MonoMap.v", "Query/Exists.v", "Query/Cases.v"],
    "level": "proof",
    "engine": "E3-query",
    "level_text": "Proof: the specification `matches`/`eval` (structural recursion over the query tree: term, phrase with slop, phrase-prefix, range over the typed "
                  "value order, term-set, exists, all, empty, fuzzy/regex through an acceptance oracle, boost, const-score, disjunction-max, boolean with "
                  "must/should/must-not and minimum_number_should_match) and a transliteration of BooleanWeight::scorer/complex_scorer (removal and counting of "
                  "All/Empty scorers, effective minimum, should promoted to must, union vs disjunction, required-optional, exclusion, intersect_scorers) are related by "
                  "theorems proved by structural induction for ALL query trees, clause lists, minimums, segments and delete sets: the scorer built denotes exactly "
                  "`matches` (C03_boolean_sound, C03_collect_sound), Weight::count incl. the doc_freq shortcut agrees (C03_count_agrees), scoring on/off is "
                  "irrelevant, any segmentation / merge / permutation of the documents gives the same answer and deleted documents never appear. "
                  "Phrase matching (transliteration of phrase_scorer.rs incl. the carried-slop scan and the cost order of the terms): two-term phrases with any slop, "
                  "scoring on or off, are proved to match exactly the documented meaning (C03_phrase, two-pointer completeness on sorted position lists). "
                  "Order-preserving encodings i64/f64(non-NaN)/bool/date -> u64 (HIGHEST_BIT regenerated): a<b <-> enc a < enc b and range over encoded = range over values (C03_range_encoding). "
                  "The one-clause shortcut of BooleanWeight::scorer() is pinned from the source (C03_SCORER_SINGLE_CLAUSE_CHECKS_MSM): under the current (fixed) shape the theorems hold for every tree "
                  "without exclusion (the proofs re-run on the regenerated flag); the old shape is characterised by C03_boolean_sound_old_shape + witness C03_single_clause_msm_refuted (F31, fixed). "
                  "ExistsWeight::scorer over dynamic columns (JSON field with sub-paths; threshold and shape of the bitset loop regenerated from the source) is proved to contain exactly the documents "
                  "holding a value in some column, for every number of columns and every cardinality mix (C03_exists_columns_sound, C03_exists_is_leaf). "
                  "Known findings: F32 phrase with >= 3 terms and slop (witness C03_phrase_slop3_refuted); F33 buffered union reports the document of a child left dangling by a missed seek_danger "
                  "(large sparse segments; classified on the Rust side). "
                  "Partial: phrases with >= 3 terms are proved only through the witness/classifier (slop 0 with >= 3 terms is tied, not proved); docset iteration (advance/seek of union/intersection) is C13; block-max WAND pruning is C06; the automata are oracles.",
    "level_note": "Trusted: Coq kernel + vm_compute; pin.py; the harness (corpus/query generators, mapping of DocAddress to unique ids through a fast field); "
                  "leaf scorers are modelled by their posting lists (the theorem is parametric in any leaf scorer meeting the contract); tokenisation is C19 "
                  "(whitespace tokenizer over a generated vocabulary). No axioms (Print Assumptions: closed under the global context).",
    "technique": "Coq proof by structural induction over query trees + correspondence cases evaluated by vm_compute",
    "rule": "a case is one (corpus split into segments with deletes/merge, query tree) pair observed through Count, Query::count, DocSetCollector (scoring off and on), "
            "TopDocs(limit >= num docs), (DocSetCollector, TopDocs) and FilterCollector; non-trivial = tree depth >= 2 with >= 2 occur kinds and >= 1 matching and >= 1 non-matching live "
            "document; every corpus also gets seek-driven phrase-prefix trees (one- and two-term phrase + prefix as Must/MustNot siblings of term clauses) and a focus corpus where the first term "
            "sits in ~90% of the documents at varying positions; every corpus carries a JSON fast field (scalar, array and mixed-type sub-paths; < 4 and >= 4 columns) with exists queries and a per-segment tie of the columns read back; "
            "two sparse corpora of 32k documents (rare terms in clusters more than 4096 doc ids apart, unions with nested conjunctions/phrases in both clause orders as Must/MustNot) checked against the Rust mirror of eval; regression witnesses for F31, F131, F134; distinct by hash of the Gallina case term",
    "trusted_base": COMMON_TB + ["fuzzy/regex/prefix acceptance is an oracle: the harness runs levenshtein_automata / tantivy_fst::Regex over the vocabulary and ships the accepted sets",
                                 "leaf scorers (postings, phrase scorer, range/term-set doc sets) are modelled by the set of documents they contain"],
    "assumptions": ["tokenisation and term encoding of text are outside this property (C19, C15)", "doc ids fit u32 (segments below 2^31 documents)"],
    "shard_timeout": 900,
}

ENGINE = {"name": "E3-query", "path": "coq/Query", "serves_properties": ["C03"],
          "kind_free_text": "Gallina spec of query meaning + model of scorer composition (boolean_weight.rs), phrase position matching, order-preserving encodings; tie: harness/src/bin/c03.rs"}
