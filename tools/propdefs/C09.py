from common import COMMON_TB

PROP = {
    "bin": "c09",
    "prop_file": "Properties/C09.v",
    "model_files": ["Store/VInt.v", "Store/SkipIndex.v", "Store/SkipIndexProofs.v", "Store/BlockStore.v", "Store/BlockStoreProofs.v", "Store/DocCodec.v", "Store/DocCodecProofs.v", "Store/WriterFaults.v"],
    "level": "proof",
    "engine": "E5-codecs",
    "level_text": "Proof: (skip index) for every contiguous checkpoint sequence of any length -- any number of CHECKPOINT_PERIOD blocks and layers -- the builder never "
                  "hits its assertions, SkipIndex::seek over the serialised delta/VInt layers returns the unique checkpoint containing the doc id (none iff beyond the last "
                  "document) and checkpoints() returns the inserted sequence. (document codec) deserialize(serialize d) = stored_part d for every well-formed document: all "
                  "value types, arrays/objects nested to any depth (size fuel proved adequate), several values per field in order; non-stored fields never returned. "
                  "(block store) for every codec with decompress(compress x)=x, every block size and every list of non-empty documents (incl. larger than a block): the "
                  "writer never panics, blocks partition the documents, checkpoints are contiguous, the offset table reads back every document and "
                  "get(write docs) i = nth i docs through the skip index; the block cache is transparent under any replacement policy. "
                  "(I/O errors) the same-thread and dedicated-thread block compressors report Err for every fault pattern of the underlying writer, whichever way the thread/sender race goes, and Ok implies the whole stream was written. "
                  "(vint) serialize_vint_u32 with its four regenerated branch thresholds is read back by read_u32_vint for every u32 (CompactDoc length prefixes). "
                  "Partial (_partial, tied by the correspondence only, no theorem): iter_raw/alive bitsets (C09_iter), stack/re-append merges (C09_merge_store), and the "
                  "byte-level framing of the store file (footer, layer-offset header: store_open/si_open) -- these models are run on the implementation's files every run. "
                  "Tie: the Coq reader model (footer, skip index, block offset table) is run on the implementation's store files; the Coq document decoder on the "
                  "implementation's serialised documents; the Coq merge model (stack / re-append, iter_raw with deletes) on the implementation's source stores. Spec: `stored_part` of every added "
                  "document (computed in Coq from the added values and the schema's stored flags) equals what StoreReader::get / Searcher::doc returned; get_document_bytes, "
                  "iter with alive bitsets and merges are compared with the added documents for every compressor (none/lz4/zstd), block size, thread mode and cache size.",
    "level_note": "Trusted: Coq kernel + vm_compute; pin.py; harness. lz4/zstd are never modelled: the store theorems are quantified over every codec with "
                  "decompress (compress x) = Some x. serde_json (PreTokenizedString payload) and UTF-8 validation are outside the model. "
                  "No axioms (Print Assumptions: closed under the global context).",
    "technique": "Coq proof (builder invariant by induction over insertions, tree descent, codec round trips) + correspondence cases evaluated by vm_compute",
    "rule": "cases: StoreWriter over a failing Write (a fault at every operation index of the stream, thread on/off, sticky/one-shot; non-trivial: the fault lies inside the stream); vint boundary values (non-trivial: >= 128), large stored values (Rust side), codec-switch merges (9 codec pairs x block count x deletes); store files (non-trivial: >= 2 documents), documents (non-trivial: >= 1 stored value), merges (always non-trivial), index documents (>= 2 stored values); "
            "distinct by hash of the Gallina case term",
    "trusted_base": COMMON_TB + ["lz4_flex / zstd: contract decompress (compress x) = Some x (Section hypothesis), exercised by the harness under every configuration",
                                 "serde_json text of PreTokenizedString is an opaque byte string in the model; UTF-8 validation of strings is not modelled"],
    "assumptions": ["a serialised document is at least one byte long (proved for the document codec; raw store_bytes(&[]) is outside the property)",
                    "store file, block and skip-index sizes fit the u32/u64 fields of the format (hypotheses of the theorems)"],
}

ENGINE = {"name": "E5-codecs", "path": "coq/Store", "serves_properties": ["C09"],
          "kind_free_text": "Gallina models + Coq proofs of the document store (VInt, skip index, block store, document codec); tie: harness/src/bin/c09.rs"}
