from common import COMMON_TB

PROP = {
    "bin": "c04",
    "prop_file": "Properties/C04.v",
    "model_files": ["Indexing/Merge.v", "Indexing/MergeProofs.v", "Indexing/MergeShuffle.v", "Indexing/MergeSched.v", "Indexing/MergeSchedProofs.v"],
    "level": "proof",
    "engine": "E2-indexing",
    "level_text": "Proof: IndexMerger::write is modelled on logical dumps of segments (alive bits, store, field norms, fast values, term dictionary "
                  "with doc/tf/positions). Proved for ANY number of sources and ANY alive sets (induction over sources / over the mapping): "
                  "the stacked doc-id mapping is a bijection between new ids and live old addresses, order preserving, and the old->new table is "
                  "its inverse (C04_mapping_bijective); the mechanism (table fill, per-term remap with the doc_freq filter, gather of norms/columns, "
                  "store stacking vs alive iteration) equals the specification 'live documents of the sources in source order, postings renumbered' as "
                  "whole records, including all-deleted sources and the empty result (C04_write_is_spec, C04_content_preserved, C04_stacking_irrelevant); "
                  "sorted index: every k-way merge is an interleaving (C04_kmerge_is_interleaving), every interleaving is a bijection that keeps each "
                  "source's order with the table as inverse (C04_shuffled_mapping_bijective, C04_shuffled_order_preserving) and the sequential "
                  "per-reader store iterators meet exactly the mapped documents (C04_store_iteration_aligned). Schedule side (state machine of "
                  "start_merge/end_merge with delete queue, cursors, registers, target opstamp, rollback epochs): starting a merge is invisible "
                  "(C04_start_merge_transparent), a merge whose sources are gone or whose writer was rolled back is discarded without effect "
                  "(C04_end_merge_discarded), and for every queue and committed opstamp the reconciled merged entry holds exactly the documents of its "
                  "sources advanced to that opstamp (C04_end_merge_reconciles, C04_advance_composes); a merge of committed segments, explicit or by policy, targets the last commit's opstamp and therefore neither applies nor publishes pending (uncommitted) deletes (C04_committed_merge_target, C04_committed_merge_ignores_pending); the end of a merge of uncommitted segments touches the uncommitted register only, while the end of a merge of committed segments publishes exactly the committed register (C04_end_merge_uncommitted, C04_end_merge_committed_publishes_committed_only); a merge whose merge() failed leaves no trace (C04_failed_merge_no_effect). PARTIAL: the induction over whole histories "
                  "('inserting StartMerge/EndMerge anywhere does not change what a commit publishes') is not closed as one theorem; it is covered by the "
                  "step theorems above plus gated schedules on the implementation. The posting lists of the shuffled case are tied (tie_shuffled) but have "
                  "no list-level theorem. Known finding F0401 (explicit merge of uncommitted segments with different delete cursors): witness theorem "
                  "C04_explicit_uncommitted_merge_refuted, classifier f0401_class. "
                  "Tie: translation validation of every merge the harness provokes (1-6 sources, committed and uncommitted, with/without deletes, many/few "
                  "store blocks, sorted index asc/desc with shuffled mappings): model(source dumps) = output dump and spec(source dumps) = output dump inside Coq; "
                  "schedules with the merge thread gated at its k-th storage operation while delete+commit / rollback / delete_all / adds / GC / a second merge run, a double gate (segment_updater parked inside the commit's atomic_write(meta.json) until the merge thread has reached end_merge), rollback followed by a delete as first operation, POLICY merges of >= 2 uncommitted segments with deletes and re-adds between them, and POLICY merges of the committed segments while deletes are pending (triggered by an added segment or by the end of another merge; searcher before any commit, then rollback or commit) uncommitted segments merged explicitly or by policy followed by a merge of committed segments that saves meta.json without a commit (then rollback or commit), and explicit merges hit by a Write/Flush/Terminate fault on the merged segment's .store (either an error and an intact index, or success and a complete, re-openable index) -- none of these in class F0401: "
                  "published ids = state machine = sequential replay.",
    "level_note": "Trusted: Coq kernel + vm_compute; pin.py; the harness' dump of a SegmentReader through the public API and its recovery of the "
                  "shuffled mapping from the unique id column. Not modelled: the codecs behind the dumps (C07/C08/C09/C15), TermMerger's heap (represented by "
                  "its specification: sorted union of keys, sources in ordinal order), the compressor test of write_storable_fields, the sort comparison "
                  "itself (C17), delete_all_documents in the Coq state machine (C02/F2; checked on the implementation against the replay only), real "
                  "merge-thread timing beyond the gated points. All-deleted sources and the empty result are covered by the theorems and Coq examples but "
                  "are not reachable by explicit merges of committed segments (the commit drops empty segments), so the tie does not exercise them. "
                  "No axioms (Print Assumptions: closed under the global context).",
    "technique": "Coq proof (list induction over sources / mappings / interleavings; state-machine step lemmas) + translation validation of real merges "
                 "and gated schedules evaluated by vm_compute",
    "rule": "merge cases: one group per IndexWriter::merge performed; non-trivial = >= 2 sources, >= 1 deleted document, >= 1 term occurring in live "
            "documents of >= 2 sources (and a genuinely shuffled mapping for sorted-index cases); schedule cases: non-trivial = the merge thread was "
            "blocked inside the merge while the main thread ran its operations; distinct by hash of the Gallina case term",
    "trusted_base": COMMON_TB + ["logical dump of a SegmentReader taken by the harness through the public API (store get/iter, fieldnorm readers, "
                                 "dynamic column handles, term streams + SegmentPostings)",
                                 "gating of merge threads through the VerifDirectory hook (thread name merge_thread_*)"],
    "assumptions": ["a SegmentReader returns what the segment files contain (codecs are the subject of C07/C08/C09/C15)",
                    "the doc-store compressor is the same for all segments of an index",
                    "single producer thread (opstamps increase in call order)"],
}

ENGINE = {"name": "E2-indexing", "path": "coq/Indexing", "serves_properties": ["C04"],
          "kind_free_text": "Gallina models + Coq proofs of the merge mechanism (doc-id mapping, remap of postings/columns/store, k-way merge, "
                            "start_merge/end_merge state machine); tie: harness/src/bin/c04.rs"}
