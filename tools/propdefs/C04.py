from common import COMMON_TB

PROP = {
    "bin": "c04",
    "prop_file": "Properties/C04.v",
    "model_files": ["Indexing/Merge.v", "Indexing/MergeProofs.v", "Indexing/MergeShuffle.v", "Indexing/MergeSched.v", "Indexing/MergeSchedProofs.v"],
    "level": "proof",
    "engine": "E2-indexing",
    "level_text": "Proof: IndexMerger::write is modelled on logical dumps of segments (alive bits, store, field norms, fast values, term dictionary "
                  "with doc/tf/positions). Proved for ANY number of sources and ANY alive sets (induction over sources): the stacked doc-id mapping is a "
                  "bijection between new ids and live old addresses, order preserving, and the old->new table is its inverse (C04_mapping_bijective); "
                  "the mechanism (table fill, per-term remap with the doc_freq filter, gather of norms/columns, store stacking vs alive iteration) "
                  "equals the specification 'live documents of the sources in source order, postings renumbered' as whole records, including "
                  "all-deleted sources and the empty result (C04_write_is_spec, C04_content_preserved, C04_stacking_irrelevant). "
                  "Tie: translation validation of every merge the harness provokes (1-6 sources, with/without deletes, many/few store blocks): "
                  "merge_model(source dumps) = output dump and spec(source dumps) = output dump, both evaluated inside Coq.",
    "level_note": "Trusted: Coq kernel + vm_compute; pin.py; the harness' dump of a SegmentReader through the public API. "
                  "Not modelled: the codecs behind the dumps (C07/C08/C09/C15), TermMerger's heap (represented by its specification: sorted union of keys, "
                  "sources in ordinal order), the compressor test of write_storable_fields, real merge-thread timing. "
                  "No axioms (Print Assumptions: closed under the global context).",
    "technique": "Coq proof (list induction over sources / mapping) + translation validation of real merges evaluated by vm_compute",
    "rule": "one case group per merge performed by IndexWriter::merge; non-trivial = >= 2 sources, >= 1 deleted document, >= 1 term occurring in live "
            "documents of >= 2 sources; distinct by hash of the Gallina case term",
    "trusted_base": COMMON_TB + ["logical dump of a SegmentReader taken by the harness through the public API (store get/iter, fieldnorm readers, "
                                 "dynamic column handles, term streams + SegmentPostings)"],
    "assumptions": ["a SegmentReader returns what the segment files contain (codecs are the subject of C07/C08/C09/C15)",
                    "the doc-store compressor is the same for all segments of an index"],
}

ENGINE = {"name": "E2-indexing", "path": "coq/Indexing", "serves_properties": ["C04"],
          "kind_free_text": "Gallina models + Coq proofs of the merge mechanism (doc-id mapping, remap of postings/columns/store, merge schedule); "
                            "tie: harness/src/bin/c04.rs"}
