from common import COMMON_TB

PROP = {
    "bin": "c17",
    "prop_file": "Properties/C17.v",
    "model_files": ["Indexing/SortIndex.v", "Indexing/SortProofs.v"],
    "level": "proof",
    "engine": "E2-indexing",
    "level_text": "Proof (all value lists / permutations / delete lists / merge inputs, by induction): the doc-id mapping of SegmentWriter::finalize "
                  "(collect_sort_order_from_ops transliterated incl. gap filling and first-value rule; stable sort; None first in Asc / last in Desc via Option<u64> order and cmp.reverse()) "
                  "is a permutation (C17_mapping_is_permutation) held in both directions (C17_mapping_inverse); remap_and_write applies the same permutation to the sort column, all other columns, "
                  "field norms, doc store and the postings of every term, for ANY permutation (C17_permutation, C17_remap_well_formed); the written segment is sorted by (key, order) "
                  "(C17_segment_sorted_fresh); per-doc opstamps are permuted with the documents (C17_opstamps_permuted) so apply_deletes/compute_deleted_bitset computes exactly the permuted alive "
                  "bitset of the unsorted segment for every delete list (C17_deletes_unchanged; Example opstamps_remap_needed shows the remap is necessary). Merges: itertools kmerge_by is modelled "
                  "as the relation 'emit a head no other head is less than' (any heap tie-breaking): every such run over sorted sources is sorted, a permutation of the inputs and keeps each "
                  "source's order (C17_kmerge_sorted/_permutation/_source_order), the executable merge is such a run (C17_kmerge_model_is_run); the stacking shortcut "
                  "is_disjunct_and_sorted_on_sort_property (min/max windows, segment_has_live_nulls, reader pre-sort) is sound (C17_stack_sound) and every merge of sorted sources - either "
                  "branch, numeric keys or merged ordinals - is sorted and holds exactly the live documents (C17_segment_sorted_merge, C17_merge_keeps_live_documents, C17_merge_source_order), "
                  "all outside the class F171 (Multivalued sort column with a live value-less document declared null-free by the pre-fix test `!= Cardinality::Optional`: C17_stack_multivalued_refuted); the shape of that test is re-read from merger.rs (pin SORT_LIVE_NULLS_SCANS_MULTIVALUED) and the model follows it; for the shape pinned now (`== Cardinality::Full`) the class is empty and the merge theorem holds for all sorted sources (C17_segment_sorted_merge_all). The writers' own encodings: field-norm buffers are padded to max_doc before the mapping indexes them, so a document lacking a field gets 0 wherever it was added (C17_fieldnorms_remapped); the term-frequency recorder stores deltas between OLD doc ids and serialize-with-mapping equals the remap of the posting list (C17_tf_recorder_remapped). i64/date/f64 keys: the u64 images preserve the "
                  "order of the values (C17_i64_key_order, C17_f64_key_order, pinned sign bit), so sortedness of keys is sortedness of values (C17_numeric_spec_is_key_order). "
                  "Str/Bytes keys are dictionary ordinals, modelled as the rank of the term among the terms of the segment / of all merged segments: ranks order terms exactly like "
                  "their bytes (C17_ordinal_key_order, C17_bytes_spec_is_key_order). std's stable sort_by is used through its contract only: any stable sorted permutation equals the "
                  "model's insertion sort (C17_stable_sort_unique). Partial: that the real dictionaries (sorted term dictionary, merged_term_ord_mapping) assign exactly these ranks is "
                  "C15's domain and is only exercised here by the tie/spec cases; the merge of the per-document data is modelled at the logical level only (documents looked up through "
                  "the mapping; deeper merge = C04); the tie compares modulo the order inside runs of equal keys, which the property leaves open. "
                  "Tie: the Coq model replays every generated history (finalize, remap, apply_deletes with remapped opstamps, advance_deletes, reader pre-sort, stack/k-way "
                  "merge) and must yield the observed segments; spec: spec_sorted on the field's own values (N / two's-complement Z / IEEE order / byte order) and spec_content (live ids per "
                  "segment = sequential meaning of the history, blind to sorting) evaluated in Coq on every observation, spec_attached (field norms of three text fields and tf of a shared term of a WithFreqs field as functions of the id, evaluated in Coq), the sorted-vs-unsorted reference comparison (the same history replayed on an unsorted index must give, segment by segment and keyed by document id, the same field norm for every normed field and the same (tf, positions) for every term of every indexed field: Basic, WithFreqs and WithFreqsAndPositions), attachment checks (id via store = fast field = postings, tag, "
                  "field norm, tf, sort values) decided on every doc id after every commit and merge.",
    "level_note": "Trusted: Coq kernel + vm_compute; pin.py (SORT_HIGHEST_BIT); the harness (history generator, observation through the public reader API, Gallina printers). "
                  "std sort_by / sort_unstable_by_key and itertools kmerge_by are not modelled line by line: stable insertion sort and the minimal-head merge relation stand for them, tied by "
                  "differential runs. Column statistics (min_value/max_value over all values, 0 for an empty column) and cardinality are modelled from the values. "
                  "No axioms (Print Assumptions: closed under the global context).",
    "technique": "Coq proof (list induction: stable sort, permutations, minimal-head k-way merge relation, min/max windows) + correspondence cases evaluated by vm_compute",
    "rule": "a history is non-trivial when its sort values contain duplicates AND at least one document has no value AND at least one delete_term hits a tag already used in the same "
            "(reordered) transaction; histories cover u64/i64/f64/date/str/bytes x Asc/Desc (+ unsorted control), extremes (0, u64::MAX, i64::MIN/MAX, +-inf, subnormals, empty string/bytes), "
            "1-5 commits, merges of disjoint / overlapping / identical value windows with and without deleted documents, single- and multi-valued documents; plus a boundary batch per key type x direction: fresh segments (and a merge of two) made only of both ends of the type with neighbours ({0,1,2,MAX-2,MAX-1,MAX} u64; {MIN,MIN+1,MIN+2,-1,0,1,MAX-2,MAX-1,MAX} i64 and nanosecond dates; +-inf, +-f64::MAX and neighbours, subnormals; shortest/greatest strings and byte strings) in ascending, descending, both pairwise and shuffled insertion orders, tied against the model mapping whose key is Option<u64> (all values distinguished); plus a directed batch per key type x direction for the stacking decision: 2-4 segments with disjoint or touching value windows committed in random order, one of them (lowest / middle / highest window) holding 1-3 value-less documents (alive, deleted or mixed) and fewer / as many / more deleted documents with values (deleted inside the transaction or by the next one), optional deletes in the other segments, optional multi-valued document, then a merge of all segments; distinct by hash of the Gallina case term",
    "trusted_base": COMMON_TB + ["std::slice::sort_by (stable) is represented by a stable insertion sort, itertools::kmerge_by by the relation kmerge_run (any minimal-head merge); "
                                 "both tied by differential runs only",
                                 "dictionary ordinals of Str/Bytes columns are modelled as ranks in byte order (C15's domain)"],
    "assumptions": ["one indexing thread per history (one segment per commit); merges are issued between commits (no uncommitted operations in flight)",
                    "f64 sort values are not NaN; -0.0 is not generated (IEEE-equal to +0.0, their mutual order is not part of the property)",
                    "date values lie on the field's precision grid (seconds)"],
}

ENGINE = {"name": "E2-indexing", "path": "coq/Indexing", "serves_properties": ["C17"],
          "kind_free_text": "Gallina models + Coq proofs of the indexing state machine (index sorting: SortIndex.v/SortProofs.v); tie: harness/src/bin/c17.rs"}
