from common import COMMON_TB

PROP = {
    "bin": "c14",
    "prop_file": "Properties/C14.v",
    "model_files": ["Agg/Intermediate.v", "Agg/Metrics.v", "Agg/Buckets.v", "Agg/Tree.v", "Agg/TreeProofs.v", "Agg/Ext.v"],
    "level": "proof",
    "engine": "E7-aggregation",
    "level_text": "Proof: intermediate results are modelled as one tree type (accumulator + canonical key->child map per node, the common shape of "
                  "IntermediateAggregationResults / bucket maps / bucket entries / IntermediateStats) with one merge; proved for trees of ANY nesting: merge is "
                  "associative, commutative, has the empty result as neutral element and preserves canonical form (C14_merge_monoid); the segment collector is a "
                  "monoid homomorphism from document lists (C14_collect_is_homomorphism); hence for every request tree (count, sum, min, max, avg, stats; range with open "
                  "ends; histogram with interval / offset / min_doc_count / hard_bounds / extended_bounds / gap filling; terms with size / order / min_doc_count / missing; "
                  "filter; arbitrarily nested sub-aggregations, multi-valued and missing fields), every partition of the documents, every permutation and every re-grouping "
                  "(fold along any binary tree, empty results anywhere) of the parts give the same intermediate and final result (C14_partition_independent), and that result "
                  "equals the textbook evaluation `direct` (group the documents by bucket, count, recurse) over all documents -- exact for bucket keys, doc counts, "
                  "count/sum/min/max over Z and avg over Q (C14_equals_direct, C14_collector_equals_direct, C14_finalize_collect_is_direct, C14_direct_order_independent); "
                  "the bucket-limit guard yields the error or the complete direct result on every merge path, never a shortened one (C14_limits_error_not_truncate); "
                  "range positions are the textbook [from,to) buckets (C14_range_bucket_is_interval), min/max/sum/count accumulators are exact. The bucket position of "
                  "histograms is a parameter of every theorem (the f64 formula of the code is not idealised). "
                  "Partial: terms are proved for segments that keep all their terms (segment_size >= distinct terms; the per-segment cut is not modelled, the harness "
                  "requests a large segment_size or stays below the default); with a per-segment cut only the relation `match_partial` is CHECKED on the implementation "
                  "(returned counts are lower bounds short by at most doc_count_error_upper_bound, returned counts + sum_other_doc_count = all term occurrences), not proved; ties among equal sort values of terms buckets are resolved by key in the model while the code "
                  "uses an unstable sort -- the spec relation `match_res` accepts any correct top-`size` selection; values are integers (f64 sums exact); date_histogram, "
                  "composite, percentiles, cardinality, extended_stats, top_hits and the memory limit are not modelled. "
                  "Outside the modelled language the harness decides directed scenarios against oracles computed on the implementation side and against each other "
                  "(1 segment / 2-5 segments / column-carrying documents apart / distributed merge orders with empty results at any position): metrics with `missing`, range and "
                  "cardinality over a dynamic JSON path, composite (terms and date_histogram fixed_interval sources, instants before 1970), terms(min_doc_count 0) > composite, "
                  "histogram > top_hits over segments with several sub-aggregation flushes; failures are classified by coq/Agg/Ext.v: known findings F142-F146 "
                  "(C14_truncating_division_wrong_iff characterises F144 exactly; the other classes have computed witnesses). "
                  "Directed streams also cover batches of exactly one document (one-document segments, singleton buckets, 64k+1 documents) over multi-valued metric fields, "
                  "and an index without segments / `default()` as accumulator of every merge shape. "
                  "Known finding F141 (implementation, not model): sub-aggregations below a range/histogram bucket that receives a document with >= 2 values depend on the "
                  "segment layout (witness theorem C14_duplicate_doc_push_refuted, replayed on the implementation every run). "
                  "Tie/spec: AggregationCollector JSON of every generated (corpus, request, query) vs `direct` evaluated in Coq (spec) and vs the model's "
                  "collect/merge_fruits/finalize on a multi-segment partition (tie); 1-6 segment partitions; DistributedAggregationCollector fruits of separately searched "
                  "indexes merged in permuted and regrouped orders and through postcard round trips must reproduce the single-segment JSON or be accepted by `match_res`; "
                  "bucket limits at count-1 / count / count+1 must give error / full result / full result; "
                  "terms ordered by _key with size 1-3 and the default segment_size over > segment_size distinct terms per segment (top-level on i64 / u64 >= 8 000 000 columns = hash-map "
                  "storage, and nested under range / histogram / terms parents) are compared EXACTLY with `direct` (for key order the per-segment cut loses nothing); "
                  "fractional histograms (interval/offset 0.1, 0.3, 2.5+0.7, ... on fractional f64 values; shapes terms>histogram leaf over full columns = fused collector, "
                  "histogram, range>histogram): every non-empty bucket key and count must equal the documented formula floor((v-offset)/interval)*interval+offset evaluated "
                  "independently in f64, and 1 segment / 2-5 segments / distributed merge orders must give identical JSON (decided on the implementation side).",
    "level_note": "Trusted: Coq kernel + vm_compute; harness (corpus/request generators, JSON -> observation printer, the Rust mirror of the F141 classifier used only for "
                  "routing: Coq re-evaluates the class on every reported case); serde_json/postcard round trips checked on the implementation only. "
                  "The model stores no zero-count range buckets in intermediate results (they are re-created at finalisation); observable results are identical for >= 1 segment. "
                  "Histogram positions in the cases use the exact rational floor, valid because generated values/intervals/offsets are small integers or dyadic fractions "
                  "(f64 floor((v-offset)/interval) is then exact). No axioms (Print Assumptions: closed under the global context).",
    "technique": "Coq proof (structural induction over request trees and tries, sorted-map extensionality, permutation invariance of commutative-monoid folds) "
                 "+ correspondence cases evaluated by vm_compute",
    "rule": "a case = (corpus, request tree, filtering query, partition); non-trivial iff >= 2 matching documents and request depth >= 2 (tie cases additionally >= 2 segments); "
            "distinct by hash of the Gallina case term; bulk partition / merge-order / round-trip comparisons are decided on the implementation side (equal canonical JSON) "
            "and only sent to Coq when they differ from the single-segment JSON",
    "trusted_base": COMMON_TB + [
        "harness-side filtering of the corpus by the query (grp == g) and JSON -> observation conversion",
        "exact rational floor used for histogram positions in the cases (generated parameters keep the f64 computation exact)",
        "sketches (percentiles, cardinality), extended_stats, date_histogram, composite, top_hits: not modelled, not claimed"],
    "assumptions": ["every segment keeps all its terms (segment_size >= number of distinct terms per segment)",
                    "at least one segment is searched (an index without segments returns no range buckets at all)",
                    "Coq-evaluated cases: integer-valued numeric data, histogram interval/offset dyadic or small integers; fractional values/intervals only through the f64 oracle on the implementation side",
                    "terms min_doc_count >= 1; no overlapping ranges"],
    "shard_timeout": 900,
}

ENGINE = {"name": "E7-aggregation", "path": "coq/Agg", "serves_properties": ["C14"],
          "kind_free_text": "Gallina model of intermediate aggregation trees (trie of accumulators), collect/merge/finalize and the direct evaluator; "
                            "tie: harness/src/bin/c14.rs"}
