from common import COMMON_TB

PROP = {
    "bin": "c07",
    "prop_file": "Properties/C07.v",
    "model_files": ["Postings/VInt.v", "Postings/FieldNorm.v", "Postings/Codec.v", "Postings/BP4x.v", "Postings/Positions.v",
                    "Postings/Spec.v", "Postings/Reuse.v", "Postings/Merge.v", "Postings/Grouping.v", "Postings/Cases.v"],
    "level": "proof",
    "engine": "E5-codecs",
    "level_text": "Proof: the posting-list codec (PostingsSerializer/SkipSerializer vs SkipReader/BlockSegmentPostings: 128-document blocks, "
                  "strict delta to the previous block's last document, per-block bit width, VInt tail, skip entries, the JSON 'term without "
                  "frequencies' case) is modelled at byte level and proved to round-trip for posting lists of ANY length (induction over blocks), for "
                  "every record option of the field and of the reader, over an abstract 128-value block codec (Section contract of the external "
                  "bitpacking crate); the chosen bit width is proved least and < 32; last_doc / tf_sum of each skip entry and the position offset "
                  "(sum of earlier term frequencies) are proved; VInt (u32/u64, sorted/unsorted/until-end sequences) round-trips; the field-norm code "
                  "is proved to bracket every n (binary search lemma for any sorted table + facts recomputed on the regenerated 256-entry table), exact "
                  "below 40, monotone, identity on table values; the dictionary order of the specification is proved strict. "
                  "The positions stream round-trips for ANY delta list and every window, and the positions of the k-th document are recovered from the cumulative term frequencies (C07_positions_roundtrip, C07_positions_of_doc); a cursor model of SegmentPostings (SkipReader::seek, in-block search with the 8-ary branchless search proved equal to its specification, advance) is proved to observe exactly the sorted list for every call program, TERMINATED sticky, positions through the cursor included (C07_seek, C07_seek_blocks, C07_seek_positions, C07_block_search; seek above TERMINATED never returns: C07_seek_above_terminated_refuted, outside the DocSet contract). Partial: PositionReader's anchor caching and the TermInfoStore bit layout are not modelled (API-level checks on every term); the cursor model is not yet run as a tie case (seek is checked as a spec predicate on the implementation); recorders/arena and the SIMD layout are outside the model. Tie: model reader (with the BitPacker4x byte layout as an instance of the abstract codec) decodes what the public PostingsSerializer / "
                  "PositionSerializer wrote; VInt and field-norm functions vs the implementation. Spec: the definitional index_spec (distinct terms in byte "
                  "order, docs, tf, positions, doc_freq, total tokens, quantised field norm) computed in Coq from the analyzer's token streams and compared with the "
                  "whole inverted index read back from real segments (all value types, record options, fieldnorms on/off, multi-valued fields), plus "
                  "advance/seek programs vs the list semantics.",
    "level_note": "Trusted: Coq kernel + vm_compute; pin.py; the harness (generators, read-back through SegmentReader::inverted_index, Rust reference of index_spec used "
                  "for the large segments - the Coq index_spec is evaluated on the small ones); the contract of bitpacking::BitPacker4x (unpack w (pack w xs) = xs for "
                  "values < 2^w, compressed size w*128/8) is a Section hypothesis, exercised through the concrete layout instance Postings/BP4x.v in every codec case; "
                  "block-wand pair is an uninterpreted oracle (C06). Not modelled: in-memory recorders / stacker arena (end-to-end effect checked against index_spec), "
                  "the FST, block_search.rs k-ary search (modelled as first index >= target; tied by seek programs crossing block boundaries), TermInfoStore bit layout "
                  "(API-level round trip checked on every term). Known finding F15 (positions() panics on non-text JSON terms of a field with positions) is classified "
                  "in Coq (f15_class) and has the model witness C07_nonfreq_positions_refuted. No axioms (Print Assumptions: closed under the global context).",
    "technique": "Coq proof (induction over blocks / lists, finite-domain facts recomputed on regenerated constants) + correspondence cases evaluated by vm_compute",
    "rule": "cases: VInt values (>= 128 non-trivial), field-norm arguments (> 40), posting lists through the public serializer (length >= 128: at least one bit-packed "
            "block and a skip list; lengths 1,127,128,129,255,256,257,385.., gaps needing 0..31 bits, tf up to u32::MAX), positions streams (>= 128 deltas), small generated "
            "segments evaluated by the Coq index_spec (>= 2 terms and >= 2 documents), seek programs (posting list >= 128); large segments (260..12000 documents, posting "
            "lengths 1..4000 incl. 127/128/129/255/256/257) and every seek program also decided on the Rust side; distinct by hash of the Gallina case term",
    "trusted_base": COMMON_TB + ["contract of the external bitpacking crate (BitPacker4x) as Section hypotheses; concrete byte layout Postings/BP4x.v used only to decode implementation bytes in the cases",
                                 "tantivy's analyzers produce the token streams (analysis belongs to C19); Term::from_field_* produce the expected term bytes of non-text values",
                                 "Rust reference of index_spec in harness c07 for segments too large to ship to Coq"],
    "assumptions": ["doc ids strictly increasing and < TERMINATED, term frequencies >= 1 and < 2^32 (what PostingsWriter hands to the serializer)",
                    "per-term sum of term frequencies < 2^32 for the position-offset theorem (u32 tf_sum)",
                    "seek targets <= TERMINATED (DocSet contract)"],
}

ENGINE = {"name": "E5-codecs", "path": "coq/Postings", "serves_properties": ["C07"],
          "kind_free_text": "Gallina models + Coq proofs of the postings codec, skip list, VInt, positions, field norms, index_spec; tie: harness/src/bin/c07.rs"}
