from common import COMMON_TB

PROP = {
    "bin": "c15",
    "prop_file": "Properties/C15.v",
    "model_files": ["SSTable/Spec.v", "SSTable/Delta.v", "SSTable/Scan.v", "SSTable/Writer.v", "SSTable/WriterProofs.v",
                    "SSTable/Dict.v", "SSTable/DictProofs.v", "SSTable/File.v", "SSTable/Merge.v", "SSTable/Cases.v"],
    "level": "proof",
    "engine": "E5-sstable",
    "level_text": "Proof, for every strictly increasing key list of any length and byte content (empty key, 0x00/0xFF, lengths < 2^64), every block length and any value type: "
                  "vint and (keep,add) headers round-trip and the one packed byte that collides with VINT_MODE (keep 1, add 0; recomputed from the regenerated constants) is never written (C15_front_coding_unambiguous, C15_header_roundtrip, C15_block_roundtrip); "
                  "the transliterated Writer (insert_key with its ordering assertion, flush at block.len() > block_len, previous_key.clear(), separator shortening) never panics on sorted input, cuts the pairs into consecutive blocks with "
                  "last_key(i) <= separator(i) < first_key(i+1) and prefix-sum first ordinals (C15_block_index, C15_separator_between); streaming returns exactly the inserted pairs across flushes (C15_roundtrip); "
                  "decode_up_to_or_next (search in delta space with ok_bytes) is ordinal-or-successor of the sorted map (C15_block_search), and get / term_ord / term_ord_or_next through index + block agree with the sorted map (C15_lookups; the successor past the last key is u64::MAX in the code, len in the map, stated in the theorem); "
                  "Streamer::advance's handling of ge/gt/le/lt/unbounded, empty and inverted bounds is exactly the sub-map of the pairs it is given (C15_ranges); block bodies, u64-monotonic/void value codecs and the u32-framed block section round-trip; "
                  "the k-way merge of sorted inputs emits the strictly sorted union of their keys, each once (C15_merge); the model follows the pinned code shape of the ordering assertion and of file_slice_for_range (flags SST_ORDER_CHECK_*, SST_RANGE_*; C15_code_shapes_known): under the pinned (repaired) shapes, after ANY accepted insert sequence a key <= the last accepted one panics with no exception (C15_rejects_unordered), the block selection never panics and an inverted range streams nothing (C15_ranges_never_panic, C15_inverted_range_empty); these proofs use ORDER_FIXED = true / RANGE_FIXED = true recomputed from the source, so reverting either fix breaks them while the spec cases report the failing input. The old shapes (model parameter false) keep their theorems: C15_rejects_unordered_old_shape (everything but class F11), witnesses C15_rejects_unordered_refuted (F11) and C15_inverted_range_refuted (F151). "
                  "_partial (modelled, executed against the implementation on every run, but without a theorem): which blocks file_slice_for_range selects (incl. limit) beyond never panicking; ord_to_term / the two-level binary search over first ordinals; prefix_range's upper bound; "
                  "automaton-pruned block iteration; the merged VALUES and the old->new ordinal maps of the k-way merge (its key sequence is proved to be the strictly sorted union: C15_merge); the FST termdict and columnar dictionaries are checked at the spec layer only.",
    "level_note": "Trusted: Coq kernel + vm_compute; pin.py; the harness. tantivy-fst (block index: 'first separator >= key'), zstd (decompression oracle table taken from the real BlockReader), std BinaryHeap (merge = minimum over heads), "
                  "levenshtein/regex automata (acceptance oracle = the real automaton run over each key) are represented by their contracts. The bit-packed BlockAddrStore layout is not modelled (block addresses are a list). "
                  "vint_de is the right-nested-sum form of the shift/or loop. No axioms (Print Assumptions: closed under the global context).",
    "technique": "Coq proof (list induction over key sequences, ultrametric lemma on common-prefix lengths, writer-state invariant over all insert histories, finite table re-checked by vm_compute on regenerated constants) + correspondence cases evaluated by vm_compute",
    "rule": "one case = one (dictionary, operation) pair; dictionaries: empty, single key, empty key, shared prefixes with keep/add in 13..18 and 125..131, 0x00/0xFF runs, 2-6 kB keys (zstd blocks), 0..400 (thorough 1500) keys, "
            "block_len in {0,1,2..200,2040..2059,4000,default} so that 1..300 blocks occur (crossing the 128-entry index stores); operations: decode of the implementation's bytes by the model, get/term_ord/term_ord_or_next/ord_to_term/term_info_from_ord/"
            "sorted_ords_to_term_cb on every key and mutated neighbours, ranges with all bound kinds (about 12% inverted, 10% empty) and limits, prefix ranges, automaton search (prefix, contains, Levenshtein 0..2 with/without transpositions, regex), "
            "k-way merges (sstable heap merge, termdict TermMerger ordinal maps, columnar merge), malformed insert streams; non-trivial = dictionary with >= 2 keys (merges: >= 2 inputs); distinct by hash of the Gallina term",
    "trusted_base": COMMON_TB + ["tantivy-fst, zstd, std::collections::BinaryHeap, levenshtein_automata, regex: not modelled, represented by contracts / oracle tables produced by the real components on every run",
                                 "BlockAddrStore bit-packing (index/v3.rs) not modelled: block addresses are a list, only the binary search over first ordinals is transliterated"],
    "assumptions": ["key lengths and value counts fit in u64 (usize)", "u64-monotonic values are inserted in non-decreasing order (the documented precondition of that value type)",
                    "a block of 4 GiB or more (block_len as u32 cast in flush_block) is out of scope"],
}

ENGINE = {"name": "E5-sstable", "path": "coq/SSTable", "serves_properties": ["C15"],
          "kind_free_text": "Gallina models + Coq proofs of the sstable front coding, writer, block index, reader, streamer and k-way merge; tie: harness/src/bin/c15.rs"}
