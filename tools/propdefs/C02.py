from common import COMMON_TB

PROP = {
    "bin": "c02",
    "prop_file": "Properties/C02.v",
    "model_files": ["Indexing/Replay.v", "Indexing/Opstamp.v", "Indexing/DeleteQueue.v", "Indexing/Writer.v", "Indexing/WriterObs.v", "Indexing/WriterProofs.v", "Indexing/WriterOpstamps.v"],
    "level": "proof",
    "engine": "E2-indexing",
    "level_text": "Proof: the writer mechanism (stamper, delete queue with cursors, channel + N indexing workers with per-document opstamps, "
                  "apply_deletes with the test doc_opstamp < delete_opstamp, advance_deletes on whole segments incl. both early returns, uncommitted/committed registers, "
                  "prepare_commit / schedule_commit / save_metas, rollback / abort / drop + re-open as IndexWriter::new from meta.json, run() batches with contiguous stamps, "
                  "delete_all_documents incl. the stamper revert, consider_merge_options' stamp) is transliterated into Gallina with an explicit schedule oracle, and refined to the "
                  "10-line sequential replay: for EVERY history outside the F2 class, EVERY schedule and any number of workers, the published documents are a permutation (multiset, all "
                  "fields) of committed (replay h), each exactly once (C02_commit_is_replay, C02_exactly_once, C02_schedule_independent, C02_delete_only_earlier, C02_rollback_restores, "
                  "C02_opstamps, C02_commit_opstamp_reported for f1 = true). The schedule oracle includes EStaleSave m: a task of a killed updater reaching save_metas with any stale view m, which the `if self.is_alive()` guard (pinned) turns into a no-op. compute_deleted_bitset is modelled with the fixed comparison `opstamp >= target -> break` (F50/F021; pinned), which the proof needs together with the invariant that an opstamp is handed out once. Known findings are stated as refuted witnesses: F1 (commit_opstamp() never follows a commit) and F2 (delete_all_documents reverts the stamper to a stale "
                  "opstamp and ignores the pipeline). Partial: concurrent producers (single producer only); merges are exercised by the harness (spec cases under LogMergePolicy and explicit "
                  "merges) but merge start/end are not events of the proved model; index sorting is C17's.",
    "level_note": "Trusted: Coq kernel + vm_compute; pin.py (flag WRITER_COMMIT_STORES_OPSTAMP read from the source); the harness. Segment-updater tasks are atomic in the model (one thread, callers wait); "
                  "thread scheduling is an oracle (takes, cuts, cursor() positions); the in-memory alive bitset and the delete file of an entry are one effective bitset; documents are (id, tag, val) with "
                  "body a function of the id; delete targets are tag terms and id ranges. No axioms (Print Assumptions: closed under the global context).",
    "technique": "Coq proof (simulation invariant over the op list: opstamps strictly increasing, cursor invariants, effective-content multiset) + correspondence cases evaluated by vm_compute",
    "rule": "cases: histories (<= 35 ops quick, <= 58 thorough) of add / delete_term / delete_query / run / delete_all / commit(+payload via prepare_commit) / rollback / abort / drop+reopen / wait_merging_threads, "
            "1..8 threads, NoMergePolicy / LogMergePolicy(min 2 segments) + explicit merges, searchers loaded WITHOUT commit after merges and after the pattern restore; delete; merge; plus two-writer-generation schedules (a merge of committed segments parked through a VerifDirectory hook, deletes committed meanwhile, the accepted end_merge task parked on the updater thread at its .del file, writer 1 dropped / rolled back, writer 2 commits, the old task released, fresh searcher); plus histories of bulky documents (900..2200 unique tokens each) whose uncommitted work overflows the 15 MB budget 1.4..2.6 times per thread and transaction (single adds, run() batches, deletes in between), compared with the model under the schedule inferred from the observed segment sizes and opstamps; non-trivial = at least one delete matching documents on both sides of a commit; distinct by hash of the Gallina term",
    "trusted_base": COMMON_TB + ["real thread interleavings are represented by the schedule oracle of the model (proved for all oracles); the harness compares schedule-independent observations when N > 1",
                                 "memory-budget cuts are oracle events in the model (the arena arithmetic is not modelled); the harness reaches them with bulky documents and infers the cut positions from the observed segments"],
    "assumptions": ["single producer thread (IndexWriter calls are issued sequentially)", "fewer than 2^64 operations (opstamps do not wrap)",
                    "dropping a writer discards its uncommitted operations (modelled as a rollback)"],
    "harness_timeout": 1500,
}

ENGINE = {"name": "E2-indexing", "path": "coq/Indexing", "serves_properties": ["C02"],
          "kind_free_text": "Gallina model of the index writer state machine + refinement proof to the sequential replay; tie: harness/src/bin/c02.rs"}
