from common import COMMON_TB

PROP = {
    "bin": "c05",
    "prop_file": "Properties/C05.v",
    "model_files": ["Storage/Crash.v", "Storage/CrashProofs.v", "Storage/ReaderGC.v", "Storage/ReaderGCProofs.v", "Storage/ReloadStore.v", "Storage/ReloadStoreProofs.v", "Storage/Flock.v", "Storage/FlockProofs.v", "Storage/UpdaterLife.v", "Storage/UpdaterLifeProofs.v"],
    "level": "proof",
    "engine": "E1-storage",
    "level_text": "Proof: a small-step model of reader reloads (lock, read meta.json, open files, unlock), meta publication and garbage collection (lock section, then "
                  "deletes), with a boolean discipline over traces. C05_reload_opens_succeed proves for every trace of any length, any number of readers and any "
                  "interleaving (pre-emption between reading meta.json and each open included) that every open finds its file; C05_reload_sees_one_commit that a reload "
                  "opens only files of the single generation it read; C05_monotone that generations read by one reader never decrease. Tie: 2-3 reader threads (one on "
                  "a second Index instance of the same directory) reload continuously, slowed down inside their lock section, while a real writer commits, merges, "
                  "collects, rolls back and restarts; the VerifDirectory log is mapped to the model's events and checked by the proved discipline inside Coq. Spec layer "
                  "on the implementation: every reload's document set equals one commit's, the sequence never moves back, no open fails, and every held Searcher gives the "
                  "same answer at the end of the history as when it was taken. One reader shared by several threads (ReloadStore.v): reload() = load under META_LOCK, then store; with "
                  "reload() serialized (RELOAD_SERIALIZED regenerated from the source) C05_shared_reader_never_moves_back proves for EVERY interleaving of commits, reloads pre-empted "
                  "between load and store, and searcher() calls that what the reader hands out never moves back; the unserialized variant is refuted by a witness (F051, fixed in /repo). "
                  "Tie: the harness drives real threads through generated schedules (a reloading thread is stopped right after it released META_LOCK) and the observed generations are "
                  "compared with the model inside Coq. Partial: snapshot immutability rests on files being write-once and handles surviving "
                  "unlink (checked on the implementation, and by the discipline's 'names never reused'); ReloadPolicy::OnCommitWithDelay watcher timing is not covered.",
    "level_note": "Trusted: as C01; thread names identify the reader threads in the log; real interleavings are those the scheduler and the injected delays produce "
                  "(the theorem covers all interleavings of the model). No axioms.",
    "technique": "Coq invariant proofs over interleaving models of reload / publish / GC and of load-then-store reloads on a shared reader + real multi-threaded traces and controlled schedules compared in Coq",
    "rule": "histories of 8-40 writer operations with 2-3 concurrent reader threads; non-trivial = >= 2 commits and >= 4 reloads; shared-reader schedules of 4-12 events {publish, begin reload (pre-empted or not), resume, look} with up to 6 reloading threads",
    "trusted_base": COMMON_TB + ["mapping of log entries to reader/GC/writer events by thread name and lock-file operations"],
    "assumptions": ["an open FileSlice keeps its bytes after the file is unlinked (RamDirectory/VerifDirectory by construction, POSIX for mmap)"],
}

ENGINE = {"name": "E1-storage", "path": "coq/Storage", "serves_properties": ["C05"],
          "kind_free_text": "persistence model + trace monitors proved sound; lock lifecycle machine; GC bookkeeping; reload/GC interleaving model; tie: VerifDirectory traces, crash images, lifecycles, fault injection, reader threads"}
