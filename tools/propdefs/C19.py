from common import COMMON_TB

PROP = {
    "bin": "c19",
    "prop_file": "Properties/C19.v",
    "model_files": ["Text/Utf8.v", "Text/Tokenizer.v", "Text/NGram.v", "Text/Filters.v", "Text/Snippet.v", "Text/Analyzer.v", "Text/Check.v"],
    "level": "proof",
    "engine": "E6-text",
    "level_text": "Proof: a text is the list of its code points, byte offsets are prefix sums of UTF-8 widths, and a character boundary is a prefix sum "
                  "(proved equal to str::is_char_boundary on the encoded bytes; a code-point slice is proved to be the byte slice). For every text (list induction) and every "
                  "oracle for Unicode classes / case mapping / folding / stemming / dictionary / regex matches: every token of every built-in tokenizer (simple, whitespace, raw, "
                  "n-gram, regex, facet) after every filter chain has from <= to <= |text| on boundaries, positions and offset_from never decrease, filters never change offsets or "
                  "positions, and a token whose text no filter rewrote equals its slice (facet tokenizer excepted: F22). N-grams are exactly the code-point n-grams for every "
                  "(min, max, prefix_only); the first-byte width table (regenerated) is proved to give the UTF-8 width. Snippets: collapse_overlapped_ranges is proved sorted, "
                  "disjoint, coverage-preserving and end-point-preserving for all inputs; SnippetGenerator::snippet is proved panic-free for every analyzer without the compound "
                  "splitter, the fragment is a slice on boundaries, every raw highlight is a token whose lower-cased text is a query term, fragment length <= max_num_chars unless "
                  "the fragment is one over-long token (F9, witness proved); for every analyzer the collapsed highlights are sorted, disjoint, inside the fragment and on its boundaries and to_html does not panic "
                  "(model follows the repaired try_add_token, shape pinned: F21 fixed, regression witness kept); the raw highlighted() ranges are proved sorted and disjoint for "
                  "non-overlapping analyzers (overlapping ones: F10, witness proved); "
                  "to_html is proved to be the fragment cut into escaped pieces with tags only around highlights, no markup character survives escaping, and reading the HTML back "
                  "returns the fragment. Partial: the ring-buffer n-gram iterator is tied to the specification by differential runs only (not yet by proof); the split-compound "
                  "filter is proved offset-preserving but its panic-freedom needs a UTF-8 dictionary (F23, API misuse). "
                  "Tie: model analyzers vs TextAnalyzer token by token with shipped oracle tables; snippet/collapse/to_html models vs SnippetGenerator::create/new; "
                  "spec predicates of the theorems evaluated on every implementation output (Coq for samples, Rust for bulk).",
    "level_note": "Trusted: Coq kernel + vm_compute; pin.py; the harness (generators, oracle tables computed with Rust std / the implementation's own filters on single tokens, "
                  "a leftmost-longest matcher standing in for Aho-Corasick); Unicode tables, regex, stemmers, htmlescape are oracles or re-modelled (encode_minimal's five entities). "
                  "Stemmer and dictionary oracles are per filter instance (two splitters / stemmers in one chain have their own tables, inputs collected by an identity probe filter); the facet tokenizer under a rewriting chain is modelled as coded (it appends each path segment to the text the filters left in its token: chain_text / facet_loop). Scores are abstract in the theorems and exact dyadic integers in the tie. No axioms (Print Assumptions: closed under the global context).",
    "technique": "Coq proof (list induction over code points, loop invariants of search_fragments / merge_overlapping_ranges / to_html) + correspondence cases evaluated by vm_compute",
    "rule": "token cases: (text, tokenizer, filter chain <= 3) non-trivial when tokens are emitted and the text is multi-byte or a filter is present; snippet cases: "
            "(text, analyzer, term/boolean query, max_num_chars in 0..|text|+1) non-trivial when something is highlighted; distinct by hash of the Gallina case term",
    "trusted_base": COMMON_TB + ["Unicode class / case-mapping / folding / stemmer / regex / dictionary oracles: values shipped by the harness from Rust std and the implementation itself",
                                 "htmlescape::encode_minimal re-modelled (five entities) and compared on every to_html case"],
    "assumptions": ["texts shorter than 2^64 bytes (usize positions do not wrap)", "oracle contracts: regex matches lie on character boundaries (regex crate on &str); "
                    "a compound-splitter dictionary of UTF-8 strings"],
}

ENGINE = {"name": "E6-text", "path": "coq/Text", "serves_properties": ["C19"],
          "kind_free_text": "Gallina models + Coq proofs of UTF-8 offsets, tokenizers, filters, snippets; tie: harness/src/bin/c19.rs"}
