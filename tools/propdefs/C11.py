from common import COMMON_TB

PROP = {
    "bin": "c11",
    "prop_file": "Properties/C11.v",
    "model_files": ["Storage/Crash.v", "Storage/CrashProofs.v", "Storage/WriteOnce.v", "Storage/Faults.v", "Storage/Pipeline.v", "Storage/PipelineProofs.v"],
    "level": "proof",
    "engine": "E1-storage",
    "harness_timeout": 2700,
    "level_text": "Proof (partial): the persistence model and commit discipline of C01 applied to runs with injected I/O errors. C11_ok_commit_is_complete: at the "
                  "instant a commit returns Ok, every crash outcome recovers exactly the generation it published, complete. C11_last_commit_intact: at every point of a "
                  "faulty run whatever is recoverable is at least the last successful commit, complete, none of its files deleted. Tie: for every storage-operation "
                  "index k of generated workloads (all k in thorough, ~75 per workload in quick) an error is injected once or permanently from k on, on whichever "
                  "thread issues the operation (caller, indexing worker, doc-store compressor, segment updater, merge thread); the trace of the successful operations "
                  "is checked by the proved monitor inside Coq. Spec layer on the implementation: no panic, no hang (60 s watchdog), an error on the caller's path "
                  "makes an API call return Err, the storage afterwards opens, validates its checksums, contains exactly the last successful commit (or a commit "
                  "that failed after publishing), and a new writer commits and garbage-collects. Partial: 'error reported' and 'neither aborts nor hangs' are "
                  "observed on the implementation, not proved (thread joins, channels and rayon shutdown are runtime behaviour outside the model).",
    "level_note": "Trusted: as C01, plus VerifDirectory's fault semantics (a failed write may have appended a prefix; other failed operations have no effect). "
                  "Faults are single-position (once / permanent from k); two independent faults per run are not generated. No axioms.",
    "technique": "Coq trace-monitor soundness (shared with C01) + fault injection at every storage operation index, monitor evaluated in Coq",
    "rule": "workloads of 5-14 operations; fault positions = every storage operation index (thorough) or ~75 spread positions (quick) x {once, permanent} x "
            "{drop+reopen, rollback} recovery; after a transient fault the batch whose commit failed is issued again once (unless the failed commit turns out to be published) and every call "
            "after the recovery must succeed (known class F111: the retried commit collides with a delete file the failed attempt left behind); the removal of a lock file is never "
            "failed (it happens in a Drop; a lock file left behind is the documented stale-lock situation); non-trivial = the fault fired and at least one commit had succeeded",
    "trusted_base": COMMON_TB + ["persistence model of coq/Storage/Crash.v", "VerifDirectory fault injection semantics"],
    "assumptions": ["a failed storage operation has no durable effect other than a possibly appended prefix", "single fault position per run"],
}

ENGINE = {"name": "E1-storage", "path": "coq/Storage", "serves_properties": ["C11"],
          "kind_free_text": "persistence model + trace monitors proved sound; lock lifecycle machine; tie: VerifDirectory traces, crash images, lifecycles, fault injection"}
