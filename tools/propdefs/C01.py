from common import COMMON_TB

PROP = {
    "bin": "c01",
    "prop_file": "Properties/C01.v",
    "model_files": ["Storage/Crash.v", "Storage/CrashProofs.v", "Storage/Proto.v", "Storage/ProtoProofs.v",
                    "Storage/WriteOnce.v", "Storage/WriteOnceProofs.v", "Storage/WriterStack.v", "Storage/WriterStackProofs.v"],
    "level": "proof",
    "engine": "E1-storage",
    "harness_timeout": 2700,
    "level_text": "Proof: a small-step persistence model (file names durable at the next directory sync, data complete at terminate, atomic replace = "
                  "pending rename, a crash keeps ANY subsequence of pending directory operations) and a boolean commit discipline over storage traces "
                  "(D1 publish only dir-synced terminated files, D2 commit returns only after the meta.json rename is durable, D3 never delete a file a "
                  "recoverable generation references). C01_monitor_sound proves, for every accepted trace of any length, every crash point and every crash "
                  "outcome, that the recovered generation is >= the last returned commit, was started, and has all its files present and complete. "
                  "Tie: every storage trace the real IndexWriter produces on a VerifDirectory (1-3 indexing threads, merges by policy and explicit, rollbacks, "
                  "GC, writer restarts) is fed through the monitor inside Coq. Spec layer on the implementation: crash images materialised at sampled crash "
                  "points x outcomes are opened by the real Index::open, validate_checksum'd, fully read (ids must be those of an allowed commit), then a new "
                  "writer commits and garbage-collects. C01_all_histories: a protocol model of the writer (segment finalisation by workers, advance_deletes, save_metas = "
                  "sync / atomic write / sync with both syncs pinned from the source, schedule_commit, merges whose file creations interleave anywhere and end_merge on "
                  "the updater thread, garbage collection against the living set, rollback, reopen; explicit scheduler oracle) is proved to emit only accepted traces for "
                  "EVERY operation list and schedule, hence C01_all_histories_crash_safe; four unsafe protocol variants are refuted by witnesses. The two assumptions the "
                  "persistence model makes about the Directory are themselves discharged: (1) WriteOnce.v - stream files obey create / append* / terminate / nothing afterwards "
                  "(C01_terminated_data_is_durable, C01_terminated_data_is_final; tie: the write-level VerifDirectory log of every run goes through wmonitor in Coq, and crash "
                  "images lose whatever was appended after the last terminate); (2) WriterStack.v - the ORDER of the durability primitives of the real directory "
                  "(FooterProxy / BufWriter / SafeFileWriter terminate, MmapDirectory::atomic_write) is regenerated from the source by tools/pin.py and proved to make payload+footer "
                  "durable (C01_terminate_makes_everything_durable) and the replace atomic at every crash point, for both fates of the rename and every amount of un-synced data "
                  "(C01_atomic_write_is_atomic, C01_disciplined_replace_is_atomic); the two wrong orders are refuted by witnesses and explored exhaustively on the model by the harness. Restarts: C01_crash_safe_across_restarts proves the guarantee for every state reachable "
                  "through ANY number of crash / recover rounds interleaved with disciplined operation, and C01_recovered_process_crash_safe for a process started on a crash image; tie: the "
                  "storage log of the recovery runs (Index::open, reader, new writer, commit, collection on a materialised image) goes through `monitor_from (from_image ..)` in Coq. "
                  "Partial: that the PROTOCOL model re-establishes its own invariant after a restart is not proved (the recovery runs are observed through the monitor instead); the protocol "
                  "trace is not compared event-by-event with observed traces (observed traces go through the monitor).",
    "level_note": "Trusted: Coq kernel + vm_compute; the VerifDirectory log faithfully records the operations tantivy issues through the Directory trait; the "
                  "persistence model itself (POSIX-like: un-synced directory operations independently lost or kept, fsynced data intact) and that the OS honours "
                  "fsync/rename as modelled; meta.json (de)serialisation (the harness parses the referenced files out of the JSON and cross-checks them against "
                  "SegmentMeta::list_files). No axioms.",
    "technique": "Coq proof of a trace-monitor soundness theorem (invariant over a persistence model) + real traces checked by the monitor in Coq + recovered crash images",
    "rule": "histories of 6-40 operations over {add, delete_term, commit, rollback, merge, reopen, gc, wait_merges} on 1-3 threads; non-trivial = >= 2 commits, "
            ">= 1 delete and >= 1 merge or rollback; crash points near every meta.json write / commit return / file deletion plus random points, outcomes "
            "{none, all, random subsets} of the pending directory operations",
    "trusted_base": COMMON_TB + ["tools/pindefs/storage.py call_order: syntactic extraction of the order of write_all / flush / sync_data / persist / append_footer / terminate calls in four function bodies", "persistence model of coq/Storage/Crash.v (assumed of the OS)", "harness/src/e1.rs CrashSim re-implements that model over bytes"],
    "assumptions": ["the OS honours fsync / rename / directory fsync as modelled", "torn writes inside an fsynced file do not occur"],
}

ENGINE = {"name": "E1-storage", "path": "coq/Storage", "serves_properties": ["C01"],
          "kind_free_text": "persistence model + trace monitors proved sound; tie: VerifDirectory traces and crash images (harness/src/e1.rs)"}
