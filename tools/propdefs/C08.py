from common import COMMON_TB

PROP = {
    "bin": "c08",
    "prop_file": "Properties/C08.v",
    "model_files": ["Columnar/BitPack.v", "Columnar/MonoMap.v", "Columnar/Stats.v", "Columnar/Line.v", "Columnar/Blockwise.v", "Columnar/BlockwiseProofs.v", "Columnar/OptionalIndex.v", "Columnar/OptionalIndexProofs.v", "Columnar/MultiValued.v", "Columnar/MergeIndex.v", "Columnar/IndexTie.v", "Columnar/LegacyV1.v", "Columnar/DictMerge.v", "Columnar/Spec.v", "Columnar/Cases.v"],
    "level": "proof",
    "engine": "E5-codecs",
    "level_text": "Proof (value lists of ANY length, every width allowed by the pinned 56/64 rule, all of u64 incl. 0 and 2^64-1): BitPacker::write/flush lays values out as the "
                  "little-endian bit string and BitUnpacker::get (fast path and <8-byte slow path) extracts exactly the w-bit window, hence get(pack(vals)) = vals; compute_num_bits always "
                  "yields an accepted width; StatsCollector (min, max, Euclid gcd with fuel proved adequate, rows) bounds all values, is attained, and its wire form reproduces max; all three "
                  "column codecs are proved exact: bit-packed (min + gcd*q), linear (Line::train/eval with wrapping arithmetic, >>32, as i32; exact whatever the line), block-wise linear "
                  "(512-row blocks, one bit packer shared across blocks, reader-side offset recomputation); reported min/max/num_vals are proved for each; range lookup on bit-packed columns "
                  "(range transform with the pinned guard `*range.end() < stats.min_value`, then BitUnpacker::get_ids_for_value_range with its u32 narrowing: pinned flags for the saturation of "
                  "the upper bound at u32::MAX and for the empty answer when the lower bound exceeds it) is proved to return exactly the rows holding a value in the range for EVERY range; the proofs "
                  "re-run on the regenerated flags; without the guard the lookup is refuted below the column minimum (F81, fixed in /repo; witness theorem and corpus case kept); "
                  "i64/bool/f64 mappings are proved inverted and strictly monotone (f64 on bit patterns w.r.t. the sign-magnitude key); optional index (rank / rank_if_exists / select mutually "
                  "inverse and equal to the list specification, any strictly increasing row list, any dense/sparse choice, block boundaries), multivalued start offsets (values_for_doc reproduces "
                  "each row in insertion order) and stacked / shuffled merges of column indexes are proved (OptionalIndexProofs.v, MultiValued.v, MergeIndex.v, IndexTie.v). "
                  "Legacy columnar format v1 (multivalued index = one start offset per document; the harness re-encodes every generated table / segment as a v1 file): "
                  "MultiValueIndexV1::select_batch_in_place is proved to map ascending value positions to their documents (pinned `end > pos`), a v1 input of a stacked merge is proved to "
                  "contribute exactly what the same column contributes in the current format, hence the stacked merge with inputs of either format at any position is proved correct for ALL inputs under the "
                  "pinned flags (row offset added: STACK_V1_DOCS_SHIFTED; value-less documents of v1 inputs skipped: STACK_NUM_VALUES_SKIPS_EMPTY, the fix of F82); proofs re-run on the "
                  "regenerated flags; the pre-fix shapes are kept as refuted witnesses over explicit `false` parameters (F82: duplicate start offsets; unshifted doc ids; `end >= pos`). "
                  "Dictionary merge of Str / Bytes columns (TermMerger k-way merge as a trace of (key, kept) steps + TermOrdinalMapping as the walk of each segment's term list along it): for a "
                  "stacked merge of ANY per-segment dictionaries every term ordinal is proved to be remapped to an ordinal designating the same term in the merged dictionary (every document reads the "
                  "same term as before), and along any trace (shuffled merges dropping unused terms included) every registered ordinal is proved to read the same term; tied on merged dictionaries and "
                  "merged ordinals of small stack merges, generators produce near-miss per-segment vocabularies (same number of terms, size, extremes; different middle terms). "
                  "Tied only (cases / list specification evaluated on the implementation's answers, no theorem): byte framing of blocks, metadata, headers and footers (VInt), the merge iterators "
                  "(the merge theorems are about the model; merge_columnar itself is compared with the list specification at the result level only), which terms a shuffled merge keeps (result level), "
                  "compact space for u128 / IP columns (result level only), get_batch_u32s / BitPacker1x batch decoding.",
    "level_note": "Trusted: Coq kernel + vm_compute; pin.py; harness. fastdivide::DividerU64 is a Section variable with contract fdiv d x = x / d. The estimator's codec choice is not modelled "
                  "(every codec is forced in turn and must be exact; only decoded behaviour is compared). VInt framing of column headers/footers is parsed by the harness, not modelled. "
                  "IEEE-754 order of non-NaN doubles = order of the sign-magnitude key: tied by differential runs against Rust's f64 comparison; f64 range lookups are specified in the "
                  "total order of the mapping (-0.0 < +0.0). No axioms (Print Assumptions: closed under the global context).",
    "technique": "Coq proof (N bit arithmetic: shifts as div/mod 2^k, disjoint lor as addition; list induction) + correspondence cases evaluated by vm_compute",
    "rule": "non-trivial: bit-packer cases with >= 2 values and width >= 1; codec / column / optional-index / merge cases with >= 2 rows; every mapping case; distinct by hash of the Gallina case term. Bulk volume (columns up to 200k rows, all types and cardinalities, merges, tantivy segments) is decided on the implementation side against the list-of-lists specification (spec_checked)",
    "trusted_base": COMMON_TB + ["fastdivide::DividerU64::divide modelled by its contract (floor division), Section hypothesis",
                                 "bitpacking::BitPacker1x (SIMD-layout batch decode inside get_batch_u32s) is not modelled: range lookups are tied at the result level only",
                                 "VInt header framing of serialized columns is parsed on the harness side"],
    "assumptions": ["values are u64 (the column API cannot express anything else)", "f64 columns hold no NaN (as in the property statement)"],
}

ENGINE = {"name": "E5-codecs", "path": "coq/Columnar", "serves_properties": ["C08"],
          "kind_free_text": "Gallina models + Coq proofs of the bit packer, column codecs, column indexes, monotonic mappings; tie: harness/src/bin/c08.rs"}
