from common import COMMON_TB

PROP = {
    "bin": "c18",
    "prop_file": "Properties/C18.v",
    "model_files": ["Storage/Locks.v", "Storage/LocksProofs.v"],
    "level": "proof",
    "engine": "E1-storage",
    "level_text": "Proof: a state machine of the writer-lock lifecycle (acquire-then-build in Index::writer_with_options, guard hand-over in rollback, "
                  "guard drop on Drop/wait_merging_threads/failed construction, worker failure) is proved, for lifecycles of any length over any number of "
                  "Index handles, to keep the invariant 'at most one live writer, every live writer owns the guard, lock held iff a writer is alive' and to refine "
                  "the one-line specification 'who is the writer'; corollaries: a second Create fails with LockBusy and changes nothing, the lock is free after "
                  "drop / wait / failed construction, rollback leaves no window. Outside the theorem: F7 (rollback whose writer rebuild fails drops the guard "
                  "while the old writer object survives) - witness theorem C18_mutual_exclusion_refuted, replayed on the real code with an injected read error. "
                  "Tie: generated lifecycles on RamDirectory, MmapDirectory and VerifDirectory, two Index handles, result codes compared with the model and with "
                  "the specification inside Coq; racing Index::writer calls from 2-8 threads must have exactly one winner.",
    "level_note": "Trusted: Coq kernel; the OS flock / create-new semantics (exclusive, non-blocking, released when the handle/guard drops) is assumed, observed "
                  "on Ram/Mmap directories; thread interleavings of concurrent creation are modelled as one atomic acquire step. No axioms.",
    "technique": "Coq invariant + refinement proof over a lock lifecycle state machine; lifecycles replayed on real directories and compared inside Coq",
    "rule": "lifecycles of 3-14 operations {create (valid / invalid budget / 0 threads / failing build), rollback (ok / failing rebuild), drop, "
            "wait_merging_threads, worker failure} over two Index handles; non-trivial = >= 4 ops with a drop and a LockBusy outcome",
    "trusted_base": COMMON_TB + ["OS file-lock semantics"],
    "assumptions": ["cross-process flock semantics of the OS", "creation is one atomic acquire step"],
}

ENGINE = {"name": "E1-storage", "path": "coq/Storage", "serves_properties": ["C18"],
          "kind_free_text": "persistence model + trace monitors proved sound; lock lifecycle machine; tie: VerifDirectory traces, crash images, lifecycles"}
