from common import COMMON_TB

PROP = {
    "bin": "c20",
    "prop_file": "Properties/C20.v",
    "model_files": ["Codec/CRC.v", "Codec/Footer.v"],
    "level": "proof",
    "engine": "E5-codecs",
    "level_text": "Proof: CRC-32 is defined as a bit-serial LFSR and proved (for messages of any length) to change under every error burst of <= 32 bits "
                  "(hence every bit flip and byte substitution); FooterProxy is proved to hash exactly the accepted bytes for every sequence of short writes; "
                  "extract_footer/open_read/validate_checksum are proved to round-trip, to report a file iff its crc differs, and to gate on the version range; "
                  "the first length test of extract_footer (regenerated constant) is proved to exclude the usize underflow. Truncation/extension is partial: "
                  "undetectable exactly when the damaged file ends in a self-consistent footer (F8, witness theorem C20_truncation_refuted). "
                  "Tie: model vs crc32fast, byte-exact file layout under random short writes, and model-vs-implementation outcome on damaged files; "
                  "spec predicates (detected / nothing reported on intact / version gate) evaluated on every implementation output, bit flips exhaustively on small files.",
    "level_note": "Trusted: Coq kernel + vm_compute; pin.py; harness and VerifDirectory; serde_json payload modelled as a fixed template (theorems parametric in the codec); "
                  "crc32fast tied by differential runs only; Index::validate_checksum's file walk is checked on the implementation (spec layer), not modelled. "
                  "No axioms (Print Assumptions: closed under the global context).",
    "technique": "Coq proof (GF(2)-linearity of the CRC LFSR, list induction) + correspondence cases evaluated by vm_compute",
    "rule": "cases: CRC strings (len>=5 non-trivial), FooterProxy write sequences under short writes (>=2 write events), "
            "damaged files (bit flips exhaustive for bodies <= 4 kB, truncation at every length, extensions, version sweep) on generated indexes; "
            "distinct by hash of the Gallina case term",
    "trusted_base": COMMON_TB + ["serde_json payload of the footer modelled as a fixed template with decimal integers (json_payload/json_parse); "
                                 "theorems are parametric in any printer/parser pair with parse (print f) = Some f",
                                 "crc32fast is not modelled: the CRC-32 definition is ours and is compared with crc32fast on every run"],
    "assumptions": ["OS/file system returns the bytes that were written", "damage to the footer itself is outside the property (body damage, truncation, extension, version field are covered)"],
}

ENGINE = {"name": "E5-codecs", "path": "coq/Codec", "serves_properties": ["C20"],
          "kind_free_text": "Gallina models + Coq proofs of CRC-32, footer/FooterProxy; tie: harness/src/bin/c20.rs"}
