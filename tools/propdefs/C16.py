from common import COMMON_TB

PROP = {
    "bin": "c16",
    "prop_file": "Properties/C16.v",
    "model_files": ["Text/BinOpFold.v", "Text/Grammar.v", "Text/Logical.v", "Text/GrammarProofs.v"],
    "level": "proof",
    "engine": "E6-text",
    "level_text": "Proof (model level, all inputs): aggregate_infallible_expressions is transliterated and proved to make AND bind tighter than OR for operator chains of any "
                  "length over any sub-queries (C16_and_binds_tighter), to give + / - / unmarked members the documented meaning in both default modes (C16_occur_semantics, "
                  "C16_single_member), and default-occur resolution preserves meaning (C16_logical_ast_sem); the strict grammar (parse_to_ast and everything below, rewrite_ast, "
                  "set_field / set_default_field) is transliterated as a total fuelled parser parse_ref, and C16_print_parse proves, for every concrete query of the fragment "
                  "{quoted phrases of either quote kind, + / - markers, AND / OR chains, implicit lists, parentheses to any depth} under every layout (whitespace runs of "
                  "space/tab/CR/LF, redundant parentheses), parse_ref (print c) = Ok (norm_top c), including adequacy of the fuel; C16_model_total proves that under the pinned shape of `literal` "
                  "(QG_LITERAL_REJECTS_BARE_EXISTS = 1, regenerated from query_grammar.rs) parse_ref never panics, for every string (C16_strict_total_refuted keeps the witness for the "
                  "old shape, F12, fixed in 7a6b9829a). Partial: (1) panic-freedom and termination of the nom-based Rust parser are TESTED (fuzz stream), not proved - and are "
                  "violated on the unchanged tree: F161 (stack overflow on deep nesting); a panic of the strict entry point (F12, fixed) or a non-returning lenient parse (F162, fixed) is an ordinary violation; (2) lenient = strict is tested "
                  "only, the lenient grammar is not modelled, and it is violated (F13); (3) bare words, field scoping, slop/prefix, ranges, IN sets, exists, boosts, NOT, field groups and typed literals are covered by "
                  "the tie (parse_ref vs parse_query on every generated and fuzzed string) and by the spec cases (norm_top / Count vs the documented meaning evaluated in Coq), "
                  "not by C16_print_parse; typed literals only for text, raw-string and u64 fields. Phrases: C16_phrase_matches_own_text proves that a phrase built with the analyzer's positions matches every document containing its text, for every token filter; the Count layer runs phrases (plain, ~slop: lower/upper bound, prefix) through analyzers that remove words (RemoveLongFilter limit pinned from the sources, a stop-word field) against that positional model; F163 (phrase-prefix scorer, gap before the prefix term) is a known finding. Mixed implicit/explicit operator lists are outside the documented grammar: "
                  "the model reproduces the code, no semantic claim.",
    "level_note": "Trusted: Coq kernel + vm_compute; pin.py (SPECIAL_CHARS / ESCAPE_IN_WORD regenerated from query_grammar.rs); the Rust harness (generators, structural rendering of "
                  "UserInputAst, child-process isolation of inputs that may hang or overflow the stack). char::is_whitespace and nom multispace are small literal tables in "
                  "Grammar.v tied by the fuzz stream. f64 boosts are compared as short decimals. No axioms (Print Assumptions: closed under the global context).",
    "technique": "Coq proof (induction over operator chains / concrete query trees) of a Gallina transliteration of the grammar + correspondence cases evaluated by vm_compute",
    "rule": "cases: concrete queries printed with random layouts (non-trivial: nesting depth >= 2), operator chains (>= 3 members), typed queries counted on a generated corpus, "
            "fuzz strings (>= 3 characters) compared with parse_ref; totality stream counted under spec_cases; distinct by hash of the Gallina case term",
    "trusted_base": COMMON_TB + ["Unicode White_Space and nom multispace as literal tables in Text/Grammar.v (tied by differential runs over random code points)",
                                 "f64 parsing/printing of boosts (Rust std) - boosts compared as decimals of <= 15 digits",
                                 "tantivy's tokenizer, inverted index and collectors for the Count stream (covered by C03/C07)"],
    "assumptions": ["documents and queries of the Count stream use lower-case ASCII vocabulary words (tokenisation is then whitespace splitting)",
                    "the lenient grammar is not modelled: its agreement with the strict grammar is checked on the implementation only"],
    "harness_timeout": 2400,
}

ENGINE = {"name": "E6-text", "path": "coq/Text", "serves_properties": ["C16"],
          "kind_free_text": "Gallina models + Coq proofs of the query grammar (operator fold, strict grammar, logical layer); tie: harness/src/bin/c16.rs"}
