#!/usr/bin/env python3
"""update_design_counts.py <run_all.log> -- refreshes the theorem counts in the table of DESIGN.md §A.2 and regenerates the §A.6 matrix."""
import re, subprocess, sys, os
V = os.path.dirname(os.path.dirname(os.path.abspath(__file__)))
log = open(sys.argv[1]).read()
p = os.path.join(V, "DESIGN.md"); s = open(p).read()
for m in re.finditer(r"^(C\d\d) rc=0 .*? theorems=(\d+)/(\d+)", log, re.M):
    pid, n = m.group(1), m.group(2)
    s, k = re.subn(r"^\| %s \| [0-9+]+ \|" % pid, "| %s | %s |" % (pid, n), s, count=1, flags=re.M)
mat = subprocess.run([sys.executable, os.path.join(V, "tools/catch_matrix.py")], capture_output=True, text=True).stdout.strip()
a = s.index("| seed | file(s) | change | first met the check | now |")
b = re.search(r"^\d+ seeds; caught now: \d+$", s[a:], re.M)
s = s[:a] + mat + s[a + b.end():]
open(p, "w").write(s)
print(mat.splitlines()[-1])
