#!/usr/bin/env python3
"""Regenerates MANIFEST.json from tools/props.py (single source of truth for the checks)."""
import json, os, sys
sys.path.insert(0, os.path.dirname(os.path.abspath(__file__)))
from props import PROPS, ENGINES, HOOK_COMMITS

VERIF = os.path.dirname(os.path.dirname(os.path.abspath(__file__)))
ALL = [json.loads(l)["id"] for l in open(os.path.join(VERIF, "properties.jsonl"))]
baseline = ("cd /repo && (cargo nextest run --workspace --no-fail-fast --test-threads 8 --offline "
            "|| cargo test --workspace --no-fail-fast --offline)")
m = {
    "version": 1,
    "setup_cmd": "./setup.sh",
    "hooks": {"guard": "--cfg tantivy_verif",
              "enable": "rustflags = [\"--cfg\", \"tantivy_verif\"] in /verif/harness/.cargo/config.toml; the harness crate depends on /repo by path, so every check rebuilds /repo's working tree with the hooks on",
              "baseline_off_cmd": baseline, "source_commits": HOOK_COMMITS, "add_only": True},
    "engines": ENGINES,
    "checks": [],
    "notes": "Technique: machine-checked proof in Rocq/Coq 8.16.1 of hand-written executable Gallina models, tied to /repo on every run by "
             "(1) constants/tables regenerated from the Rust sources (tools/pin.py -> coq/Generated/Constants.v) and (2) a correspondence harness "
             "(harness/, rebuilt from /repo's working tree) whose generated cases carry the implementation's observations and are evaluated against the "
             "model and the spec predicates inside Coq with vm_compute. Known findings: known_findings.json. See DESIGN.md.",
    "not_applicable": [],
}
for pid in ALL:
    if pid in PROPS and PROPS[pid].get("claimed", True):
        c = PROPS[pid]
        m["checks"].append({
            "property_id": pid,
            "quick_cmd": "./check %s --tier quick" % pid,
            "thorough_cmd": "./check %s --tier thorough" % pid,
            "evidence_file": "/verif/evidence/%s.json" % pid,
            "replay_cmd_template": "./check %s --replay {path}" % pid,
            "engine": c.get("engine", ""),
            "level_claimed": {"category": c.get("level", "proof"), "text": c["level_text"], "design_ref": c.get("design_ref", "DESIGN.md §" + pid)},
            "level_note": c["level_note"],
            "technique": c.get("technique", "Coq proof of a Gallina model + checked correspondence (vm_compute inside Coq)"),
        })
    else:
        m["not_applicable"].append({"property_id": pid, "reason": (PROPS.get(pid, {}).get("unclaimed_reason") or
                                    "not claimed yet: the Rocq model, theorems and correspondence harness for this property are not built in the committed tree (technique applies; see DESIGN.md §%s)" % pid)})
json.dump(m, open(os.path.join(VERIF, "MANIFEST.json"), "w"), indent=1)
print("checks:", [c["property_id"] for c in m["checks"]], "unclaimed:", len(m["not_applicable"]))
