"""Per-property configuration of ./check: one module per property in tools/propdefs/Cxx.py
defining PROP (dict) and optionally ENGINE (dict) and HOOK_COMMITS (list)."""
import glob, importlib, os, sys

_d = os.path.join(os.path.dirname(os.path.abspath(__file__)), "propdefs")
sys.path.insert(0, _d)
PROPS, ENGINES, HOOK_COMMITS = {}, {}, []
for _f in sorted(glob.glob(os.path.join(_d, "C[0-9][0-9].py"))):
    _name = os.path.basename(_f)[:-3]
    _m = importlib.import_module(_name)
    PROPS[_name] = _m.PROP
    _e = getattr(_m, "ENGINE", None)
    if _e:
        if _e["name"] in ENGINES:
            ENGINES[_e["name"]]["serves_properties"] = sorted(set(ENGINES[_e["name"]]["serves_properties"]) | set(_e["serves_properties"]))
        else:
            ENGINES[_e["name"]] = dict(_e)
    HOOK_COMMITS += getattr(_m, "HOOK_COMMITS", [])
ENGINES = list(ENGINES.values())
