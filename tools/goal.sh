#!/bin/bash
# usage: goal.sh <file.v> <line>   -- prints the goal state just before <line> (1-based), cwd = /verif/coq
f=$1; n=$2
tmp=$(mktemp /tmp/goalXXXX.v)
head -n $((n-1)) "$f" > $tmp
echo "Show." >> $tmp
cd /verif/coq && timeout 120 coqc -Q . TV $tmp 2>&1 | tail -${3:-30}
rm -f $tmp ${tmp%.v}.vo ${tmp%.v}.glob ${tmp%.v}.vok ${tmp%.v}.vos
