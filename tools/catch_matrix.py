#!/usr/bin/env python3
"""catch_matrix.py -- prints the markdown catch matrix of DESIGN.md §A.6 from seeded/*/meta.json, the sweep logs in
seeded/_sweeps (first time each seed met the checks) and seeded/*/result.json (latest run of tools/seedtest.py)."""
import glob, json, os, re
V = os.path.dirname(os.path.dirname(os.path.abspath(__file__)))
first = {}
t = open(os.path.join(V, "seeded/_sweeps/sweep1.txt")).read()
for line in t.splitlines():
    if line.startswith("detected:"):
        for s in line.split()[1:]:
            first.setdefault(re.sub(r"\(.*", "", s), "caught" + (" (no failing input)" if "no-failing" in s else ""))
    if line.startswith("missed:"):
        for s in re.sub(r"\([^)]*\)", "", line).split()[1:]:
            first.setdefault(s, "missed")
for fn in sorted(glob.glob(os.path.join(V, "seeded/_sweeps/sweep[2-9]*.log"))):
    for line in open(fn):
        m = re.match(r"(C\d\d-m\d) C\d\d: detected=(True|False) failing_input=(True|False)", line)
        if m and m.group(1) not in first:
            first[m.group(1)] = ("caught" + ("" if m.group(3) == "True" else " (no failing input)")) if m.group(2) == "True" else "missed"
rows = []
for d in sorted(glob.glob(os.path.join(V, "seeded/C*-m*"))):
    sid = os.path.basename(d)
    meta = json.load(open(os.path.join(d, "meta.json")))
    res = None
    rp = os.path.join(d, "result.json")
    if os.path.exists(rp):
        r = json.load(open(rp))["results"].get(meta["property"])
        if r:
            res = ("caught: " + ("failing input" if r.get("with_failing_input") else "proof/tie only")) if r["detected"] else "MISSED"
            lay = r.get("layers") or {}
            if r["detected"] and lay:
                res += " (spec %s, proof %s, tie %s)" % (lay.get("spec_failures", 0), lay.get("proof_breaks", 0), lay.get("tie_breaks", 0))
    files = ", ".join(os.path.basename(f) for f in meta.get("files_changed", []))[:60]
    summ = (meta.get("summary") or "").replace("|", "/").replace("\n", " ")
    if len(summ) > 150: summ = summ[:147] + "..."
    rows.append("| %s | %s | %s | %s | %s |" % (sid, files, summ, first.get(sid, "—"), res or "—"))
print("| seed | file(s) | change | first met the check | now |")
print("|---|---|---|---|---|")
print("\n".join(rows))
n = len(rows); c = sum(1 for r in rows if "| caught" in r.split("|")[-2] or "caught:" in r)
print("\n%d seeds; caught now: %d" % (n, sum(1 for r in rows if "caught:" in r)))
