"""Pins of the merger (C04): doc-store stacking threshold of IndexMerger::write_storable_fields and
the limit on the size of a merged segment."""


def collect(P):
    # merger.rs write_storable_fields: `store_reader.block_checkpoints().take(7).count() < 6`
    P.int_const("MERGE_STORE_STACK_MIN_BLOCKS", "src/indexer/merger.rs",
                r"store_reader\.block_checkpoints\(\)\.take\(\d+\)\.count\(\) < (\d+)", "usize")
    P.int_const("MERGE_MAX_DOC_LIMIT", "src/indexer/merger.rs", r"pub const MAX_DOC_LIMIT: u32 = ([^;]+);", "u64")
