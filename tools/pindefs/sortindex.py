"""Pins of index sorting (C17): the sign bit used by the order-preserving maps i64/f64/date -> u64
(common::i64_to_u64 / f64_to_u64), which produce the keys compared by ColumnarWriter::sort_order and by the
merger's k-way merge."""


def collect(P):
    P.int_const("SORT_HIGHEST_BIT", "common/src/lib.rs", r"^const HIGHEST_BIT: u64 = ([^;]+);", "u64")
