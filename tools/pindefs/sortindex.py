"""Pins of index sorting (C17): the sign bit used by the order-preserving maps i64/f64/date -> u64
(common::i64_to_u64 / f64_to_u64), which produce the keys compared by ColumnarWriter::sort_order and by the
merger's k-way merge."""


def collect(P):
    P.int_const("SORT_HIGHEST_BIT", "common/src/lib.rs", r"^const HIGHEST_BIT: u64 = ([^;]+);", "u64")
    # merger.rs segment_has_live_nulls: which cardinalities are declared null-free without a scan.
    # 1 = only `Full` (Optional and Multivalued columns are scanned); 0 = everything but `Optional`
    # (the pre-fix shape, finding F171: a Multivalued column with a live value-less document is not scanned).
    rel = "src/indexer/merger.rs"
    text = P.src(rel) or ""
    import re
    m = re.search(r"fn segment_has_live_nulls\b.*?if col\.get_cardinality\(\) (==|!=) columnar::Cardinality::(Full|Optional) \{\s*return false;", text, re.S)
    if m and (m.group(1), m.group(2)) in (("==", "Full"), ("!=", "Optional")):
        val = 1 if m.group(2) == "Full" else 0
        P.items.append(("SORT_LIVE_NULLS_SCANS_MULTIVALUED", "N", val, rel, text.count("\n", 0, m.start(1)) + 1))
        P.env["SORT_LIVE_NULLS_SCANS_MULTIVALUED"] = val
    else:
        P.broken.append({"pin": "SORT_LIVE_NULLS_SCANS_MULTIVALUED", "file": rel, "why": "segment_has_live_nulls no longer starts with one of the two pinned cardinality tests"})
