"""Pins of the E1 storage engine (C01 C05 C10 C11 C18)."""


def collect(P):
    # IndexWriter::rollback: the replacement writer is built BEFORE the lock guard is taken out of self
    # (so that a failing rebuild cannot drop the guard) -- 1 when the source has that order.
    P.flag("ROLLBACK_BUILDS_BEFORE_TAKING_LOCK", "src/indexer/index_writer.rs",
           r"pub fn rollback\(&mut self\).{0,1500}?IndexWriter::new_without_lock\(.{0,600}?\._directory_lock\s*\.take\(\)")
    # save_metas: directory synced again after the atomic replace of meta.json
    P.flag("SAVE_METAS_SYNCS_AFTER_REPLACE", "src/indexer/segment_updater.rs",
           r"directory\.atomic_write\(&META_FILEPATH, &buffer\[\.\.\]\)\?;\s*(//[^\n]*\n\s*)*directory\.sync_directory\(\)\?;")
    # save_metas: the directory is synced UNCONDITIONALLY right before the atomic replace of meta.json
    P.flag("SAVE_METAS_SYNCS_BEFORE_REPLACE", "src/indexer/segment_updater.rs",
           r"pub\(crate\) fn save_metas\(metas: &IndexMeta, directory: &dyn Directory\)[^}]*?\n    directory\.sync_directory\(\)\?;\s*directory\.atomic_write\(&META_FILEPATH, &buffer\[\.\.\]\)\?;")
