"""Pins of the E1 storage engine (C01 C05 C10 C11 C18)."""


import re


def call_order(P, name, rel, header_regex, tokens):
    """Pin the ORDER in which a function body performs some calls: `header_regex` finds the function, its body
    is the brace-balanced block that follows, comments are dropped, and the table lists the code of every
    occurrence of the `tokens` regexes (code -> regex) in source order."""
    text = P.src(rel)
    if text is None:
        P.broken.append({"pin": name, "file": rel, "why": "file missing"}); return
    m = re.search(header_regex, text, re.M | re.S)
    if not m:
        P.broken.append({"pin": name, "file": rel, "why": "function not found: " + header_regex}); return
    i = text.find("{", m.end() - 1)
    if i < 0:
        P.broken.append({"pin": name, "file": rel, "why": "no body"}); return
    depth, j = 0, i
    while j < len(text):
        if text[j] == "{": depth += 1
        elif text[j] == "}":
            depth -= 1
            if depth == 0: break
        j += 1
    body = re.sub(r"//[^\n]*", lambda mm: " " * len(mm.group(0)), text[i:j + 1])
    occ = []
    for code, rx in tokens.items():
        for mm in re.finditer(rx, body):
            occ.append((mm.start(), code))
    occ.sort()
    P.items.append((name, "table", [c for _, c in occ], rel, text.count("\n", 0, i) + 1))


def collect(P):
    # ---- the real directory's durability primitives (MmapDirectory), as call orders (Storage/WriterStack.v) ----
    # atomic_write: 1 write_all, 2 flush, 3 sync_data, 4 persist (rename onto the target)
    call_order(P, "ATOMIC_WRITE_ORDER", "src/directory/mmap_directory/mod.rs", r"pub\(crate\) fn atomic_write\(path: &Path, content: &\[u8\]\) -> io::Result<\(\)> ",
               {1: r"\.write_all\(", 2: r"\.flush\(\)", 3: r"\.sync_(data|all)\(\)", 4: r"\.persist\("})
    # FooterProxy::terminate_ref: 1 append_footer, 2 terminate of the inner writer, 3 flush of the inner writer
    call_order(P, "FOOTER_TERMINATE_ORDER", "src/directory/footer.rs", r"impl<W: TerminatingWrite> TerminatingWrite for FooterProxy<W> \{\s*fn terminate_ref\([^)]*\) -> io::Result<\(\)> ",
               {1: r"append_footer\(", 2: r"\.terminate(_ref)?\(", 3: r"\.flush\(\)"})
    # BufWriter<W>::terminate_ref (common): 3 flush of the buffer, 2 terminate of the inner writer
    call_order(P, "BUFWRITER_TERMINATE_ORDER", "common/src/writer.rs", r"impl<W: TerminatingWrite> TerminatingWrite for BufWriter<W> \{\s*fn terminate_ref\([^)]*\) -> io::Result<\(\)> ",
               {2: r"\.terminate(_ref)?\(", 3: r"\.flush\(\)"})
    # SafeFileWriter::terminate_ref: 3 flush (a no-op on a File), 4 sync_data
    call_order(P, "SAFEFILE_TERMINATE_ORDER", "src/directory/mmap_directory/mod.rs", r"impl TerminatingWrite for SafeFileWriter \{\s*fn terminate_ref\([^)]*\) -> io::Result<\(\)> ",
               {3: r"\.flush\(\)", 4: r"\.sync_(data|all)\(\)"})
    # try_acquire_lock (the default lock-file protocol): 1 open_write (create-new), 2 the guard is built, 3 flush
    call_order(P, "LOCK_ACQUIRE_ORDER", "src/directory/directory.rs", r"fn try_acquire_lock\(\s*filepath: &Path,\s*directory: &dyn Directory,?\s*\) -> Result<DirectoryLock, TryAcquireLockError> ",
               {1: r"\.open_write\(", 2: r"DirectoryLockGuard \{", 3: r"\.flush\(\)"})
    # InnerIndexReader::reload holds a reader-wide lock from before it loads the segments until after it stored the searcher
    P.flag("RELOAD_SERIALIZED", "src/reader/mod.rs",
           r"fn reload\(&self\) -> crate::Result<\(\)> \{\s*let _\w+ = self\s*\.reload_lock\s*\.lock\(\).{0,700}?self\.searcher\.store\(searcher\);")
    # MmapDirectory's lock guard (ReleaseLockFile): does its drop remove the lock file? (it must not: flock locks belong to the inode)
    P.flag("MMAP_LOCK_RELEASE_UNLINKS", "src/directory/mmap_directory/mod.rs",
           r"impl Drop for ReleaseLockFile \{\s*fn drop\(&mut self\) \{[^}]*?(remove_file|\.delete\()")
    # IndexWriterStatus: Inner::kill clears is_alive AND drops the status's copy of the receiver (wakes a blocked sender)
    P.flag("KILL_DROPS_RECEIVER", "src/indexer/index_writer_status.rs",
           r"fn kill\(&self\) \{[^}]*is_alive\.store\(false[^}]*self\.receive_channel[^}]*\.take\(\);")
    # a segment updater must not outlive its writer as a publisher: Drop and rollback kill it, save_metas refuses on a killed updater
    P.flag("DROP_KILLS_UPDATER", "src/indexer/index_writer.rs",
           r"impl<D: Document> Drop for IndexWriter<D> \{\s*fn drop\(&mut self\) \{[^}]*self\.segment_updater\.kill\(\);")
    P.flag("ROLLBACK_KILLS_UPDATER", "src/indexer/index_writer.rs",
           r"pub fn rollback\(&mut self\).{0,1500}?self\.segment_updater\.kill\(\);")
    P.flag("SAVE_METAS_CHECKS_ALIVE", "src/indexer/segment_updater.rs",
           r"pub fn save_metas\(\s*&self,[^)]*\) -> crate::Result<\(\)> \{\s*(?:let _\w+ = self\s*\.save_metas_lock\s*\.lock\(\)[^;]*;\s*)?if self\.is_alive\(\) \{")
    # ... and the liveness check and the write of meta.json happen under a lock that kill() takes too (no check-then-act)
    P.flag("SAVE_METAS_LOCKED_AGAINST_KILL", "src/indexer/segment_updater.rs",
           r"pub fn kill\(&mut self\) \{\s*let _\w+ = self\s*\.save_metas_lock\s*\.lock\(\).{0,200}?self\.killed\.store\(true.{0,1500}?pub fn save_metas\(\s*&self,[^)]*\) -> crate::Result<\(\)> \{\s*let _\w+ = self\s*\.save_metas_lock\s*\.lock\(\).{0,200}?if self\.is_alive\(\) \{")
    # SegmentMeta::with_delete_meta carries the "temporary doc store is alive" flag over instead of re-creating it as true
    P.flag("WITH_DELETE_META_KEEPS_TEMP_FLAG", "src/index/index_meta.rs",
           r"pub fn with_delete_meta\(self, num_deleted_docs: u32, opstamp: Opstamp\) -> SegmentMeta \{.{0,900}?include_temp_doc_store: inner_meta\.include_temp_doc_store\.clone\(\),")
    # MmapDirectory::sync_directory (unix): opens the root and fsyncs it
    P.flag("SYNC_DIRECTORY_FSYNCS_ROOT", "src/directory/mmap_directory/mod.rs",
           r"#\[cfg\(not\(windows\)\)\]\s*fn sync_directory\(&self\) -> Result<\(\), io::Error> \{.{0,400}?open\(&self\.inner\.root_path\)\?;\s*fd\.sync_(data|all)\(\)\?;")

    # IndexWriter::rollback: the replacement writer is built BEFORE the lock guard is taken out of self
    # (so that a failing rebuild cannot drop the guard) -- 1 when the source has that order.
    P.flag("ROLLBACK_BUILDS_BEFORE_TAKING_LOCK", "src/indexer/index_writer.rs",
           r"pub fn rollback\(&mut self\).{0,1500}?IndexWriter::new_without_lock\(.{0,600}?\._directory_lock\s*\.take\(\)")
    # save_metas: directory synced again after the atomic replace of meta.json
    P.flag("SAVE_METAS_SYNCS_AFTER_REPLACE", "src/indexer/segment_updater.rs",
           r"directory\.atomic_write\(&META_FILEPATH, &buffer\[\.\.\]\)\?;\s*(//[^\n]*\n\s*)*directory\.sync_directory\(\)\?;")
    # save_metas: the directory is synced UNCONDITIONALLY right before the atomic replace of meta.json
    P.flag("SAVE_METAS_SYNCS_BEFORE_REPLACE", "src/indexer/segment_updater.rs",
           r"pub\(crate\) fn save_metas\(metas: &IndexMeta, directory: &dyn Directory\)[^}]*?\n    directory\.sync_directory\(\)\?;\s*directory\.atomic_write\(&META_FILEPATH, &buffer\[\.\.\]\)\?;")
