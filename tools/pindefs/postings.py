"""Pins of the postings engine (C07): block size, TERMINATED, VInt size, field-norm table,
token length limit, position gap, term-info block length."""
import glob
import os
import re


def _block_len_from_bitpacking(P):
    """COMPRESSION_BLOCK_SIZE is `BitPacker4x::BLOCK_LEN` of the external `bitpacking` crate (vendored in
    the cargo registry).  The constant is re-read from the crate source named by /repo/Cargo.lock."""
    lock = P.src("Cargo.lock") or ""
    m = re.search(r'name = "bitpacking"\s*\nversion = "([^"]+)"', lock)
    ver = m.group(1) if m else "*"
    cands = sorted(glob.glob(os.path.expanduser("~/.cargo/registry/src/*/bitpacking-%s/src/bitpacker4x.rs" % ver)))
    if not cands:
        P.broken.append({"pin": "BITPACKER4X_BLOCK_LEN", "file": "bitpacking/src/bitpacker4x.rs", "why": "crate source not found"})
        return
    P.int_const("BITPACKER4X_BLOCK_LEN", cands[0], r"^const BLOCK_LEN: usize = ([^;]+);", "usize")


def collect(P):
    _block_len_from_bitpacking(P)
    rel = "src/postings/compression/mod.rs"
    text = P.src(rel)
    m = re.search(r"pub const COMPRESSION_BLOCK_SIZE: usize = ([^;]+);", text or "")
    if not m:
        P.broken.append({"pin": "COMPRESSION_BLOCK_SIZE", "file": rel, "why": "pattern not found"})
    elif m.group(1).strip() == "BitPacker4x::BLOCK_LEN":
        if "BITPACKER4X_BLOCK_LEN" in P.env:
            val = P.env["BITPACKER4X_BLOCK_LEN"]
            P.env["COMPRESSION_BLOCK_SIZE"] = val
            P.items.append(("COMPRESSION_BLOCK_SIZE", "usize", val, rel, text.count("\n", 0, m.start(1)) + 1))
        else:
            P.broken.append({"pin": "COMPRESSION_BLOCK_SIZE", "file": rel, "why": "BitPacker4x::BLOCK_LEN unknown"})
    else:
        P.int_const("COMPRESSION_BLOCK_SIZE", rel, r"pub const COMPRESSION_BLOCK_SIZE: usize = ([^;]+);", "usize")
    # the positions module re-declares its own block size: pinned separately, proved equal where used
    text2 = P.src("src/positions/mod.rs") or ""
    m2 = re.search(r"^const COMPRESSION_BLOCK_SIZE: usize = ([^;]+);", text2, re.M)
    if m2 and m2.group(1).strip() == "BitPacker4x::BLOCK_LEN" and "BITPACKER4X_BLOCK_LEN" in P.env:
        P.items.append(("POSITIONS_BLOCK_SIZE", "usize", P.env["BITPACKER4X_BLOCK_LEN"], "src/positions/mod.rs",
                        text2.count("\n", 0, m2.start(1)) + 1))
        P.env["POSITIONS_BLOCK_SIZE"] = P.env["BITPACKER4X_BLOCK_LEN"]
    else:
        P.int_const("POSITIONS_BLOCK_SIZE", "src/positions/mod.rs", r"^const COMPRESSION_BLOCK_SIZE: usize = ([^;]+);", "usize")
    P.int_const("POSTINGS_MAX_VINT_SIZE", rel, r"const MAX_VINT_SIZE: usize = ([^;]+);", "usize")
    # TERMINATED = i32::MAX as u32
    rel = "src/docset.rs"
    text = P.src(rel) or ""
    m = re.search(r"pub const TERMINATED: DocId = ([^;]+);", text)
    if m and m.group(1).strip() == "i32::MAX as u32":
        P.env["TERMINATED"] = 2 ** 31 - 1
        P.items.append(("TERMINATED", "u32", 2 ** 31 - 1, rel, text.count("\n", 0, m.start(1)) + 1))
    else:
        P.int_const("TERMINATED", rel, r"pub const TERMINATED: DocId = ([^;]+);", "u32")
    P.int_table("FIELD_NORMS_TABLE", "src/fieldnorm/code.rs", r"pub const FIELD_NORMS_TABLE: \[u32; 256\] = \[(.*?)\];")
    # MAX_TOKEN_LEN = u16::MAX as usize - 5
    rel = "src/tokenizer/mod.rs"
    text = P.src(rel) or ""
    m = re.search(r"pub const MAX_TOKEN_LEN: usize = ([^;]+);", text)
    if m:
        expr = m.group(1).replace("u16::MAX", "65535")
        expr = re.sub(r"\bas\s+usize\b", "", expr)
        if re.fullmatch(r"[0-9+\-* ()]+", expr):
            val = int(eval(expr, {"__builtins__": {}}, {}))
            P.env["MAX_TOKEN_LEN"] = val
            P.items.append(("MAX_TOKEN_LEN", "usize", val, rel, text.count("\n", 0, m.start(1)) + 1))
        else:
            P.broken.append({"pin": "MAX_TOKEN_LEN", "file": rel, "why": "unsupported expression " + m.group(1)})
    else:
        P.broken.append({"pin": "MAX_TOKEN_LEN", "file": rel, "why": "pattern not found"})
    P.int_const("POSITION_GAP", "src/postings/postings_writer.rs", r"^const POSITION_GAP: u32 = ([^;]+);", "u32")
    P.int_const("TERMINFO_BLOCK_LEN", "src/termdict/fst_termdict/term_info_store.rs", r"^const BLOCK_LEN: usize = ([^;]+);", "usize")
    # width of the skip-list entries per record option (read_block_info: advance_len)
    sk = "src/postings/skip.rs"
    P.int_const("SKIP_ENTRY_LEN_BASIC", sk, r"IndexRecordOption::Basic => \{\s*advance_len = (\d+);")
    P.int_const("SKIP_ENTRY_LEN_FREQS", sk, r"IndexRecordOption::WithFreqs => \{(?:[^{}]|\{[^{}]*\})*?advance_len = (\d+);")
    P.int_const("SKIP_ENTRY_LEN_POSITIONS", sk, r"IndexRecordOption::WithFreqsAndPositions => \{(?:[^{}]|\{[^{}]*\})*?advance_len = (\d+);")
    # BlockSegmentPostings::open: `if skip_data.len() < 8 * block_count { record_option = Basic }`
    P.int_const("SKIP_FREQ_DETECT_LEN", "src/postings/block_segment_postings.rs", r"if skip_data\.len\(\) < (\d+) \* block_count")
