"""Pins of engine E4 (ranking) used by property C06: TopNComputer capacity rule (block-max WAND is modelled for arbitrary block boundaries, so no block size is pinned)."""


def collect(P):
    # `let vec_cap = top_n.max(1) * 2;` in TopNComputer::new_with_comparator
    P.int_const("TOPN_MIN_TOP_N", "src/collector/top_score_collector.rs",
                r"let vec_cap = top_n\.max\((\d+)\) \* \d+;")
    P.int_const("TOPN_CAP_FACTOR", "src/collector/top_score_collector.rs",
                r"let vec_cap = top_n\.max\(\d+\) \* (\d+);")
    # same rule when a TopNComputer is deserialized
    P.int_const("TOPN_DESER_MIN_TOP_N", "src/collector/top_score_collector.rs",
                r"let expected_cap = value\.top_n\.max\((\d+)\) \* \d+;")
    P.int_const("TOPN_DESER_CAP_FACTOR", "src/collector/top_score_collector.rs",
                r"let expected_cap = value\.top_n\.max\(\d+\) \* (\d+);")
    # block-max WAND (C06): the end-of-postings sentinel and the BM25 constants used by the
    # F3/F6 witness theorems (own names: pin names are global)
    import re
    text = P.src("src/docset.rs")
    m = re.search(r"pub const TERMINATED: DocId = ([^;]+);", text or "")
    if m and m.group(1).strip() == "i32::MAX as u32":
        P.env["WAND_TERMINATED"] = 2 ** 31 - 1
        P.items.append(("WAND_TERMINATED", "u32", 2 ** 31 - 1, "src/docset.rs", text.count("\n", 0, m.start(1)) + 1))
    else:
        P.int_const("WAND_TERMINATED", "src/docset.rs", r"pub const TERMINATED: DocId = ([^;]+);", "u32")
    bm = "src/query/bm25.rs"
    P.rational("WAND_BM25_K1", bm, r"^const K1: Score = ([0-9_.]+(?:f32)?);")
    P.rational("WAND_BM25_B", bm, r"^const B: Score = ([0-9_.]+(?:f32)?);")
    P.int_const("WAND_MAX_SCORE_FIELDNORM_ID", bm, r"pub fn max_score\(&self\) -> Score \{\s*self\.score\((\d+)u8, [0-9_]+\)")
    P.int_const("WAND_MAX_SCORE_TF", bm, r"pub fn max_score\(&self\) -> Score \{\s*self\.score\(\d+u8, ([0-9_]+)\)")
    P.int_table("WAND_FIELD_NORMS_TABLE", "src/fieldnorm/code.rs", r"pub const FIELD_NORMS_TABLE: \[u32; 256\] = \[(.*?)\];")
