"""Pins of engine E4 (ranking) used by property C06: TopNComputer capacity rule (block-max WAND is modelled for arbitrary block boundaries, so no block size is pinned)."""


def collect(P):
    # `let vec_cap = top_n.max(1) * 2;` in TopNComputer::new_with_comparator
    P.int_const("TOPN_MIN_TOP_N", "src/collector/top_score_collector.rs",
                r"let vec_cap = top_n\.max\((\d+)\) \* \d+;")
    P.int_const("TOPN_CAP_FACTOR", "src/collector/top_score_collector.rs",
                r"let vec_cap = top_n\.max\(\d+\) \* (\d+);")
    # same rule when a TopNComputer is deserialized
    P.int_const("TOPN_DESER_MIN_TOP_N", "src/collector/top_score_collector.rs",
                r"let expected_cap = value\.top_n\.max\((\d+)\) \* \d+;")
    P.int_const("TOPN_DESER_CAP_FACTOR", "src/collector/top_score_collector.rs",
                r"let expected_cap = value\.top_n\.max\(\d+\) \* (\d+);")
