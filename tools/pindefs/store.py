"""Pins of the document store (C09): skip-index period, default block size, stacking threshold of
merges, per-document overhead counted by check_flush_block, footer size, document type codes,
VInt stop bit."""

CODES = ["TEXT_CODE", "U64_CODE", "I64_CODE", "HIERARCHICAL_FACET_CODE", "BYTES_CODE", "DATE_CODE",
         "F64_CODE", "EXT_CODE", "JSON_OBJ_CODE", "BOOL_CODE", "IP_CODE", "NULL_CODE", "ARRAY_CODE",
         "OBJECT_CODE", "TOK_STR_EXT_CODE"]


def collect(P):
    P.int_const("STORE_CHECKPOINT_PERIOD", "src/store/index/mod.rs", r"^const CHECKPOINT_PERIOD: usize = ([^;]+);", "usize")
    P.int_const("STORE_DEFAULT_BLOCK_SIZE", "src/index/index_meta.rs",
                r"fn default_docstore_blocksize\(\) -> usize \{\s*([0-9_]+)\s*\}", "usize")
    # merger.rs write_storable_fields: `store_reader.block_checkpoints().take(7).count() < 6`
    P.int_const("STORE_STACK_MIN_BLOCKS", "src/indexer/merger.rs",
                r"store_reader\.block_checkpoints\(\)\.take\(\d+\)\.count\(\) < (\d+)", "usize")
    P.int_const("STORE_STACK_TAKE", "src/indexer/merger.rs",
                r"store_reader\.block_checkpoints\(\)\.take\((\d+)\)\.count\(\) < \d+", "usize")
    # writer.rs check_flush_block: `self.doc_pos.len() * std::mem::size_of::<usize>()` (8 on the 64-bit targets we run)
    text = P.src("src/store/writer.rs") or ""
    if "let index_len = self.doc_pos.len() * std::mem::size_of::<usize>();" in text and \
       "if self.current_block.len() + index_len > self.block_size {" in text:
        line = text[:text.index("let index_len = self.doc_pos.len()")].count("\n") + 1
        P.items.append(("STORE_INDEX_ENTRY_COST", "usize", 8, "src/store/writer.rs", line))
        P.env["STORE_INDEX_ENTRY_COST"] = 8
    else:
        P.broken.append({"pin": "STORE_INDEX_ENTRY_COST", "file": "src/store/writer.rs", "why": "check_flush_block no longer has the pinned shape"})
    P.int_const("STORE_FOOTER_SIZE", "src/store/footer.rs",
                r"impl FixedSize for DocStoreFooter \{\s*const SIZE_IN_BYTES: usize = ([^;]+);", "usize")
    P.int_const("STORE_CACHE_CAPACITY", "src/store/reader.rs", r"const DOCSTORE_CACHE_CAPACITY: usize = ([^;]+);", "usize")
    P.int_const("VINT_STOP_BIT", "common/src/vint.rs", r"^const STOP_BIT: u8 = ([^;]+);", "u8")
    for c in CODES:
        P.int_const("DOC_" + c, "src/schema/document/mod.rs", r"pub const %s: u8 = ([^;]+);" % c, "u8")
    # serialize_vint_u32 (used by CompactDoc for every length prefix): the four branch thresholds
    for k in (2, 3, 4, 5):
        P.int_const("VINT32_START_%d" % k, "common/src/vint.rs", r"const START_%d: u64 = ([^;]+);" % k, "u64")
