"""Pins of the columnar / bit-packer engine (C08).  Names are prefixed (pin names are global)."""


def _pin_subst(P, name, rel, regex, subst):
    """int_const on `rel` after purely textual substitutions (no newline added or removed, so the
    reported line is the real one).  Used for constant expressions that mention Rust items the
    evaluator of pin.py does not know (u16::MAX, size_of::<u16>(), names of other constants:
    the already pinned VALUE of the referenced constant is substituted)."""
    text = P.src(rel)
    key = rel + "#" + name
    if text is None:
        P._cache[key] = None
    else:
        for a, b in subst:
            text = text.replace(a, b)
        P._cache[key] = text
    n_items, n_broken = len(P.items), len(P.broken)
    P.int_const(name, key, regex)
    for i in range(n_items, len(P.items)):
        it = P.items[i]
        P.items[i] = (it[0], it[1], it[2], rel, it[4])
    for i in range(n_broken, len(P.broken)):
        P.broken[i]["file"] = rel


def collect(P):
    bp = "bitpacker/src/bitpacker.rs"
    # BitUnpacker::new:  assert!(num_bits <= 7 * 8 || num_bits == 64);
    P.int_const("BITUNPACKER_NARROW_MAX_BITS", bp,
                r"pub fn new\(num_bits: u8\) -> BitUnpacker \{\s*assert!\(num_bits <= ([^|]+?) \|\| num_bits == \d+\);")
    P.int_const("BITUNPACKER_FULL_BITS", bp,
                r"pub fn new\(num_bits: u8\) -> BitUnpacker \{\s*assert!\(num_bits <= [^|]+? \|\| num_bits == (\d+)\);")
    # BitUnpacker::get: unaligned read of 8 bytes
    P.int_const("BITUNPACKER_READ_BYTES", bp, r"if addr \+ (\d+) > data\.len\(\) \{")
    # compute_num_bits: if amplitude <= 64 - 8 { amplitude } else { 64 }
    lib = "bitpacker/src/lib.rs"
    P.int_const("COMPUTE_NUM_BITS_NARROW_MAX", lib,
                r"pub fn compute_num_bits\(n: u64\) -> u8 \{[^}]*?if amplitude <= ([^{]+?) \{ amplitude \} else \{ \d+ \}")
    P.int_const("COMPUTE_NUM_BITS_WIDE", lib,
                r"pub fn compute_num_bits\(n: u64\) -> u8 \{[^}]*?if amplitude <= [^{]+? \{ amplitude \} else \{ (\d+) \}")
    # Line
    line = "columnar/src/column_values/u64_based/line.rs"
    P.int_const("LINE_MID_POINT", line, r"const MID_POINT: u64 = ([^;]+);")
    P.int_const("LINE_SLOPE_BAIL", line, r"if abs_dy >= ([^{]+?) \{")
    P.int_const("LINE_SLOPE_SHIFT", line, r"let abs_slope = \(abs_dy << (\d+)\) / num_vals\.get\(\) as u64;")
    P.int_const("LINE_EVAL_SHIFT", line, r"\(x as u64\)\.wrapping_mul\(self\.slope\) >> (\d+)\) as i32 as u64")
    # linear codec
    lin = "columnar/src/column_values/u64_based/linear.rs"
    P.int_const("LINEAR_HALF_SPACE", lin, r"const HALF_SPACE: u64 = ([^;]+);")
    P.int_const("LINE_ESTIMATION_BLOCK_LEN", lin, r"const LINE_ESTIMATION_BLOCK_LEN: usize = ([^;]+);")
    # blockwise linear
    bw = "columnar/src/column_values/u64_based/blockwise_linear.rs"
    P.int_const("BLOCKWISE_BLOCK_SIZE", bw, r"const BLOCK_SIZE: u32 = ([^;]+);")
    # optional index
    dense = "columnar/src/column_index/optional_index/set_block/dense.rs"
    oi = "columnar/src/column_index/optional_index/mod.rs"
    _pin_subst(P, "OPT_ELEMENTS_PER_BLOCK", oi, r"const ELEMENTS_PER_BLOCK: u32 = ([^;]+);",
               [("u16::MAX", "65535")])
    P.int_const("OPT_ELEMENTS_PER_MINI_BLOCK", dense, r"const ELEMENTS_PER_MINI_BLOCK: u16 = ([^;]+);")
    P.int_const("OPT_MINI_BLOCK_BITVEC_NUM_BYTES", dense, r"const MINI_BLOCK_BITVEC_NUM_BYTES: usize = ([^;]+);")
    P.int_const("OPT_MINI_BLOCK_OFFSET_NUM_BYTES", dense, r"const MINI_BLOCK_OFFSET_NUM_BYTES: usize = ([^;]+);")
    _pin_subst(P, "OPT_MINI_BLOCK_NUM_BYTES", dense, r"pub const MINI_BLOCK_NUM_BYTES: usize = ([^;]+);",
               [("= MINI_BLOCK_BITVEC_NUM_BYTES + MINI_BLOCK_OFFSET_NUM_BYTES;",
                 "= %d + %d;" % (P.env.get("OPT_MINI_BLOCK_BITVEC_NUM_BYTES", 0), P.env.get("OPT_MINI_BLOCK_OFFSET_NUM_BYTES", 0)))])
    _pin_subst(P, "OPT_DENSE_BLOCK_NUM_BYTES", dense, r"pub const DENSE_BLOCK_NUM_BYTES: u32 =\s*([^;]+);",
               [("(ELEMENTS_PER_BLOCK / ELEMENTS_PER_MINI_BLOCK as u32) * MINI_BLOCK_NUM_BYTES as u32",
                 "(%d / %d) * %d" % (P.env.get("OPT_ELEMENTS_PER_BLOCK", 0), P.env.get("OPT_ELEMENTS_PER_MINI_BLOCK", 1) or 1,
                                     P.env.get("OPT_MINI_BLOCK_NUM_BYTES", 0)))])
    _pin_subst(P, "OPT_DENSE_BLOCK_THRESHOLD", oi, r"const DENSE_BLOCK_THRESHOLD: u32 =\s*([^;]+);",
               [("set_block::DENSE_BLOCK_NUM_BYTES / std::mem::size_of::<u16>() as u32",
                 "%d / 2" % P.env.get("OPT_DENSE_BLOCK_NUM_BYTES", 0))])
    # bit-packed range lookup: the guard `|| *range.end() < stats.min_value` of
    # transform_range_before_linear_transformation (fix of F81).  1 iff present; the model follows it.
    P.flag("COLUMNAR_RANGE_BELOW_MIN_GUARD", "columnar/src/column_values/u64_based/bitpacked.rs",
           r"fn transform_range_before_linear_transformation\([^)]*\)[^{]*\{[^}]*?if range\.is_empty\(\)\s*\|\|\s*\*range\.end\(\)\s*<\s*stats\.min_value\s*\{\s*return None;")
    # BitUnpacker::get_ids_for_value_range: widths above this use the plain row scan, the others the u32 batch path
    P.int_const("BITUNPACKER_FAST_RANGE_MAX_BITS", bp,
                r"if self\.bit_width\(\) > (\d+) \{\s*self\.get_ids_for_value_range_slow")
    # ... on the u32 path the upper bound is saturated at u32::MAX before the cast (1 iff the source does so)
    P.flag("BITUNPACKER_RANGE_END_SATURATES", bp,
           r"let range_u32 = \(\*range\.start\(\) as u32\)\s*\.\.=\s*\(\*range\.end\(\)\)\s*\.min\(u32::MAX as u64\) as u32;")
    # ... and a lower bound above u32::MAX yields nothing
    P.flag("BITUNPACKER_RANGE_START_ABOVE_U32_EMPTY", bp,
           r"if \*range\.start\(\) > u32::MAX as u64 \{\s*positions\.clear\(\);\s*return;")
    # legacy (format v1) multivalued index
    mv = "columnar/src/column_index/multivalued_index.rs"
    # MultiValueIndexV1::select_batch_in_place: the end offset of a document is EXCLUSIVE (`end > pos`); 1 iff so
    P.flag("MV1_SELECT_END_EXCLUSIVE", mv,
           r"impl MultiValueIndexV1 \{(?:(?!MultiValueIndexV2).)*?fn select_batch_in_place(?:(?!MultiValueIndexV2).)*?if end > pos \{")
    st = "columnar/src/column_index/merge/stacked.rs"
    # stacked merge, v1 input: doc ids with values are shifted by the row offset of the input; 1 iff so
    P.flag("STACK_V1_DOCS_SHIFTED", st,
           r"MultiValueIndex::MultiValueIndexV1\(multivalued_index\) => \{(?:(?!MultiValueIndexV2).)*?Some\(docid \+ doc_range\.start\)")
    # stacked merge: value-less documents of a v1 input contribute no start offset (fix of F82); 1 iff the filter is there
    P.flag("STACK_NUM_VALUES_SKIPS_EMPTY", st,
           r"fn get_num_values_iterator(?:(?!\nfn |\nimpl ).)*?\.skip\(1\)\s*(?://[^\n]*\n\s*)*\.filter\(\|\s*&?num_vals\s*\|\s*\*?num_vals\s*(?:>\s*0|!=\s*0)")
