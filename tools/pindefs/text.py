"""Pins of the text engine (C19): the UTF-8 width table of the n-gram tokenizer's CodepointFrontiers,
the snippet generator's default limit and highlight tags, the facet separator byte."""


def collect(P):
    P.int_table("TEXT_CODEPOINT_UTF8_WIDTH", "src/tokenizer/ngram_tokenizer.rs",
                r"const CODEPOINT_UTF8_WIDTH: \[u8; 16\] = \[([^\]]+)\];")
    # `(b as usize) >> 4` : the table is indexed by the high nibble of the first byte
    P.int_const("TEXT_WIDTH_NIBBLE_SHIFT", "src/tokenizer/ngram_tokenizer.rs",
                r"let higher_4_bits = \(b as usize\) >> (\d+);")
    P.int_const("SNIPPET_DEFAULT_MAX_NUM_CHARS", "src/snippet/mod.rs", r"^const DEFAULT_MAX_NUM_CHARS: usize = ([^;]+);", "usize")
    P.string("SNIPPET_DEFAULT_PREFIX", "src/snippet/mod.rs", r'^const DEFAULT_SNIPPET_PREFIX: &str = "([^"]*)";')
    P.string("SNIPPET_DEFAULT_POSTFIX", "src/snippet/mod.rs", r'^const DEFAULT_SNIPPET_POSTFIX: &str = "([^"]*)";')
    P.int_const("TEXT_FACET_SEP_BYTE", "src/schema/facet.rs", r"^pub const FACET_SEP_BYTE: u8 = ([^;]+);", "u8")
    # FragmentCandidate::try_add_token: the fragment end is the furthest token end (fix of F21), not the last token's end
    P.flag("SNIPPET_STOP_IS_MAX", "src/snippet/mod.rs",
           r"fn try_add_token\(&mut self, token: &Token, terms: &BTreeMap<String, Score>\) \{\s*(?://[^\n]*\n\s*)*self\.stop_offset = self\.stop_offset\.max\(token\.offset_to\);")
