"""Pins of the index writer (C02).

WRITER_COMMIT_STORES_OPSTAMP: 1 iff some statement assigns `committed_opstamp` outside the struct
literal of IndexWriter::new (i.e. a commit updates what commit_opstamp() reports -- finding F1), else 0.
The Coq model takes this flag as the parameter `f1` of the commit step; the tie cases compare the
model's commit_opstamp() with the implementation's on every run, so a wrong detection is reported."""
import re


def collect(P):
    total, where = 0, None
    for rel in ("src/indexer/index_writer.rs", "src/indexer/prepared_commit.rs"):
        text = P.src(rel)
        if text is None:
            P.broken.append({"pin": "WRITER_COMMIT_STORES_OPSTAMP", "file": rel, "why": "file missing"})
            return
        # cut the test module off
        cut = text.find("#[cfg(test)]")
        body = text if cut < 0 else text[:cut]
        for m in re.finditer(r"\bcommitted_opstamp\s*=[^=]", body):
            total += 1
            where = where or (rel, body.count("\n", 0, m.start()) + 1)
    if where is None:
        text = P.src("src/indexer/index_writer.rs")
        m = re.search(r"pub fn commit_opstamp\(&self\) -> Opstamp \{\s*self\.committed_opstamp", text)
        if not m:
            P.broken.append({"pin": "WRITER_COMMIT_STORES_OPSTAMP", "file": "src/indexer/index_writer.rs",
                             "why": "commit_opstamp() no longer returns self.committed_opstamp"})
            return
        where = ("src/indexer/index_writer.rs", text.count("\n", 0, m.start()) + 1)
    P.items.append(("WRITER_COMMIT_STORES_OPSTAMP", "N", 1 if total > 0 else 0, where[0], where[1]))
    # delete_all_documents reverts the stamper to committed_opstamp (F2): modelled literally; pin the call
    P.int_const("WRITER_MAX_NUM_THREAD", "src/indexer/index_writer.rs", r"pub const MAX_NUM_THREAD: usize = ([^;]+);", "usize")

    # compute_deleted_bitset: `if delete_op.opstamp >= target_opstamp { break; }` -- 1 for `>=` (a target stamped n covers
    # the operations stamped below n; fix of F50/F021), 0 for the former `>`.  Writer.v models `>=`;
    # WriterObs.v: delete_break_pinned fails to compile when the comparison changes.
    text = P.src("src/indexer/index_writer.rs")
    m = re.search(r"if delete_op\.opstamp (>=|>) target_opstamp \{\s*break;", text or "")
    if not m:
        P.broken.append({"pin": "WRITER_DELETE_BREAK_AT_TARGET", "file": "src/indexer/index_writer.rs", "why": "comparison of compute_deleted_bitset not found"})
    else:
        P.items.append(("WRITER_DELETE_BREAK_AT_TARGET", "N", 1 if m.group(1) == ">=" else 0, "src/indexer/index_writer.rs", text.count("\n", 0, m.start()) + 1))

    # SegmentUpdater::save_metas: the whole body is guarded by `if self.is_alive() {` (a task of a killed updater must not
    # rewrite meta.json: Writer.v save_metas_guarded / event EStaleSave; WriterObs.v save_metas_guard_pinned)
    text = P.src("src/indexer/segment_updater.rs")
    m = re.search(r"pub fn save_metas\(\s*&self,[^{]*\{\s*(?:let _\w+ = self\s*\.save_metas_lock\s*\.lock\(\)[^;]*;\s*)?(if self\.is_alive\(\) \{)?", text or "")
    if not m:
        P.broken.append({"pin": "WRITER_SAVE_METAS_GUARDED", "file": "src/indexer/segment_updater.rs", "why": "SegmentUpdater::save_metas not found"})
    else:
        P.items.append(("WRITER_SAVE_METAS_GUARDED", "N", 1 if m.group(1) else 0, "src/indexer/segment_updater.rs", text.count("\n", 0, m.end()) + 1))
