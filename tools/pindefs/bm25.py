"""Pins of the BM25 ranking model (C12): src/query/bm25.rs constants, the arguments of
Bm25Weight::max_score, and the field-norm table (own name: pin names are global)."""


def collect(P):
    bm = "src/query/bm25.rs"
    P.rational("BM25_K1", bm, r"^const K1: Score = ([0-9_.]+(?:f32)?);")
    P.rational("BM25_B", bm, r"^const B: Score = ([0-9_.]+(?:f32)?);")
    # pub fn max_score(&self) -> Score { self.score(255u8, 2_013_265_944) }
    P.int_const("BM25_MAX_SCORE_FIELDNORM_ID", bm,
                r"pub fn max_score\(&self\) -> Score \{\s*self\.score\(([0-9_]+)u8, [0-9_]+\)")
    P.int_const("BM25_MAX_SCORE_TF", bm,
                r"pub fn max_score\(&self\) -> Score \{\s*self\.score\([0-9_]+u8, ([0-9_]+)\)")
    # size of the tf-component cache: `cache: [Score; 256]`
    P.int_const("BM25_TF_CACHE_LEN", bm, r"let mut cache: \[Score; (\d+)\] = \[0\.0; \d+\];")
    P.int_table("BM25_FIELD_NORMS_TABLE", "src/fieldnorm/code.rs",
                r"pub const FIELD_NORMS_TABLE: \[u32; 256\] = \[(.*?)\];")
