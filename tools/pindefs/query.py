"""Pins of the query engine (C03): the sign bit used by the order-preserving i64/f64 -> u64 mappings."""


def collect(P):
    P.int_const("C03_HIGHEST_BIT", "common/src/lib.rs", r"^const HIGHEST_BIT: u64 = ([^;]+);", "u64")
