"""Pins of the query engine (C03): the sign bit used by the order-preserving i64/f64 -> u64 mappings,
and the shape of the single-clause shortcut of BooleanWeight::scorer()."""


def collect(P):
    P.int_const("C03_HIGHEST_BIT", "common/src/lib.rs", r"^const HIGHEST_BIT: u64 = ([^;]+);", "u64")
    # 1 iff the one-clause shortcut of BooleanWeight::scorer() returns EmptyScorer when
    # minimum_number_should_match exceeds the number of should clauses (0 or 1) of that single clause
    P.flag("C03_SCORER_SINGLE_CLAUSE_CHECKS_MSM", "src/query/boolean_query/boolean_weight.rs",
           r"else if self\.weights\.len\(\) == 1 \{[^}]*?let num_should_clauses = usize::from\(occur == Occur::Should\);\s*"
           r"if occur == Occur::MustNot \|\| self\.minimum_number_should_match > num_should_clauses \{\s*"
           r"Ok\(Box::new\(EmptyScorer\)\)\s*\} else \{\s*weight\.scorer\(reader, boost\)")

    # ExistsWeight::scorer: below this number of non-empty columns the per-document ExistsDocSet is used,
    # from it on a bitset of the non-null documents of every column is precomputed
    P.int_const("C03_EXISTS_BITSET_MIN_COLUMNS", "src/query/exist_query.rs", r"if non_empty_columns\.len\(\) < (\d+) \{")
    # 1 iff the bitset loop inserts the non-null documents of Optional columns / of Multivalued columns
    P.flag("C03_EXISTS_BITSET_OPTIONAL", "src/query/exist_query.rs",
           r"let mut doc_bitset = BitSet::with_max_value\(max_doc\);.*?ColumnIndex::Optional\((\w+)\) (?:=>|= column\.column_index\(\)) \{\s*for doc in \1\.iter_non_null_docs\(\) \{\s*doc_bitset\.insert\(doc\);.*?BitSetDocSet::from\(doc_bitset\)")
    P.flag("C03_EXISTS_BITSET_MULTIVALUED", "src/query/exist_query.rs",
           r"let mut doc_bitset = BitSet::with_max_value\(max_doc\);.*?ColumnIndex::Multivalued\((\w+)\) (?:=>|= column\.column_index\(\)) \{\s*for doc in \1\.iter_non_null_docs\(\) \{\s*doc_bitset\.insert\(doc\);.*?BitSetDocSet::from\(doc_bitset\)")
