"""Pins of the query engine (C03): the sign bit used by the order-preserving i64/f64 -> u64 mappings,
and the shape of the single-clause shortcut of BooleanWeight::scorer()."""


def collect(P):
    P.int_const("C03_HIGHEST_BIT", "common/src/lib.rs", r"^const HIGHEST_BIT: u64 = ([^;]+);", "u64")
    # 1 iff the one-clause shortcut of BooleanWeight::scorer() returns EmptyScorer when
    # minimum_number_should_match exceeds the number of should clauses (0 or 1) of that single clause
    P.flag("C03_SCORER_SINGLE_CLAUSE_CHECKS_MSM", "src/query/boolean_query/boolean_weight.rs",
           r"else if self\.weights\.len\(\) == 1 \{[^}]*?let num_should_clauses = usize::from\(occur == Occur::Should\);\s*"
           r"if occur == Occur::MustNot \|\| self\.minimum_number_should_match > num_should_clauses \{\s*"
           r"Ok\(Box::new\(EmptyScorer\)\)\s*\} else \{\s*weight\.scorer\(reader, boost\)")
