"""Pins of the aggregation engine (C14).  Names are prefixed (pin names are global)."""


def collect(P):
    # buffered_sub_aggs.rs: the buffer of (bucket, doc) pairs handed to sub-aggregations is flushed every FLUSH_THRESHOLD docs
    P.int_const("AGG_FLUSH_THRESHOLD", "src/aggregation/buffered_sub_aggs.rs", r"const FLUSH_THRESHOLD: usize = ([^;]+);")
