"""Pins of the query grammar (C16): the character tables of query-grammar/src/query_grammar.rs
(SPECIAL_CHARS, ESCAPE_IN_WORD) as lists of code points.  Names are prefixed (pin names are global)."""
import re

_ESC = {"\\\\": 92, "\\'": 39, '\\"': 34, "\\n": 10, "\\t": 9, "\\r": 13, "\\0": 0}


def _char_table(P, name, rel, regex):
    text = P.src(rel)
    if text is None:
        P.broken.append({"pin": name, "file": rel, "why": "file missing"}); return
    m = re.search(regex, text, re.M | re.S)
    if not m:
        P.broken.append({"pin": name, "file": rel, "why": "pattern not found"}); return
    body = m.group(1)
    vals = []
    for lit in re.findall(r"'((?:\\.|[^'\\]))'", body):
        if lit in _ESC:
            vals.append(_ESC[lit])
        elif len(lit) == 1:
            vals.append(ord(lit))
        else:
            P.broken.append({"pin": name, "file": rel, "why": "unsupported char literal " + lit}); return
    rest = re.sub(r"'((?:\\.|[^'\\]))'", "", body)
    if re.sub(r"[\s,]", "", rest):
        P.broken.append({"pin": name, "file": rel, "why": "unexpected tokens in table: " + rest.strip()[:40]}); return
    P.items.append((name, "table", vals, rel, P._line(text, m.start(1))))


def collect(P):
    g = "query-grammar/src/query_grammar.rs"
    _char_table(P, "QG_SPECIAL_CHARS", g, r"const SPECIAL_CHARS: &\[char\] = &\[(.*?)\];")
    _char_table(P, "QG_ESCAPE_IN_WORD", g, r"const ESCAPE_IN_WORD: &\[char\] = &\[(.*?)\];")
    # shape of `literal`: does it turn an exists-leaf without field name into a parse error (map_res + Err)
    # instead of reaching UserInputLeaf::set_field(None) (expect -> panic)?   1 = rejects, 0 = old shape
    T = r"(?:(?!\nfn ).)*?"
    P.flag("QG_LITERAL_REJECTS_BARE_EXISTS", g,
           r"fn literal\(inp: &str\) -> IResult<&str, UserInputAst> \{" + T + r"map_res\(" + T +
           r"field_name\.is_none\(\) && matches!\(leaf, UserInputLeaf::Exists \{ \.\. \}\)" + T + r"return Err\(")
    # the `default` tokenizer of TokenizerManager::default(): SimpleTokenizer + RemoveLongFilter::limit(N) + LowerCaser;
    # RemoveLongFilter keeps a token iff `token.text.len() < limit` (flag = 1) -- used by the phrase model of C16
    P.int_const("QG_DEFAULT_TOKENIZER_LONG_LIMIT", "src/tokenizer/tokenizer_manager.rs",
                r'"default",\s*TextAnalyzer::builder\(SimpleTokenizer::default\(\)\)\s*\.filter\(RemoveLongFilter::limit\((\d+)\)\)')
    P.flag("QG_REMOVE_LONG_KEEPS_STRICTLY_SHORTER", "src/tokenizer/remove_long.rs",
           r"fn predicate\(&self, token: &Token\) -> bool \{\s*token\.text\.len\(\) < self\.token_length_limit\s*\}")
    # shape of rewrite_ast_clause: 1 = only a negation is hoisted out of a single-child group with its occur
    # (a single Should / Must child keeps the default occur of its position), 0 = the child is hoisted with any occur
    P.flag("QG_REWRITE_HOISTS_ONLY_NEGATION", g,
           r"fn rewrite_ast_clause\(input: &mut \(Option<Occur>, UserInputAst\)\) \{" + T +
           r"Some\(Occur::MustNot\) => \(occur, ast\)," + T + r"_ => \(None, ast\),")
