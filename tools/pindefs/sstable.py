"""Pins for the sstable engine (C15): constants of /repo/sstable/src read by coq/SSTable/*.v."""


def collect(P):
    # front coding (delta.rs)
    P.int_const("SST_FOUR_BIT_LIMITS", "sstable/src/delta.rs", r"^const FOUR_BIT_LIMITS: usize = ([^;]+);")
    P.int_const("SST_VINT_MODE", "sstable/src/delta.rs", r"^const VINT_MODE: u8 = ([^;]+);", "u8")
    P.int_const("SST_BLOCK_LEN", "sstable/src/delta.rs", r"^const BLOCK_LEN: usize = ([^;]+);")
    # the packed byte is `keep | add << SHIFT`, read back as `b & MASK`, `b >> SHIFT`
    P.int_const("SST_PACK_SHIFT_W", "sstable/src/delta.rs", r"let b = \(keep_len \| \(add_len << (\d+)\)\) as u8;")
    P.int_const("SST_PACK_MASK", "sstable/src/delta.rs", r"let keep = \(b & (0b[01]+)\) as usize;")
    P.int_const("SST_PACK_SHIFT_R", "sstable/src/delta.rs", r"let add = \(b >> (\d+)\) as usize;")
    # blocks above this many bytes are handed to zstd (delta.rs flush_block)
    P.int_const("SST_ZSTD_MIN_BLOCK", "sstable/src/delta.rs", r'cfg!\(feature = "zstd-compression"\) && block_len > (\d+)')
    # vint (vint.rs)
    P.int_const("SST_VINT_CONTINUE_BIT", "sstable/src/vint.rs", r"^const CONTINUE_BIT: u8 = ([^;]+);", "u8")
    P.int_const("SST_VINT_PAYLOAD_MASK", "sstable/src/vint.rs", r"let next_byte: u8 = \(val & (\d+)u64\) as u8;")
    P.int_const("SST_VINT_SHIFT", "sstable/src/vint.rs", r"val >>= (\d+);")
    # block index (index/v3.rs) and file format version (lib.rs)
    P.int_const("SST_STORE_BLOCK_LEN", "sstable/src/index/v3.rs", r"^const STORE_BLOCK_LEN: usize = ([^;]+);")
    P.int_const("SST_VERSION", "sstable/src/lib.rs", r"^const SSTABLE_VERSION: u32 = ([^;]+);", "u32")
    # --- code shapes (flags: 1 = the pattern is present) ---
    # Writer::insert_key ordering assertion: skipped only for the first key of a block, index accesses guarded
    # (shape after the F11 fix) ...
    P.flag("SST_ORDER_CHECK_BLOCK_START", "sstable/src/lib.rs",
           r"let first_key_of_the_block = self\.first_ordinal_of_the_block == self\.num_terms;.*?"
           r"\|\| first_key_of_the_block\s*\|\| \(keep_len < self\.previous_key\.len\(\)\s*&& keep_len < key\.len\(\)\s*"
           r"&& self\.previous_key\[keep_len\] < key\[keep_len\]\);")
    # ... or skipped whenever previous_key is empty, unguarded index accesses (shape with F11)
    P.flag("SST_ORDER_CHECK_PREV_EMPTY", "sstable/src/lib.rs",
           r"\|\| self\.previous_key\.is_empty\(\)\s*\|\| self\.previous_key\[keep_len\] < key\[keep_len\];")
    # Dictionary::file_slice_for_range: an end offset before the start offset selects nothing (after the F151 fix) ...
    P.flag("SST_RANGE_INVERTED_EMPTY", "sstable/src/dictionary.rs",
           r"if let \(Bound::Included\(start\), Bound::Excluded\(end\)\) = \(start_bound, end_bound\) \{\s*if end < start \{\s*"
           r"return FileSlice::empty\(\);\s*\}\s*\}\s*self\.sstable_slice\.slice\(\(start_bound, end_bound\)\)")
    # ... or the offsets go to FileSlice::slice unchecked (shape with F151)
    P.flag("SST_RANGE_SLICE_UNGUARDED", "sstable/src/dictionary.rs",
           r"\.unwrap_or\(Bound::Unbounded\);\s*self\.sstable_slice\.slice\(\(start_bound, end_bound\)\)")
