"""Pins of the DocSet engine (C13): buffer length of fill_buffer, block-bitset geometry, the
horizon of the buffered union, the dense/sparse threshold of Intersection::count_including_deleted.
TERMINATED is pinned here under its own name DOCSET_TERMINATED (pin names are global)."""
import re


def collect(P):
    rel = "src/docset.rs"
    # pub const TERMINATED: DocId = i32::MAX as u32;
    text = P.src(rel) or ""
    m = re.search(r"pub const TERMINATED: DocId = ([^;]+);", text)
    if m and m.group(1).strip() == "i32::MAX as u32":
        P.env["DOCSET_TERMINATED"] = 2 ** 31 - 1
        P.items.append(("DOCSET_TERMINATED", "u32", 2 ** 31 - 1, rel, text.count("\n", 0, m.start(1)) + 1))
    else:
        P.int_const("DOCSET_TERMINATED", rel, r"pub const TERMINATED: DocId = ([^;]+);", "u32")
    P.int_const("COLLECT_BLOCK_BUFFER_LEN", rel, r"pub const COLLECT_BLOCK_BUFFER_LEN: usize = ([^;]+);", "usize")
    P.int_const("BLOCK_NUM_TINYBITSETS", rel, r"pub const BLOCK_NUM_TINYBITSETS: usize = ([^;]+);", "usize")
    P.int_const("BLOCK_WINDOW", rel, r"pub const BLOCK_WINDOW: u32 = ([^;]+);", "u32")
    rel = "src/query/union/buffered_union.rs"
    P.int_const("UNION_HORIZON", rel, r"^const HORIZON: u32 = ([^;]+);", "u32")
    # HORIZON_NUM_TINYBITSETS = HORIZON as usize / 64 : pin the divisor (bits per TinySet bucket)
    P.int_const("UNION_BUCKET_BITS", rel, r"^const HORIZON_NUM_TINYBITSETS: usize = HORIZON as usize / ([^;]+);", "usize")
    P.int_const("INTERSECTION_DENSITY_THRESHOLD_INVERSE", "src/query/intersection.rs",
                r"const DENSITY_THRESHOLD_INVERSE: u32 = ([^;]+);", "u32")
    # shape of BufferedUnionScorer::seek_danger: does it answer `target <= self.doc` from the current document
    # (before the horizon test)?  1 = yes (fixed shape), 0 = old shape (F131)
    P.flag("UNION_DANGER_GUARDS_CURRENT_DOC", rel,
           r"fn seek_danger\(&mut self, target: DocId\) -> SeekDangerResult \{\s*if target >= TERMINATED \{\s*return SeekDangerResult::SeekLowerBound\(TERMINATED\);\s*\}"
           r"(?:\s*//[^\n]*)*\s*if target <= self\.doc \{\s*return if target == self\.doc \{\s*SeekDangerResult::Found\s*\} else \{\s*SeekDangerResult::SeekLowerBound\(self\.doc\)\s*\};\s*\}"
           r"\s*if self\.is_in_horizon\(target\)")
    # hit branch of seek_danger: are the children that missed re-synchronised on their own document when they sit at
    # or after the target (`if doc >= target { docset.seek(doc); }` over `self.docsets[..num_missed]`) before
    # `self.seek(target)`?  1 = yes (shape after the fix of F134), 0 = no
    P.flag("UNION_DANGER_RESYNCS_MISSED", rel,
           r"if is_hit \{(?:\s*//[^\n]*)*\s*for docset in &mut self\.docsets\[\.\.num_missed\] \{\s*let doc = docset\.doc\(\);\s*"
           r"if doc >= target \{\s*docset\.seek\(doc\);\s*\}\s*\}(?:\s*//[^\n]*)*\s*self\.seek\(target\);\s*SeekDangerResult::Found")
