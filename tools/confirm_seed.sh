#!/bin/bash
# confirm_seed.sh <Cxx> <m1|m2>  -- independent confirmation of a seeded change in ONE shared scratch
# worktree (/tmp/confirm-wt, at /repo's HEAD): the patch applies, the crate builds, the pre-existing suite
# passes with it, the demo fails with it and passes without.
pid=$1; m=$2
wt=/tmp/confirm-wt; out=/tmp/seed-$pid-out/$m
log=$out/confirm.log
export CARGO_NET_OFFLINE=true CARGO_PROFILE_DEV_DEBUG=0 CARGO_PROFILE_TEST_DEBUG=0
cd $wt || exit 2
git checkout -q -- . ; git clean -fdq tests sstable/tests columnar/tests 2>/dev/null
demo=$(ls $out/*.rs 2>/dev/null | head -1)
demoname=$(basename "$demo" .rs)
demodir=tests; pkgflag=""
if grep -q "sstable/tests" $out/meta.json 2>/dev/null; then demodir=sstable/tests; pkgflag="-p tantivy-sstable"; fi
mkdir -p $demodir; cp -f "$demo" $demodir/
{
echo "== confirm $pid $m  demo=$demoname  HEAD=$(git rev-parse --short HEAD)  $(date)"
git apply --check $out/patch.diff || { echo "RESULT patch_does_not_apply"; exit 1; }
git apply $out/patch.diff
echo "-- full suite with the change"
timeout 3000 cargo nextest run --workspace --offline --no-fail-fast 2>&1 | grep -E "^\s+(FAIL|Summary)|error(\[|:)" | sort -u | head -40
echo "-- demo with the change (expected to FAIL)"
timeout 1200 cargo test --offline $pkgflag --test $demoname 2>&1 | grep -E "^test result|^error|panicked" | head -5
git apply -R $out/patch.diff
echo "-- demo without the change (expected to pass)"
timeout 1200 cargo test --offline $pkgflag --test $demoname 2>&1 | grep -E "^test result|^error" | head -5
rm -f $demodir/$demoname.rs
git status --porcelain --untracked-files=no | head -3
echo "== done $(date)"
} > $log 2>&1
tail -14 $log
