#!/usr/bin/env python3
"""attach_confirm.py <Cxx> <mN> ... -- reads /tmp/seed-<Cxx>-out/<mN>/confirm.log (written by tools/confirm_seed.sh) and records the
confirmation in seeded/<Cxx>-<mN>/meta.json (confirmed_by_main) next to a copy of the log."""
import json, os, re, shutil, sys
V = os.path.dirname(os.path.dirname(os.path.abspath(__file__)))
args = sys.argv[1:]
for pid, m in zip(args[0::2], args[1::2]):
    log = "/tmp/seed-%s-out/%s/confirm.log" % (pid, m)
    d = os.path.join(V, "seeded", "%s-%s" % (pid, m))
    if not os.path.exists(log) or not os.path.isdir(d):
        print(pid, m, "missing log or dir"); continue
    t = open(log).read()
    shutil.copy(log, os.path.join(d, "confirm.log"))
    summ = re.search(r"Summary \[.*", t)
    fails = sorted(set(re.findall(r"^\s+FAIL \[[^\]]*\] (\S+ \S+)", t, re.M)))
    demo = re.search(r"demo=(\S+)", t).group(1)
    pre = [f for f in fails if demo not in f and "seed_c" not in f]
    parts = t.split("-- demo with the change")
    with_change = parts[1].split("-- demo without the change")[0] if len(parts) > 1 else ""
    without = t.split("-- demo without the change")[1] if "-- demo without the change" in t else ""
    meta = json.load(open(os.path.join(d, "meta.json")))
    meta["confirmed_by_main"] = {
        "where": "scratch worktree /tmp/confirm-wt at /repo HEAD %s (removed afterwards)" % (re.search(r"HEAD=(\S+)", t).group(1)),
        "ran": "git apply patch.diff; cargo nextest run --workspace --offline --no-fail-fast; cargo test --offline --test <demo> (with the change: fails; after git apply -R: passes)",
        "suite_with_change": summ.group(0).strip() if summ else None,
        "pre_existing_tests_failing_with_change": pre,
        "demo_fails_with_change": ("FAILED" in with_change) or ("panicked" in with_change) or ("error: test failed" in with_change),
        "demo_passes_without_change": "test result: ok" in without and "FAILED" not in without,
    }
    json.dump(meta, open(os.path.join(d, "meta.json"), "w"), indent=1)
    c = meta["confirmed_by_main"]
    print(pid, m, c["suite_with_change"], "pre-existing failing:", pre, "demo fails/passes:", c["demo_fails_with_change"], c["demo_passes_without_change"])
