//! NOT a seeded fault: this test FAILS on the UNCHANGED library (HEAD 1e07ec645).
//! A single TermQuery on a field indexed without term frequencies (STRING = IndexRecordOption::Basic)
//! goes TermWeight::for_each_pruning -> block_wand_single_scorer although such posting lists carry no
//! block-max metadata (SkipReader reports (fieldnorm_id 0, tf 0) => block_max_score == 0 for every full
//! 128-doc block). Once the top-K heap is full every full block is skipped, so a strictly better document
//! (shorter multi-valued field => higher score) located in a full block is never returned.
//! Run: copy to tests/ and `cargo test --offline --test head_defect_nofreq_single_term`.
use tantivy::collector::TopDocs;
use tantivy::merge_policy::NoMergePolicy;
use tantivy::query::{EnableScoring, Query, TermQuery};
use tantivy::schema::{IndexRecordOption, Schema, STRING};
use tantivy::{doc, DocAddress, DocId, DocSet, Index, IndexWriter, Score, Term, TERMINATED};

fn exhaustive(searcher: &tantivy::Searcher, query: &dyn Query) -> Vec<(Score, DocAddress)> {
    let weight = query.weight(EnableScoring::enabled_from_searcher(searcher)).unwrap();
    let mut hits = Vec::new();
    for (ord, reader) in searcher.segment_readers().iter().enumerate() {
        let mut scorer = weight.scorer(reader, 1.0).unwrap();
        let mut doc: DocId = scorer.doc();
        while doc != TERMINATED {
            hits.push((scorer.score(), DocAddress::new(ord as u32, doc)));
            doc = scorer.advance();
        }
    }
    hits.sort_by(|l, r| r.0.partial_cmp(&l.0).unwrap().then_with(|| l.1.cmp(&r.1)));
    hits
}

#[test]
fn nofreq_single_term_top_k() {
    let mut sb = Schema::builder();
    let tag = sb.add_text_field("tag", STRING);
    let index = Index::create_in_ram(sb.build());
    let mut writer: IndexWriter = index.writer_with_num_threads(1, 20_000_000).unwrap();
    writer.set_merge_policy(Box::new(NoMergePolicy));
    for d in 0..600u32 {
        if d < 200 || d >= 384 {
            // three values => fieldnorm 3 => lower score
            writer.add_document(doc!(tag => "x", tag => "w", tag => "v")).unwrap();
        } else {
            writer.add_document(doc!(tag => "x")).unwrap();
        }
    }
    writer.commit().unwrap();
    let searcher = index.reader().unwrap().searcher();
    let query = TermQuery::new(Term::from_field_text(tag, "x"), IndexRecordOption::Basic);
    let all = exhaustive(&searcher, &query);
    for k in [1usize, 3, 10] {
        let got = searcher.search(&query, &TopDocs::with_limit(k).order_by_score()).unwrap();
        // HEAD: k=1 returns (0.000753, doc 0) instead of (0.001092, doc 200)
        assert_eq!(got.as_slice(), &all[..k], "k={k}");
    }
}
