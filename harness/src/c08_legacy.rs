//! C08: fast field files in the LEGACY columnar format (v1, written by older versions of the library and
//! still supported for reading).  The only difference to the current format is the multivalued column
//! index: v1 stores one start offset per document (num_docs + 1 offsets, value-less documents repeat the
//! offset), v2 stores an optional index of the documents with values plus their start offsets.
//! `to_legacy_v1` re-encodes any file written by the current writer as a v1 file with the same content,
//! so that every generated table / segment can also be exercised in the legacy format.
use tantivy_columnar::column_index::open_column_index;
use tantivy_columnar::column_values::{serialize_u64_based_column_values, CodecType};
use tantivy_columnar::{ColumnIndex, ColumnType, ColumnarReader, Version};
use tantivy_common::OwnedBytes;
use tantivy_sstable::value::RangeValueWriter;
use tantivy_sstable::{Dictionary, RangeSSTable};

const MAGIC_BYTES: [u8; 4] = [2, 113, 119, 66];

/// [column index][column values][u32 column_index_num_bytes]  ->  same with a v1 multivalued index
fn convert_u64_like_column(bytes: &[u8], num_docs: u32) -> Result<(Vec<u8>, bool), String> {
    if bytes.len() < 4 { return Err("column too short".into()); }
    let n = bytes.len();
    let idx_len = u32::from_le_bytes(bytes[n - 4..].try_into().unwrap()) as usize;
    let (idx, values) = (&bytes[..idx_len], &bytes[idx_len..n - 4]);
    if idx.is_empty() || idx[0] != 2 { return Ok((bytes.to_vec(), false)); }          // not multivalued: identical in both formats
    let ci = open_column_index(OwnedBytes::new(idx.to_vec()), Version::V2).map_err(|e| e.to_string())?;
    let ColumnIndex::Multivalued(_) = &ci else { return Err("cardinality code 2 but not multivalued".into()); };
    // one start offset per document (+ the total)
    let mut starts: Vec<u32> = Vec::with_capacity(num_docs as usize + 1);
    let mut acc = 0u32;
    starts.push(0);
    for d in 0..num_docs { let r = ci.value_row_ids(d); acc += r.end - r.start; starts.push(acc); }
    let mut new_idx: Vec<u8> = vec![2u8];
    serialize_u64_based_column_values::<u32>(&&starts[..], &[CodecType::Bitpacked, CodecType::Linear], &mut new_idx).map_err(|e| e.to_string())?;
    let mut out = new_idx.clone();
    out.extend_from_slice(values);
    out.extend_from_slice(&(new_idx.len() as u32).to_le_bytes());
    Ok((out, true))
}

/// Re-encode a columnar file of the current format as a v1 file.  Returns the bytes and the number of
/// multivalued columns that were re-encoded.
pub fn to_legacy_v1(v2: &[u8]) -> Result<(Vec<u8>, usize), String> {
    let reader = ColumnarReader::open(v2.to_vec()).map_err(|e| e.to_string())?;
    let num_docs = reader.num_docs();
    let mut data: Vec<u8> = Vec::new();
    let mut sst: tantivy_sstable::Writer<Vec<u8>, RangeValueWriter> = Dictionary::<RangeSSTable>::builder(Vec::new()).map_err(|e| e.to_string())?;
    let mut n_multi = 0usize;
    for (name, handle) in reader.list_columns().map_err(|e| e.to_string())? {
        let bytes = handle.file_slice().read_bytes().map_err(|e| e.to_string())?;
        let bytes = bytes.as_slice();
        let ty = handle.column_type();
        let (col, was_multi) = match ty {
            ColumnType::Bytes | ColumnType::Str => {
                // [dictionary][term ordinal column][u32 dictionary_len]
                let n = bytes.len();
                let dict_len = u32::from_le_bytes(bytes[n - 4..].try_into().unwrap()) as usize;
                let (inner, m) = convert_u64_like_column(&bytes[dict_len..n - 4], num_docs)?;
                let mut out = bytes[..dict_len].to_vec();
                out.extend_from_slice(&inner);
                out.extend_from_slice(&(dict_len as u32).to_le_bytes());
                (out, m)
            }
            _ => convert_u64_like_column(bytes, num_docs)?,
        };
        if was_multi { n_multi += 1; }
        let start = data.len() as u64;
        data.extend_from_slice(&col);
        let mut key = name.into_bytes();
        key.push(0u8);                       // JSON_END_OF_PATH
        key.push(ty.to_code());
        sst.insert(&key, &(start..data.len() as u64)).map_err(|e| e.to_string())?;
    }
    let sst_bytes = sst.finish().map_err(|e| e.to_string())?;
    data.extend_from_slice(&sst_bytes);
    data.extend_from_slice(&(sst_bytes.len() as u64).to_le_bytes());
    data.extend_from_slice(&num_docs.to_le_bytes());
    data.extend_from_slice(&1u32.to_le_bytes());       // Version::V1
    data.extend_from_slice(&MAGIC_BYTES);
    Ok((data, n_multi))
}

/// the legacy file shipped with the repository (written by a genuinely old version), if present
pub fn shipped_legacy_file() -> Option<Vec<u8>> {
    std::fs::read("/repo/columnar/compat_tests_data/v1.columnar").ok()
}
