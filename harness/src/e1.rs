//! E1 (storage & protocol) shared harness code: operation histories on a real IndexWriter over a
//! VerifDirectory, conversion of the storage log to the events of coq/Storage/*.v, crash-image
//! materialisation (the persistence model of Crash.v re-implemented for bytes) and recovery of
//! an image by the real code.
use std::collections::{BTreeMap, BTreeSet, HashMap};

use serde_json::{json, Value};
use tantivy::collector::DocSetCollector;
use tantivy::indexer::{LogMergePolicy, NoMergePolicy};
use tantivy::query::AllQuery;
use tantivy::schema::{Field, Schema, FAST, INDEXED, STORED, STRING, TEXT};
use tantivy::{doc, Index, IndexSettings, IndexWriter, ReloadPolicy, TantivyDocument, Term};

use crate::guarded;
use crate::rng::Rng;
use crate::vdir::{Event, OpKind, VerifDirectory};

#[derive(Clone, Debug, PartialEq)]
pub enum Op {
    Add { id: u64, tag: u8, nwords: u8 },
    DelTerm(u8),
    Commit,
    Rollback,
    MergeAll,
    Reopen,
    Gc,
    WaitMerges,
    /// switch the writer's merge policy (0 = NoMergePolicy, 1 = eager LogMergePolicy)
    SetPolicy(u8),
    /// prepare_commit() (flushes the indexing workers: their segments are registered, merge policies run) then abort()
    PrepareAbort,
}

impl Op {
    pub fn to_json(&self) -> Value {
        match self {
            Op::Add { id, tag, nwords } => json!({"add": id, "tag": tag, "w": nwords}),
            Op::DelTerm(t) => json!({"del": t}),
            Op::Commit => json!("commit"),
            Op::Rollback => json!("rollback"),
            Op::MergeAll => json!("merge"),
            Op::Reopen => json!("reopen"),
            Op::Gc => json!("gc"),
            Op::WaitMerges => json!("wait_merges"),
            Op::SetPolicy(p) => json!({"set_policy": p}),
            Op::PrepareAbort => json!("prepare_commit_then_abort"),
        }
    }
}

#[derive(Clone, Debug)]
pub struct Cfg {
    pub threads: usize,
    /// 0 = NoMergePolicy, 1 = LogMergePolicy with tiny thresholds
    pub merge_policy: u8,
    /// stop the history at the first failed API call (used with permanent faults: everything after fails too)
    pub stop_on_error: bool,
    /// after a commit call failed and the writer was recovered, issue the operations since the last successful
    /// commit AGAIN (once): what an application does with a batch whose commit failed on a transient error
    pub replay_failed_commit: bool,
}

pub fn gen_history(rng: &mut Rng, len: usize, next_id: &mut u64) -> Vec<Op> {
    let mut ops = vec![];
    let mut since_commit = 0;
    for _ in 0..len {
        let r = rng.below(100);
        let op = if r < 50 {
            *next_id += 1;
            Op::Add { id: *next_id, tag: rng.below(5) as u8, nwords: rng.range(1, 6) as u8 }
        } else if r < 62 {
            Op::DelTerm(rng.below(5) as u8)
        } else if r < 80 {
            Op::Commit
        } else if r < 85 {
            Op::Rollback
        } else if r < 91 {
            Op::MergeAll
        } else if r < 94 {
            Op::Reopen
        } else if r < 97 {
            Op::Gc
        } else {
            Op::WaitMerges
        };
        if op == Op::Commit { since_commit = 0 } else { since_commit += 1 }
        ops.push(op);
        // directed patterns (harmless on correct code):
        //  * a deletes-only commit (the commit writes a .del file but no new segment)
        //  * uncommitted delete + add, then the workers are flushed WITHOUT a commit (wait_merging_threads /
        //    drop): merge policies run on committed segments while uncommitted deletes are queued
        let r2 = rng.below(100);
        if r2 < 6 { ops.push(Op::DelTerm(rng.below(5) as u8)); ops.push(Op::Commit); since_commit = 0; }
        else if r2 < 11 {
            ops.push(Op::DelTerm(rng.below(5) as u8));
            *next_id += 1;
            ops.push(Op::Add { id: *next_id, tag: rng.below(5) as u8, nwords: 2 });
            ops.push(if rng.chance(1, 2) { Op::WaitMerges } else { Op::MergeAll });
        }
        //  * several COMMITTED segments pile up under NoMergePolicy, then an eager merge policy is installed and the
        //    workers are flushed (wait_merging_threads / prepare_commit+abort / explicit merge) while deletes are queued
        //    but NOT committed: policy-triggered merges of committed segments must not bake those deletes in
        else if r2 < 15 {
            ops.push(Op::SetPolicy(0));
            let mut tags = vec![];
            for _ in 0..rng.range(2, 4) {
                *next_id += 1;
                let tag = rng.below(5) as u8;
                tags.push(tag);
                ops.push(Op::Add { id: *next_id, tag, nwords: 2 });
                *next_id += 1;
                ops.push(Op::Add { id: *next_id, tag: (tag + 1) % 5, nwords: 3 });
                ops.push(Op::Commit);
            }
            ops.push(Op::SetPolicy(1));
            ops.push(Op::DelTerm(tags[rng.below(tags.len() as u64) as usize]));
            *next_id += 1;
            ops.push(Op::Add { id: *next_id, tag: rng.below(5) as u8, nwords: 2 });
            ops.push(match rng.below(3) { 0 => Op::WaitMerges, 1 => Op::PrepareAbort, _ => Op::Rollback });
            since_commit = 1;
        }
        if since_commit > 9 { ops.push(Op::Commit); since_commit = 0; }
    }
    ops.push(Op::Commit);
    ops
}

pub struct Fields {
    pub id: Field,
    pub tag: Field,
    pub body: Field,
}

pub fn schema() -> (Schema, Fields) {
    let mut sb = Schema::builder();
    let id = sb.add_u64_field("id", FAST | INDEXED | STORED);
    let tag = sb.add_text_field("tag", STRING | STORED);
    let body = sb.add_text_field("body", TEXT);
    (sb.build(), Fields { id, tag, body })
}

#[derive(Clone, Debug)]
pub struct CommitRec {
    /// log length when the commit call was issued / when it returned
    pub call_seq: usize,
    pub ret_seq: usize,
    pub opstamp: u64,
    pub content: BTreeSet<u64>,
}

#[derive(Clone, Debug)]
pub struct ApiObs {
    pub op_index: usize,
    pub what: &'static str,
    pub ok: bool,
    pub err: String,
    pub log_seq: usize,
}

pub struct RunResult {
    pub index: Option<Index>,
    pub commits: Vec<CommitRec>,
    /// content a commit call that did NOT return Ok would have published (call_seq, content)
    pub attempted: Vec<(usize, BTreeSet<u64>)>,
    pub api: Vec<ApiObs>,
    pub panicked: Option<String>,
    pub committed: BTreeSet<u64>,
    /// directory state (files, managed list, files of meta.json) right after an explicit garbage collection that
    /// directly follows a returned commit, taken only when no merge can be running (NoMergePolicy; explicit merges
    /// are waited for): (op index, state)
    pub probes: Vec<(usize, (Vec<String>, Vec<String>, Vec<String>))>,
}

fn set_policy(w: &IndexWriter<TantivyDocument>, cfg: &Cfg) {
    if cfg.merge_policy == 0 {
        w.set_merge_policy(Box::new(NoMergePolicy));
    } else {
        let mut p = LogMergePolicy::default();
        p.set_min_num_segments(2);
        p.set_min_layer_size(1);
        w.set_merge_policy(Box::new(p));
    }
}

fn new_writer(index: &Index, cfg: &Cfg, policy: u8) -> tantivy::Result<IndexWriter<TantivyDocument>> {
    let w = index.writer_with_num_threads::<TantivyDocument>(cfg.threads, 15_000_000 * cfg.threads)?;
    set_policy(&w, &Cfg { merge_policy: policy, ..cfg.clone() });
    Ok(w)
}

/// Runs a history on a real writer over `vd`.  Storage faults (if armed on `vd`) surface as Err
/// results of the API calls; after a failed call the writer is dropped and re-opened
/// (`recover_by_rollback` = try rollback first).
pub fn run_history(vd: &VerifDirectory, ops: &[Op], cfg: &Cfg, recover_by_rollback: bool) -> RunResult {
    run_history_on(vd, None, ops, cfg, recover_by_rollback)
}

/// Same, on an index that already exists (`existing`), e.g. one that reader threads are watching.
pub fn run_history_on(vd: &VerifDirectory, existing: Option<Index>, ops: &[Op], cfg: &Cfg, recover_by_rollback: bool) -> RunResult {
    let (schema, f) = schema();
    let mut res = RunResult { index: None, commits: vec![], attempted: vec![], api: vec![], panicked: None, committed: BTreeSet::new(), probes: vec![] };
    let index = match existing {
        Some(ix) => ix,
        None => match guarded(|| Index::create(vd.clone(), schema.clone(), IndexSettings::default())) {
            Ok(Ok(ix)) => ix,
            Ok(Err(e)) => { res.api.push(ApiObs { op_index: 0, what: "create", ok: false, err: format!("{e}"), log_seq: vd.log_len() }); return res; }
            Err(p) => { res.panicked = Some(p); return res; }
        },
    };
    vd.mark("created");
    res.index = Some(index.clone());
    let mut writer: Option<IndexWriter<TantivyDocument>> = None;
    let mut tags: HashMap<u64, u8> = HashMap::new();
    let mut working: BTreeSet<u64> = BTreeSet::new();
    let mut committed: BTreeSet<u64> = BTreeSet::new();
    let mut policy = cfg.merge_policy;
    let mut always_no_merge = cfg.merge_policy == 0;

    macro_rules! obs {
        ($i:expr, $what:expr, $r:expr) => {{
            let ok = $r.is_ok();
            let err = match &$r { Ok(_) => String::new(), Err(e) => format!("{e}") };
            res.api.push(ApiObs { op_index: $i, what: $what, ok, err, log_seq: vd.log_len() });
            ok
        }};
    }

    let mut queue: std::collections::VecDeque<usize> = (0..ops.len()).collect();
    let mut last_ok_commit: Option<usize> = None;
    let mut replayed = false;
    while let Some(i) = queue.pop_front() {
        let op = &ops[i];
        if writer.is_none() {
            match guarded(|| new_writer(&index, cfg, policy)) {
                Ok(Ok(w)) => { writer = Some(w); }
                Ok(Err(e)) => { res.api.push(ApiObs { op_index: i, what: "writer", ok: false, err: format!("{e}"), log_seq: vd.log_len() }); continue; }
                Err(p) => { res.panicked = Some(p); break; }
            }
            // a fresh writer starts from the committed state
            working = committed.clone();
        }
        let mut failed = false;
        let r = guarded(|| {
            let w = writer.as_mut().unwrap();
            match op {
                Op::Add { id, tag, nwords } => {
                    let words: Vec<String> = (0..*nwords).map(|k| format!("w{}", (id + k as u64) % 17)).collect();
                    let r = w.add_document(doc!(f.id => *id, f.tag => format!("t{tag}"), f.body => words.join(" ")));
                    if obs!(i, "add", r) { working.insert(*id); tags.insert(*id, *tag); } else { failed = true; }
                }
                Op::DelTerm(t) => {
                    w.delete_term(Term::from_field_text(f.tag, &format!("t{t}")));
                    working.retain(|id| tags.get(id) != Some(t));
                }
                Op::Commit => {
                    vd.mark("commit_call");
                    let call_seq = vd.log_len();
                    let r = w.commit();
                    if let Ok(opstamp) = &r {
                        vd.mark(&format!("commit_ret:{opstamp}"));
                        committed = working.clone();
                        last_ok_commit = Some(i);
                        res.commits.push(CommitRec { call_seq, ret_seq: vd.log_len(), opstamp: *opstamp, content: committed.clone() });
                    } else {
                        res.attempted.push((call_seq, working.clone()));
                        failed = true;
                    }
                    obs!(i, "commit", r);
                }
                Op::Rollback => {
                    let r = w.rollback();
                    if obs!(i, "rollback", r) {
                        working = committed.clone();
                        // rollback() rebuilds the writer with the DEFAULT merge policy: install the history's policy again
                        set_policy(w, &Cfg { merge_policy: policy, ..cfg.clone() });
                    } else { failed = true; }
                }
                Op::MergeAll => {
                    let ids_r = index.searchable_segment_ids();
                    let ids = match ids_r { Ok(v) => v, Err(e) => { let r: tantivy::Result<()> = Err(e); obs!(i, "list_segments", r); vec![] } };
                    if ids.len() >= 2 {
                        vd.mark("merge_call");
                        let r = w.merge(&ids).wait();
                        obs!(i, "merge", r);
                        vd.mark("merge_ret");
                    }
                }
                Op::Gc => {
                    let r = w.garbage_collect_files().wait();
                    let ok = obs!(i, "gc", r);
                    if ok && always_no_merge && i > 0 && ops[i - 1] == Op::Commit && res.api.iter().rev().nth(1).map(|a| a.what == "commit" && a.ok && a.op_index == i - 1).unwrap_or(false) {
                        // (a writer dropped earlier in the history may still be tearing down its updater: repeat the
                        //  collection a few times before the caller calls a file an orphan)
                        let mut st = dir_state(vd);
                        let mut retries = 0;
                        while retries < 5 && st.0.iter().any(|f| !st.2.contains(f)) {
                            std::thread::sleep(std::time::Duration::from_millis(120));
                            let _ = w.garbage_collect_files().wait();
                            st = dir_state(vd);
                            retries += 1;
                        }
                        res.probes.push((i, st));
                    }
                }
                Op::SetPolicy(p) => {
                    policy = *p;
                    if *p != 0 { always_no_merge = false; }
                    set_policy(w, &Cfg { merge_policy: *p, ..cfg.clone() });
                }
                Op::PrepareAbort => {
                    // abort() is a rollback: the writer goes back to the last commit
                    let r = w.prepare_commit().and_then(|pc| pc.abort());
                    if obs!(i, "prepare_commit_abort", r) { working = committed.clone(); set_policy(w, &Cfg { merge_policy: policy, ..cfg.clone() }); } else { failed = true; }
                }
                Op::Reopen | Op::WaitMerges => {}
            }
        });
        if let Err(p) = r { res.panicked = Some(format!("op {i} {op:?}: {p}")); break; }
        match op {
            Op::Reopen => { drop(writer.take()); vd.mark("writer_dropped"); }
            Op::WaitMerges => {
                if let Some(w) = writer.take() {
                    let r = guarded(|| w.wait_merging_threads());
                    match r { Ok(r) => { obs!(i, "wait_merges", r); } Err(p) => { res.panicked = Some(p); break; } }
                    vd.mark("writer_dropped");
                }
            }
            _ => {}
        }
        if failed {
            // the failed writer is rolled back or dropped; a new one continues from the last commit
            if recover_by_rollback {
                if let Some(w) = writer.as_mut() {
                    let r = guarded(|| w.rollback());
                    match r {
                        Ok(r) => { if !obs!(i, "rollback_after_error", r) { drop(writer.take()); } else { set_policy(w, &Cfg { merge_policy: policy, ..cfg.clone() }); } }
                        Err(p) => { res.panicked = Some(format!("rollback after error: {p}")); break; }
                    }
                }
            } else {
                drop(writer.take());
            }
            vd.mark("recovered");
            let mut published_anyway = false;
            // A commit that reported an error may or may not have been published (the error can strike after
            // the atomic replace of meta.json, e.g. in the directory sync that makes it durable): like after a
            // crash, the state is the previous commit OR the attempted one. Continue from what is really there.
            if let Some((_, attempted)) = res.attempted.last() {
                if matches!(op, Op::Commit) {
                    if let Ok(now) = read_ids(&index) {
                        if &now == attempted && now != committed {
                            published_anyway = true;
                            committed = now;
                            res.commits.push(CommitRec { call_seq: vd.log_len(), ret_seq: vd.log_len(), opstamp: u64::MAX, content: committed.clone() });
                        }
                    }
                }
            }
            working = committed.clone();
            if cfg.stop_on_error { break; }
            // (a failed commit that turns out to be published must not be issued again: its documents are in)
            if cfg.replay_failed_commit && matches!(op, Op::Commit) && !replayed && !published_anyway {
                replayed = true;
                vd.mark("replaying_failed_batch");
                let start = last_ok_commit.map(|x| x + 1).unwrap_or(0);
                for j in (start..=i).rev() { queue.push_front(j); }
            }
        }
    }
    if let Some(w) = writer.take() {
        let _ = guarded(|| w.wait_merging_threads());
        vd.mark("writer_dropped");
    }
    res.committed = committed;
    res
}

/// ids of the live documents of a freshly loaded searcher (through the `id` fast field)
pub fn read_ids(index: &Index) -> Result<BTreeSet<u64>, String> {
    let r = guarded(|| -> tantivy::Result<tantivy::Searcher> {
        let reader = index.reader_builder().reload_policy(ReloadPolicy::Manual).try_into()?;
        Ok(reader.searcher())
    });
    match r { Ok(Ok(s)) => searcher_ids(&s), Ok(Err(e)) => Err(format!("{e}")), Err(p) => Err(format!("panic: {p}")) }
}

/// ids of the live documents a searcher sees (fast field `id`), cross-checked with an AllQuery
pub fn searcher_ids(searcher: &tantivy::Searcher) -> Result<BTreeSet<u64>, String> {
    let r = guarded(|| -> tantivy::Result<BTreeSet<u64>> {
        let mut out = BTreeSet::new();
        let mut n = 0usize;
        for sr in searcher.segment_readers() {
            let col = sr.fast_fields().u64("id")?;
            for d in sr.doc_ids_alive() {
                n += 1;
                if let Some(v) = col.first(d) { out.insert(v); }
            }
        }
        let hits = searcher.search(&AllQuery, &DocSetCollector)?;
        if hits.len() != n || out.len() != n {
            return Err(tantivy::TantivyError::InternalError(format!("duplicate or missing ids: alive={} distinct={} allquery={}", n, out.len(), hits.len())));
        }
        Ok(out)
    });
    match r { Ok(Ok(s)) => Ok(s), Ok(Err(e)) => Err(format!("{e}")), Err(p) => Err(format!("panic: {p}")) }
}

// ------------------------------------------------------------------ events for Coq
#[derive(Clone, Debug, PartialEq)]
pub enum Ev {
    Create(u64),
    Terminate(u64),
    MetaWrite(Vec<u64>, u64),
    Delete(u64),
    SyncDir,
    CommitRet(u64),
}

pub struct PathIds {
    pub map: BTreeMap<String, u64>,
}
impl PathIds {
    pub fn new() -> PathIds { PathIds { map: BTreeMap::new() } }
    pub fn id(&mut self, p: &str) -> u64 {
        let n = self.map.len() as u64 + 10;
        *self.map.entry(p.to_string()).or_insert(n)
    }
}

const EXTS: [&str; 6] = [".idx", ".pos", ".term", ".store", ".fast", ".fieldnorm"];

/// files a meta.json references (segment components + delete file), parsed from its bytes
pub fn meta_files(meta: &[u8]) -> Option<(Vec<String>, u64)> {
    let v: Value = serde_json::from_slice(meta).ok()?;
    let mut out = vec![];
    for s in v.get("segments")?.as_array()? {
        let id = s.get("segment_id")?.as_str()?.replace('-', "");
        for e in EXTS { out.push(format!("{id}{e}")); }
        if let Some(d) = s.get("deletes") {
            if !d.is_null() { out.push(format!("{id}.{}.del", d.get("opstamp")?.as_u64()?)); }
        }
    }
    out.sort();
    Some((out, v.get("opstamp")?.as_u64()?))
}

/// storage log -> events of Crash.v (successful operations only; lock files are ordinary files)
pub fn to_events(log: &[Event], ids: &mut PathIds) -> (Vec<Ev>, Vec<usize>) {
    let mut evs = vec![];
    let mut seqs = vec![];
    for e in log {
        if e.result != "Ok" { continue; }
        let ev = match e.kind {
            OpKind::Create => Some(Ev::Create(ids.id(&e.path))),
            OpKind::Terminate => Some(Ev::Terminate(ids.id(&e.path))),
            OpKind::Delete => Some(Ev::Delete(ids.id(&e.path))),
            OpKind::SyncDir => Some(Ev::SyncDir),
            OpKind::AtomicWrite if e.path == "meta.json" => {
                let (files, opstamp) = meta_files(&e.data).unwrap_or_else(|| (vec!["<unparsable meta.json>".to_string()], u64::MAX));
                Some(Ev::MetaWrite(files.iter().map(|f| ids.id(f)).collect(), opstamp))
            }
            OpKind::Marker if e.path.starts_with("commit_ret:") => Some(Ev::CommitRet(e.path[11..].parse().unwrap_or(u64::MAX))),
            _ => None,
        };
        if let Some(ev) = ev { evs.push(ev); seqs.push(e.seq); }
    }
    (evs, seqs)
}

/// storage log -> events of WriteOnce.v: creations, appends (bytes accepted) and terminations of stream files.
/// Consecutive appends to one file are summed (the model's state is per file, so this only shortens the trace).
pub fn to_wevents(log: &[Event], ids: &mut PathIds) -> Vec<String> {
    #[derive(Clone)]
    enum W { Open(u64), Append(u64, u64), Term(u64) }
    let mut out: Vec<W> = vec![];
    let mut last_append: HashMap<u64, usize> = HashMap::new(); // path -> index in `out` of its trailing append
    for e in log {
        // lock files and the like (dot files) are created and deleted over and over: not index data
        if e.path.starts_with('.') { continue; }
        match e.kind {
            OpKind::Create if e.result == "Ok" => { let p = ids.id(&e.path); last_append.remove(&p); out.push(W::Open(p)); }
            OpKind::Write => {
                let n = e.accepted as u64;
                if n == 0 { continue; }
                let p = ids.id(&e.path);
                match last_append.get(&p) {
                    Some(i) => { if let W::Append(_, m) = &mut out[*i] { *m += n; } }
                    None => { last_append.insert(p, out.len()); out.push(W::Append(p, n)); }
                }
            }
            OpKind::Terminate if e.result == "Ok" => { let p = ids.id(&e.path); last_append.remove(&p); out.push(W::Term(p)); }
            _ => {}
        }
    }
    out.iter().map(|w| match w { W::Open(p) => format!("WOpen {p}"), W::Append(p, n) => format!("WAppend {p} {n}"), W::Term(p) => format!("WTerm {p}") }).collect()
}

pub fn ev_term(e: &Ev) -> String {
    match e {
        Ev::Create(p) => format!("ECreate {p}"),
        Ev::Terminate(p) => format!("ETerminate {p}"),
        Ev::MetaWrite(fs, o) => format!("EMetaWrite {} {}", crate::coqfmt::ns(fs), o),
        Ev::Delete(p) => format!("EDelete {p}"),
        Ev::SyncDir => "ESyncDir".into(),
        Ev::CommitRet(o) => format!("ECommitRet {o}"),
    }
}
/// Gallina term of the state a process starts in on a crash image (Crash.v `from_image`): the non-dot files present,
/// those of them that are complete, and the generation its meta.json holds.  None if the image has no readable meta.json.
pub fn from_image_term(img: &BTreeMap<String, Vec<u8>>, complete: &BTreeSet<String>, ids: &mut PathIds) -> Option<String> {
    let (mfiles, opstamp) = meta_files(img.get("meta.json")?)?;
    let files: Vec<u64> = img.keys().filter(|n| !n.starts_with('.') && *n != "meta.json").map(|n| ids.id(n)).collect();
    let compl: Vec<u64> = img.keys().filter(|n| !n.starts_with('.') && complete.contains(*n)).map(|n| ids.id(n)).collect();
    // a meta.json may name a <segment>.0.del-style file that never existed: only what exists counts (see dir_state)
    let mf: Vec<u64> = mfiles.iter().filter(|f| !f.ends_with(".0.del") || img.contains_key(*f)).map(|f| ids.id(f)).collect();
    Some(format!("(from_image {} {} {} {})", crate::coqfmt::ns(&files), crate::coqfmt::ns(&compl), crate::coqfmt::ns(&mf), opstamp))
}

pub fn trace_term(evs: &[Ev]) -> String {
    crate::coqfmt::list(evs, ev_term)
}

// ------------------------------------------------------------------ crash images
#[derive(Clone, Debug)]
enum DirOp {
    Link(String),
    Unlink(String),
    SetAtomic(String, Vec<u8>),
}

/// The persistence model of Crash.v over real bytes: state after the first `k` log entries.
pub struct CrashSim {
    base: BTreeMap<String, Option<Vec<u8>>>, // name -> Some(bytes) for atomic files, None for stream files
    pend: Vec<DirOp>,
    written: HashMap<String, Vec<u8>>,       // bytes accepted so far per stream file
    synced: HashMap<String, usize>,          // stream file -> number of its bytes that were fsynced (length at its last terminate)
}

impl CrashSim {
    pub fn at(log: &[Event], k: usize) -> CrashSim {
        let mut s = CrashSim { base: BTreeMap::new(), pend: vec![], written: HashMap::new(), synced: HashMap::new() };
        for e in log.iter().take(k) {
            match e.kind {
                OpKind::Write => { s.written.entry(e.path.clone()).or_default().extend_from_slice(&e.data[..e.accepted.min(e.data.len())]); }
                _ if e.result != "Ok" => {}
                OpKind::Create => { s.pend.push(DirOp::Link(e.path.clone())); s.written.insert(e.path.clone(), vec![]); }
                OpKind::Terminate => { let n = s.written.get(&e.path).map(|w| w.len()).unwrap_or(0); s.synced.insert(e.path.clone(), n); }
                OpKind::Delete => s.pend.push(DirOp::Unlink(e.path.clone())),
                OpKind::AtomicWrite => s.pend.push(DirOp::SetAtomic(e.path.clone(), e.data.clone())),
                OpKind::SyncDir => { let p = std::mem::take(&mut s.pend); for o in p { Self::apply(&mut s.base, &o); } }
                _ => {}
            }
        }
        s
    }
    fn apply(ns: &mut BTreeMap<String, Option<Vec<u8>>>, o: &DirOp) {
        match o {
            DirOp::Link(p) => { ns.insert(p.clone(), None); }
            DirOp::Unlink(p) => { ns.remove(p); }
            DirOp::SetAtomic(p, b) => { ns.insert(p.clone(), Some(b.clone())); }
        }
    }
    pub fn num_pending(&self) -> usize { self.pend.len() }
    /// stream files whose every byte was fsynced (terminated, nothing appended afterwards)
    pub fn complete_files(&self) -> BTreeSet<String> {
        self.written.iter().filter(|(n, w)| self.synced.get(*n) == Some(&w.len())).map(|(n, _)| n.clone()).collect()
    }
    /// kind of each pending directory operation: 'L'ink, 'U'nlink, 'A'tomic replace
    pub fn pending_kinds(&self) -> Vec<char> {
        self.pend.iter().map(|o| match o { DirOp::Link(_) => 'L', DirOp::Unlink(_) => 'U', DirOp::SetAtomic(..) => 'A' }).collect()
    }
    /// crash outcome: keep the pending operations selected by `keep` (a subsequence); files whose
    /// data was not fsynced keep a prefix chosen by `rng`.
    pub fn image(&self, keep: &[bool], rng: &mut Rng) -> BTreeMap<String, Vec<u8>> {
        let mut ns = self.base.clone();
        for (o, k) in self.pend.iter().zip(keep) { if *k { Self::apply(&mut ns, o); } }
        let mut out = BTreeMap::new();
        for (name, c) in ns {
            let bytes = match c {
                Some(b) => b,
                None => {
                    let w = self.written.get(&name).cloned().unwrap_or_default();
                    // bytes up to the last fsync are durable; of the rest any prefix may have reached the disk
                    // (half of the time: nothing of it)
                    let durable = self.synced.get(&name).copied().unwrap_or(0).min(w.len());
                    let cut = if durable == w.len() || rng.chance(1, 2) { durable } else { durable + rng.below((w.len() - durable) as u64 + 1) as usize };
                    w[..cut].to_vec()
                }
            };
            if name.starts_with(".tantivy-") { continue; } // lock files do not survive a process crash as locks
            out.insert(name, bytes);
        }
        out
    }
}

pub struct Recovery {
    pub opened: bool,
    pub error: String,
    pub ids: Option<BTreeSet<u64>>,
    pub checksum_clean: bool,
    pub resumed: bool,
    pub resume_error: String,
    /// directory state after the resume (commit + GC + writer dropped): non-dot files, managed list, files of meta.json
    pub files_after: Vec<String>,
    pub managed_after: Vec<String>,
    pub living_after: Vec<String>,
    /// storage log of the recovering process (Index::open, reader, new writer, commit, collection)
    pub log: Vec<Event>,
}

/// Opens an image with the real code: Index::open, validate_checksum, full read of the ids,
/// then a new writer + add + commit + garbage collection + read-back.
pub fn recover(img: &BTreeMap<String, Vec<u8>>) -> Recovery {
    let vd = VerifDirectory::from_files(img);
    let mut r = Recovery { opened: false, error: String::new(), ids: None, checksum_clean: false, resumed: false, resume_error: String::new(), files_after: vec![], managed_after: vec![], living_after: vec![], log: vec![] };
    let index = match guarded(|| Index::open(vd.clone())) {
        Ok(Ok(ix)) => ix,
        Ok(Err(e)) => { r.error = format!("{e}"); return r; }
        Err(p) => { r.error = format!("panic: {p}"); return r; }
    };
    r.opened = true;
    match guarded(|| index.validate_checksum()) {
        Ok(Ok(s)) => { r.checksum_clean = s.is_empty(); if !s.is_empty() { r.error = format!("damaged files {s:?}"); } }
        Ok(Err(e)) => { r.error = format!("validate_checksum: {e}"); }
        Err(p) => { r.error = format!("validate_checksum panic: {p}"); }
    }
    match read_ids(&index) {
        Ok(ids) => r.ids = Some(ids),
        Err(e) => { r.error = format!("read: {e}"); return r; }
    }
    let (_s, f) = schema();
    let before = r.ids.clone().unwrap();
    let rr = guarded(|| -> tantivy::Result<()> {
        let mut w = index.writer_with_num_threads::<TantivyDocument>(1, 15_000_000)?;
        w.add_document(doc!(f.id => 999_999_999u64, f.tag => "tz", f.body => "resume"))?;
        w.commit()?;
        w.garbage_collect_files().wait()?;
        w.wait_merging_threads()?;
        Ok(())
    });
    match rr {
        Ok(Ok(())) => {
            match read_ids(&index) {
                Ok(after) => {
                    let mut expect = before.clone();
                    expect.insert(999_999_999);
                    if after == expect { r.resumed = true } else { r.resume_error = format!("content after resume differs: {} vs {}", after.len(), expect.len()); }
                }
                Err(e) => r.resume_error = format!("read after resume: {e}"),
            }
        }
        Ok(Err(e)) => r.resume_error = format!("{e}"),
        Err(p) => r.resume_error = format!("panic: {p}"),
    }
    let (f, m, l) = dir_state(&vd);
    r.files_after = f; r.managed_after = m; r.living_after = l;
    r.log = vd.log();
    r
}

/// (non-dot files present, persisted managed list, files meta.json references + meta.json)
pub fn dir_state(vd: &VerifDirectory) -> (Vec<String>, Vec<String>, Vec<String>) {
    let files: Vec<String> = vd.file_names().into_iter().filter(|n| !n.starts_with('.')).collect();
    let managed = vd.raw(".managed.json").map(|b| managed_list(&b)).unwrap_or_default();
    let mut living = vd.raw("meta.json").and_then(|b| meta_files(&b)).map(|x| x.0).unwrap_or_default();
    living.retain(|f| !f.ends_with(".0.del") || vd.raw(f).is_some());
    living.push("meta.json".to_string());
    living.sort();
    (files, managed, living)
}

pub fn managed_list(bytes: &[u8]) -> Vec<String> {
    let v: Value = serde_json::from_slice(bytes).unwrap_or(Value::Null);
    let mut out: Vec<String> = v.as_array().map(|a| a.iter().filter_map(|x| x.as_str().map(|s| s.to_string())).collect()).unwrap_or_default();
    out.sort();
    out
}


// ------------------------------------------------------------------ directed: meta.json replace fails, then GC
pub struct MetaFailure {
    pub variant: &'static str,
    /// documents of the last commit that returned Ok
    pub committed: BTreeSet<u64>,
    /// documents the failed operation would have published (same set for a merge)
    pub attempted: BTreeSet<u64>,
    pub failed_call_reported_error: bool,
    pub faults_fired: usize,
    /// recovery of the directory as it is right after the same writer's garbage collection (writer still alive), and after the writer was dropped
    pub after_gc: Recovery,
    pub after_drop: Recovery,
    pub log: Vec<Event>,
    pub panicked: Option<String>,
}

/// One I/O error exactly at the atomic replace of meta.json -- at the end of a merge of committed segments ("merge")
/// or in a commit whose deletes empty a whole segment ("commit") -- followed by a garbage collection of the SAME writer.
/// The failed call must report the error, and the storage must still hold the last successful commit, complete.
pub fn meta_write_failure_then_gc(variant: &'static str) -> MetaFailure {
    let vd = VerifDirectory::new();
    let (schema, f) = schema();
    let mut committed = BTreeSet::new();
    let mut attempted = BTreeSet::new();
    let mut reported = false;
    let mut panicked = None;
    let mut after_gc = None;
    let r = guarded(|| -> tantivy::Result<()> {
        let index = Index::create(vd.clone(), schema.clone(), IndexSettings::default())?;
        let mut w: IndexWriter<TantivyDocument> = index.writer_with_num_threads(1, 15_000_000)?;
        w.set_merge_policy(Box::new(NoMergePolicy));
        w.add_document(doc!(f.id => 1u64, f.tag => "t0", f.body => "a b"))?;
        w.add_document(doc!(f.id => 2u64, f.tag => "t0", f.body => "b c"))?;
        w.commit()?;
        w.add_document(doc!(f.id => 3u64, f.tag => "t1", f.body => "c d"))?;
        w.add_document(doc!(f.id => 4u64, f.tag => "t1", f.body => "d e"))?;
        w.commit()?;
        committed = [1u64, 2, 3, 4].into_iter().collect();
        vd.mark("armed");
        vd.set_fault_once(OpKind::AtomicWrite, "meta.json");
        if variant == "merge" {
            attempted = committed.clone();
            let ids = index.searchable_segment_ids()?;
            reported = w.merge(&ids).wait().is_err();
        } else {
            attempted = [3u64, 4].into_iter().collect();
            w.delete_term(Term::from_field_text(f.tag, "t0"));
            reported = w.commit().is_err();
        }
        let _ = w.garbage_collect_files().wait();
        vd.mark("collected");
        let img: BTreeMap<String, Vec<u8>> = vd.files().into_iter().filter(|(n, _)| !n.starts_with(".tantivy-")).collect();
        after_gc = Some(recover(&img));
        drop(w);
        Ok(())
    });
    match r { Ok(Ok(())) => {}, Ok(Err(e)) => panicked = Some(format!("scenario error: {e}")), Err(p) => panicked = Some(p) }
    let faults_fired = vd.faults_fired();
    let img: BTreeMap<String, Vec<u8>> = vd.files().into_iter().filter(|(n, _)| !n.starts_with(".tantivy-")).collect();
    let after_drop = recover(&img);
    let empty = || Recovery { opened: false, error: "scenario did not get that far".into(), ids: None, checksum_clean: false, resumed: false, resume_error: String::new(), files_after: vec![], managed_after: vec![], living_after: vec![], log: vec![] };
    MetaFailure { variant, committed, attempted, failed_call_reported_error: reported, faults_fired, after_gc: after_gc.unwrap_or_else(empty), after_drop, log: vd.log(), panicked }
}

/// spec of `meta_write_failure_then_gc`, as (ok, description) pairs
pub fn meta_failure_verdicts(m: &MetaFailure) -> Vec<(bool, Value)> {
    let mut v = vec![];
    let d = json!({"directed": format!("two commits, then ONE I/O error at the replace of meta.json in a {} , then garbage_collect_files() on the same writer", if m.variant == "merge" { "merge of the committed segments" } else { "commit whose delete empties a segment" })});
    if let Some(p) = &m.panicked { v.push((false, json!({"what": "directed meta.json-failure scenario panicked / failed unexpectedly", "err": p, "case": d}))); return v; }
    if m.faults_fired != 1 { v.push((false, json!({"what": "directed meta.json-failure scenario: the fault did not fire exactly once", "fired": m.faults_fired, "case": d}))); return v; }
    v.push((m.failed_call_reported_error, json!({"what": "an I/O error at the replace of meta.json was not reported by the merge / commit call", "case": d})));
    for (when, rec) in [("right after the writer's garbage collection", &m.after_gc), ("after the writer was dropped", &m.after_drop)] {
        let ok_open = rec.opened && rec.checksum_clean;
        v.push((ok_open, json!({"what": "after a failed replace of meta.json and a garbage collection the index on storage cannot be opened / has a damaged or missing file", "when": when, "err": rec.error, "case": d})));
        if let Some(ids) = &rec.ids {
            v.push((ids == &m.committed || ids == &m.attempted, json!({"what": "after a failed replace of meta.json the storage does not hold the last successful commit", "when": when, "got": ids, "last_commit": m.committed, "case": d})));
        } else if ok_open {
            v.push((false, json!({"what": "after a failed replace of meta.json and a garbage collection the index cannot be searched (a file of the last commit was removed?)", "when": when, "err": rec.error, "case": d})));
        }
    }
    v
}


// ------------------------------------------------------------------ directed: a merge that outlives its writer
/// Writer 1 starts a merge of its committed segments and is dropped (or rolled back) while the merge thread is parked at
/// its first file creation; writer 2 commits one more document; then the merge is released.  The old writer's merge must
/// not publish anything: readers and a freshly opened Index keep seeing writer 2's commit.
/// Returns (ok, description) verdicts.
pub fn merge_outlives_writer(rollback_instead_of_drop: bool) -> Vec<(bool, Value)> {
    use std::sync::{Arc, Condvar, Mutex};
    let mut v = vec![];
    let d = json!({"directed": "writer 1 starts a merge and is dropped / rolled back while the merge thread is parked; writer 2 commits; the merge is released", "rollback": rollback_instead_of_drop});
    let vd = VerifDirectory::new();
    let (schema, f) = schema();
    let gate: Arc<(Mutex<(bool, bool)>, Condvar)> = Arc::new((Mutex::new((false, false)), Condvar::new())); // (parked, released)
    {
        let gate = gate.clone();
        vd.set_hook(Some(Arc::new(move |_vd, _seq, kind, path| {
            if *kind != OpKind::Create || path.starts_with('.') { return; }
            if !std::thread::current().name().map(|n| n.starts_with("merge_thread")).unwrap_or(false) { return; }
            let (m, cv) = &*gate;
            let mut g = m.lock().unwrap();
            if g.0 { return; } // only the first creation of the first merge parks
            g.0 = true;
            cv.notify_all();
            while !g.1 { g = cv.wait(g).unwrap(); }
        })));
    }
    let r = guarded(|| -> tantivy::Result<()> {
        let index = Index::create(vd.clone(), schema.clone(), IndexSettings::default())?;
        let mut w1: IndexWriter<TantivyDocument> = index.writer_with_num_threads(1, 15_000_000)?;
        w1.set_merge_policy(Box::new(NoMergePolicy));
        w1.add_document(doc!(f.id => 1u64, f.tag => "t0", f.body => "a"))?;
        w1.commit()?;
        w1.add_document(doc!(f.id => 2u64, f.tag => "t1", f.body => "b"))?;
        w1.commit()?;
        let reader: tantivy::IndexReader = index.reader_builder().reload_policy(ReloadPolicy::Manual).try_into()?;
        let ids = index.searchable_segment_ids()?;
        let _merge = w1.merge(&ids);
        {   // wait until the merge thread is parked (or give up: the scenario then degenerates to a plain history)
            let (m, cv) = &*gate;
            let g = m.lock().unwrap();
            let _ = cv.wait_timeout_while(g, std::time::Duration::from_secs(20), |g| !g.0).unwrap();
        }
        let parked = gate.0.lock().unwrap().0;
        let mut w2 = if rollback_instead_of_drop { w1.rollback()?; w1 } else { drop(w1); index.writer_with_num_threads(1, 15_000_000)? };
        w2.set_merge_policy(Box::new(NoMergePolicy));
        w2.add_document(doc!(f.id => 3u64, f.tag => "t2", f.body => "c"))?;
        w2.commit()?;
        reader.reload()?;
        let want: BTreeSet<u64> = [1u64, 2, 3].into_iter().collect();
        let before = searcher_ids(&reader.searcher());
        v.push((before.as_ref().ok() == Some(&want), json!({"what": "reader does not show writer 2's commit", "got": format!("{before:?}"), "case": d})));
        { let (m, cv) = &*gate; m.lock().unwrap().1 = true; cv.notify_all(); }
        // let the released merge run to its end (its thread belongs to the dead updater: nothing to join)
        let t0 = std::time::Instant::now();
        let mut last = vd.log_len();
        while t0.elapsed() < std::time::Duration::from_secs(10) {
            std::thread::sleep(std::time::Duration::from_millis(120));
            let now = vd.log_len();
            if now == last { break; }
            last = now;
        }
        reader.reload()?;
        let after = searcher_ids(&reader.searcher());
        v.push((after.as_ref().ok() == Some(&want), json!({"what": "after the dead writer's merge ended, a reload moved back / lost writer 2's commit (the old updater rewrote meta.json)", "got": format!("{after:?}"), "merge_was_parked": parked, "case": d})));
        let fresh = Index::open(vd.clone()).map_err(|e| tantivy::TantivyError::InternalError(format!("{e}")))?;
        let fr = read_ids(&fresh);
        v.push((fr.as_ref().ok() == Some(&want), json!({"what": "after the dead writer's merge ended, a freshly opened Index does not hold writer 2's commit", "got": format!("{fr:?}"), "merge_was_parked": parked, "case": d})));
        w2.add_document(doc!(f.id => 4u64, f.tag => "t3", f.body => "d"))?;
        w2.commit()?;
        w2.wait_merging_threads()?;
        let want4: BTreeSet<u64> = [1u64, 2, 3, 4].into_iter().collect();
        let fin = read_ids(&fresh);
        v.push((fin.as_ref().ok() == Some(&want4), json!({"what": "writer 2 cannot continue normally after the dead writer's merge ended", "got": format!("{fin:?}"), "case": d})));
        Ok(())
    });
    { let (m, cv) = &*gate; m.lock().unwrap().1 = true; cv.notify_all(); }
    vd.set_hook(None);
    match r { Ok(Ok(())) => {}, Ok(Err(e)) => v.push((false, json!({"what": "directed merge-outlives-writer scenario failed", "err": e.to_string(), "case": d}))), Err(p) => v.push((false, json!({"what": "directed merge-outlives-writer scenario panicked", "panic": p, "case": d}))) }
    v
}

/// delete_all_documents() left uncommitted, then two uncommitted segments merged by the policy, no commit: readers (and a
/// freshly opened Index, and the next writer) must keep seeing the last commit.
pub fn uncommitted_delete_all_then_policy_merge() -> Vec<(bool, Value)> {
    let mut v = vec![];
    let d = json!({"directed": "commit a b c; eager merge policy; delete_all_documents() NOT committed; two segments flushed by prepare_commit() (dropped, not committed); wait_merging_threads() without commit"});
    let vd = VerifDirectory::new();
    let (schema, f) = schema();
    let r = guarded(|| -> tantivy::Result<()> {
        let index = Index::create(vd.clone(), schema.clone(), IndexSettings::default())?;
        let mut w: IndexWriter<TantivyDocument> = index.writer_with_num_threads(1, 15_000_000)?;
        w.set_merge_policy(Box::new(NoMergePolicy));
        for (i, t) in ["t0", "t1", "t2"].iter().enumerate() { w.add_document(doc!(f.id => (i + 1) as u64, f.tag => *t, f.body => "x"))?; }
        w.commit()?;
        let reader: tantivy::IndexReader = index.reader_builder().reload_policy(ReloadPolicy::Manual).try_into()?;
        let held = reader.searcher();
        let mut p = LogMergePolicy::default();
        p.set_min_num_segments(2);
        p.set_min_layer_size(1);
        w.set_merge_policy(Box::new(p));
        w.delete_all_documents()?;
        w.add_document(doc!(f.id => 10u64, f.tag => "t3", f.body => "y"))?;
        drop(w.prepare_commit()?);
        w.add_document(doc!(f.id => 11u64, f.tag => "t4", f.body => "z"))?;
        drop(w.prepare_commit()?);
        w.wait_merging_threads()?;
        let want: BTreeSet<u64> = [1u64, 2, 3].into_iter().collect();
        let h = searcher_ids(&held);
        v.push((h.as_ref().ok() == Some(&want), json!({"what": "a held searcher changed its answer", "got": format!("{h:?}"), "case": d})));
        reader.reload()?;
        let r1 = searcher_ids(&reader.searcher());
        v.push((r1.as_ref().ok() == Some(&want), json!({"what": "a reload shows uncommitted work (an uncommitted delete_all_documents / uncommitted segments were published by a merge)", "got": format!("{r1:?}"), "case": d})));
        let fresh = Index::open(vd.clone()).map_err(|e| tantivy::TantivyError::InternalError(format!("{e}")))?;
        let fr = read_ids(&fresh);
        v.push((fr.as_ref().ok() == Some(&want), json!({"what": "a freshly opened Index shows uncommitted work", "got": format!("{fr:?}"), "case": d})));
        let mut w2: IndexWriter<TantivyDocument> = index.writer_with_num_threads(1, 15_000_000)?;
        w2.add_document(doc!(f.id => 20u64, f.tag => "t5", f.body => "f"))?;
        w2.commit()?;
        w2.wait_merging_threads()?;
        let want2: BTreeSet<u64> = [1u64, 2, 3, 20].into_iter().collect();
        let fin = read_ids(&fresh);
        v.push((fin.as_ref().ok() == Some(&want2), json!({"what": "the next writer does not start from the last commit", "got": format!("{fin:?}"), "case": d})));
        Ok(())
    });
    match r { Ok(Ok(())) => {}, Ok(Err(e)) => v.push((false, json!({"what": "directed delete_all scenario failed", "err": e.to_string(), "case": d}))), Err(p) => v.push((false, json!({"what": "directed delete_all scenario panicked", "panic": p, "case": d}))) }
    v
}


/// A merge of committed segments is in flight (its thread parked at its first file creation) while a delete is committed;
/// then ONE I/O error hits the creation of the merged segment's delete file at the end of the merge.  The merge must be
/// reported as failed (or be complete), and storage must show the committed delete either way.
pub fn merge_end_fault_after_concurrent_delete() -> Vec<(bool, Value)> {
    use std::sync::{Arc, Condvar, Mutex};
    let mut v = vec![];
    let d = json!({"directed": "two commits; a merge parked at its first file creation; delete_term + commit during the merge; ONE failing creation of a .del file when the merge ends"});
    let vd = VerifDirectory::new();
    let (schema, f) = schema();
    let gate: Arc<(Mutex<(bool, bool)>, Condvar)> = Arc::new((Mutex::new((false, false)), Condvar::new()));
    {
        let gate = gate.clone();
        vd.set_hook(Some(Arc::new(move |_vd, _seq, kind, path| {
            if *kind != OpKind::Create || path.starts_with('.') { return; }
            if !std::thread::current().name().map(|n| n.starts_with("merge_thread")).unwrap_or(false) { return; }
            let (m, cv) = &*gate;
            let mut g = m.lock().unwrap();
            if g.0 { return; }
            g.0 = true;
            cv.notify_all();
            while !g.1 { g = cv.wait(g).unwrap(); }
        })));
    }
    let r = guarded(|| -> tantivy::Result<()> {
        let index = Index::create(vd.clone(), schema.clone(), IndexSettings::default())?;
        let mut w: IndexWriter<TantivyDocument> = index.writer_with_num_threads(1, 15_000_000)?;
        w.set_merge_policy(Box::new(NoMergePolicy));
        w.add_document(doc!(f.id => 1u64, f.tag => "ta", f.body => "a"))?;
        w.add_document(doc!(f.id => 2u64, f.tag => "tb", f.body => "b"))?;
        w.commit()?;
        w.add_document(doc!(f.id => 3u64, f.tag => "tc", f.body => "c"))?;
        w.add_document(doc!(f.id => 4u64, f.tag => "td", f.body => "d"))?;
        w.commit()?;
        let ids = index.searchable_segment_ids()?;
        let merge = w.merge(&ids);
        { let (m, cv) = &*gate; let g = m.lock().unwrap(); let _ = cv.wait_timeout_while(g, std::time::Duration::from_secs(20), |g| !g.0).unwrap(); }
        let parked = gate.0.lock().unwrap().0;
        w.delete_term(Term::from_field_text(f.tag, "ta"));
        w.commit()?;
        let want: BTreeSet<u64> = [2u64, 3, 4].into_iter().collect();
        vd.set_fault_once(OpKind::Create, ".del");
        { let (m, cv) = &*gate; m.lock().unwrap().1 = true; cv.notify_all(); }
        let merge_res = merge.wait();
        let fired = vd.faults_fired();
        let fresh = Index::open(vd.clone()).map_err(|e| tantivy::TantivyError::InternalError(format!("{e}")))?;
        let got = read_ids(&fresh);
        v.push((got.as_ref().ok() == Some(&want), json!({"what": "after a merge whose end hit an I/O error the storage does not show the last commit (a committed delete was lost / documents came back)", "got": format!("{got:?}"), "merge_reported_error": merge_res.is_err(), "fault_fired": fired, "merge_was_parked": parked, "case": d})));
        if fired == 1 && merge_res.is_ok() {
            // not reported: then the merge must be complete -- one segment holding exactly the committed documents
            let n = index.searchable_segment_ids().map(|x| x.len()).unwrap_or(0);
            v.push((n == 1 && got.as_ref().ok() == Some(&want), json!({"what": "an I/O error at the end of a merge was swallowed: the merge reports success but its result is not the committed content", "segments": n, "case": d})));
        }
        // the same writer continues
        w.add_document(doc!(f.id => 5u64, f.tag => "te", f.body => "e"))?;
        w.commit()?;
        w.wait_merging_threads()?;
        let want2: BTreeSet<u64> = [2u64, 3, 4, 5].into_iter().collect();
        let fin = read_ids(&fresh);
        v.push((fin.as_ref().ok() == Some(&want2), json!({"what": "the writer cannot continue normally after a merge that failed at its end", "got": format!("{fin:?}"), "case": d})));
        Ok(())
    });
    { let (m, cv) = &*gate; m.lock().unwrap().1 = true; cv.notify_all(); }
    vd.set_hook(None);
    match r { Ok(Ok(())) => {}, Ok(Err(e)) => v.push((false, json!({"what": "directed merge-end-fault scenario failed", "err": e.to_string(), "case": d}))), Err(p) => v.push((false, json!({"what": "directed merge-end-fault scenario panicked", "panic": p, "case": d}))) }
    v
}


/// The same as `merge_outlives_writer`, but the OLD writer's updater thread is parked INSIDE save_metas (at the directory
/// sync that precedes the replace of meta.json, i.e. after it found itself alive) at the end of a merge; then writer 1 is
/// dropped / rolled back, writer 2 commits, and the parked save is released.
pub fn stale_save_in_flight(rollback_instead_of_drop: bool) -> Vec<(bool, Value)> {
    use std::sync::{Arc, Condvar, Mutex};
    let mut v = vec![];
    let d = json!({"directed": "writer 1's updater is parked inside save_metas at the end of a merge; writer 1 is dropped / rolled back; writer 2 commits; the parked save is released", "rollback": rollback_instead_of_drop});
    let vd = VerifDirectory::new();
    let (schema, f) = schema();
    let gate: Arc<(Mutex<(bool, bool, bool)>, Condvar)> = Arc::new((Mutex::new((false, false, false)), Condvar::new())); // (armed, parked, released)
    {
        let gate = gate.clone();
        vd.set_hook(Some(Arc::new(move |_vd, _seq, kind, _path| {
            if *kind != OpKind::SyncDir { return; }
            if std::thread::current().name() != Some("segment_updater") { return; }
            let (m, cv) = &*gate;
            let mut g = m.lock().unwrap();
            if !g.0 || g.1 { return; }
            g.1 = true;
            cv.notify_all();
            while !g.2 { g = cv.wait(g).unwrap(); }
        })));
    }
    let (tx, rx) = std::sync::mpsc::channel();
    let (vd2, gate2, d2) = (vd.clone(), gate.clone(), d.clone());
    std::thread::Builder::new().name("main".into()).spawn(move || {
        let mut v = vec![];
        let r = guarded(|| -> tantivy::Result<()> {
            let index = Index::create(vd2.clone(), schema.clone(), IndexSettings::default())?;
            let mut w1: IndexWriter<TantivyDocument> = index.writer_with_num_threads(1, 15_000_000)?;
            w1.set_merge_policy(Box::new(NoMergePolicy));
            w1.add_document(doc!(f.id => 1u64, f.tag => "t0", f.body => "a"))?;
            w1.commit()?;
            w1.add_document(doc!(f.id => 2u64, f.tag => "t1", f.body => "b"))?;
            w1.commit()?;
            let reader: tantivy::IndexReader = index.reader_builder().reload_policy(ReloadPolicy::Manual).try_into()?;
            let ids = index.searchable_segment_ids()?;
            gate2.0.lock().unwrap().0 = true;
            let _merge = w1.merge(&ids);
            { let (m, cv) = &*gate2; let g = m.lock().unwrap(); let _ = cv.wait_timeout_while(g, std::time::Duration::from_secs(20), |g| !g.1).unwrap(); }
            let parked = gate2.0.lock().unwrap().1;
            let mut w2 = if rollback_instead_of_drop { w1.rollback()?; w1 } else { drop(w1); index.writer_with_num_threads(1, 15_000_000)? };
            w2.set_merge_policy(Box::new(NoMergePolicy));
            w2.add_document(doc!(f.id => 3u64, f.tag => "t2", f.body => "c"))?;
            w2.commit()?;
            reader.reload()?;
            let want: BTreeSet<u64> = [1u64, 2, 3].into_iter().collect();
            let before = searcher_ids(&reader.searcher());
            v.push((before.as_ref().ok() == Some(&want), json!({"what": "reader does not show writer 2's commit", "got": format!("{before:?}"), "case": d2})));
            { let (m, cv) = &*gate2; m.lock().unwrap().2 = true; cv.notify_all(); }
            let t0 = std::time::Instant::now();
            let mut last = vd2.log_len();
            while t0.elapsed() < std::time::Duration::from_secs(10) {
                std::thread::sleep(std::time::Duration::from_millis(120));
                let now = vd2.log_len();
                if now == last { break; }
                last = now;
            }
            reader.reload()?;
            let after = searcher_ids(&reader.searcher());
            v.push((after.as_ref().ok() == Some(&want), json!({"what": "a save_metas of the dead writer's updater that was in flight when the writer died overwrote writer 2's commit", "got": format!("{after:?}"), "updater_was_parked_inside_save_metas": parked, "case": d2})));
            let fresh = Index::open(vd2.clone()).map_err(|e| tantivy::TantivyError::InternalError(format!("{e}")))?;
            let fr = read_ids(&fresh);
            v.push((fr.as_ref().ok() == Some(&want), json!({"what": "a freshly opened Index does not hold writer 2's commit after the dead writer's in-flight save ended", "got": format!("{fr:?}"), "updater_was_parked_inside_save_metas": parked, "case": d2})));
            w2.wait_merging_threads()?;
            Ok(())
        });
        match r { Ok(Ok(())) => {}, Ok(Err(e)) => v.push((false, json!({"what": "directed stale-save scenario failed", "err": e.to_string(), "case": d2}))), Err(p) => v.push((false, json!({"what": "directed stale-save scenario panicked", "panic": p, "case": d2}))) }
        let _ = tx.send(v);
    }).unwrap();
    // dropping / rolling back the writer may legitimately WAIT for the in-flight save: release the gate after a while so that
    // a blocking implementation proceeds (the save then completes BEFORE writer 2 exists, which is fine)
    let res = rx.recv_timeout(std::time::Duration::from_millis(1500));
    { let (m, cv) = &*gate; m.lock().unwrap().2 = true; cv.notify_all(); }
    let res = match res { Ok(x) => Ok(x), Err(_) => rx.recv_timeout(std::time::Duration::from_secs(60)) };
    vd.set_hook(None);
    match res { Ok(x) => v.extend(x), Err(_) => v.push((false, json!({"what": "directed stale-save scenario hangs", "case": d}))) }
    v
}
