//! Printers for Gallina literals (everything in N_scope unless noted).
pub fn n<T: std::fmt::Display>(x: T) -> String {
    format!("{}", x)
}
pub fn nat(x: usize) -> String {
    if x <= 1000 { format!("{}%nat", x) } else { format!("(N.to_nat {})", x) }
}
pub fn z(x: i128) -> String {
    if x < 0 { format!("({})%Z", x) } else { format!("{}%Z", x) }
}
pub fn boolean(b: bool) -> String {
    if b { "true".into() } else { "false".into() }
}
pub fn list<T, F: Fn(&T) -> String>(xs: &[T], f: F) -> String {
    let mut s = String::with_capacity(xs.len() * 4 + 2);
    s.push('[');
    for (i, x) in xs.iter().enumerate() {
        if i > 0 { s.push(';'); }
        s.push_str(&f(x));
    }
    s.push(']');
    s
}
pub fn bytes(b: &[u8]) -> String {
    list(b, |x| format!("{}", x))
}
pub fn ns<T: std::fmt::Display>(xs: &[T]) -> String {
    list(xs, |x| format!("{}", x))
}
pub fn option<T, F: Fn(&T) -> String>(o: &Option<T>, f: F) -> String {
    match o { Some(x) => format!("(Some {})", f(x)), None => "None".into() }
}
pub fn pair(a: &str, b: &str) -> String {
    format!("({}, {})", a, b)
}
pub fn hex(b: &[u8]) -> String {
    b.iter().map(|x| format!("{:02x}", x)).collect()
}
