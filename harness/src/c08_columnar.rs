//! C08 (C): tantivy_columnar  ColumnarWriter -> serialize -> ColumnarReader, merge_columnar with
//! stacked and shuffled orders, against the list-of-lists column specification.
//! Values are compared in the order-preserving "mapped" space (u64 via MonotonicallyMappableToU64,
//! u128 for IP addresses, bytes for str/bytes through the dictionary).
use std::collections::{BTreeMap, BTreeSet};
use std::fmt::Debug;
use std::net::Ipv6Addr;

use serde_json::{json, Value};
use tantivy_columnar::{
    Cardinality, Column, ColumnarReader, ColumnarWriter, DynamicColumn, MergeRowOrder, MonotonicallyMappableToU128,
    MonotonicallyMappableToU64, RowAddr, ShuffleMergeOrder, StackMergeOrder,
};
use tantivy_common::DateTime;
use tvh::coqfmt as cf;
use tvh::guarded;
use tvh::out::CaseOut;
use tvh::rng::Rng;

use super::{gen_f64, gen_values, ip_from, VAL_KINDS};

#[derive(Clone, Debug, PartialEq)]
pub enum Val { U(u64), I(i64), F(u64), B(bool), D(i64), Ip(u128), S(Vec<u8>), Y(Vec<u8>) }

#[derive(Clone, Copy, Debug, PartialEq, Eq, PartialOrd, Ord)]
pub enum Kind { U64, I64, F64, Bool, Date, Ip, Str, Bytes, MixedInt }
pub const KINDS: [Kind; 9] = [Kind::U64, Kind::I64, Kind::F64, Kind::Bool, Kind::Date, Kind::Ip, Kind::Str, Kind::Bytes, Kind::MixedInt];

#[derive(Clone, Debug)]
pub struct ColSpec { pub name: String, pub kind: Kind, pub rows: Vec<Vec<Val>> }
#[derive(Clone, Debug)]
pub struct Table { pub num_docs: usize, pub cols: Vec<ColSpec> }

fn is_str_kind(k: Kind) -> bool { matches!(k, Kind::Str | Kind::Bytes) }

pub fn gen_vals_of_kind(rng: &mut Rng, kind: Kind, n: usize) -> Vec<Val> {
    let vk = rng.below(VAL_KINDS.len() as u64) as usize;
    match kind {
        Kind::U64 => gen_values(rng, vk, n).into_iter().map(Val::U).collect(),
        Kind::I64 => gen_values(rng, vk, n).into_iter().map(|v| Val::I(i64::from_u64(v))).collect(),
        Kind::Date => gen_values(rng, vk, n).into_iter().map(|v| Val::D(i64::from_u64(v))).collect(),
        Kind::F64 => (0..n).map(|_| Val::F(gen_f64(rng).to_bits())).collect(),
        Kind::Bool => { let p = rng.range(0, 4); (0..n).map(|_| Val::B(rng.below(4) < p)).collect() }
        Kind::Ip => (0..n).map(|_| Val::Ip(u128::from(ip_from(rng)))).collect(),
        Kind::Str | Kind::Bytes => {
            let vmax = if rng.chance(1, 3) { 3 } else { 60 }; let vocab = 1 + rng.below(vmax);
            (0..n).map(|_| {
                let t = rng.below(vocab);
                let b: Vec<u8> = match t % 7 { 0 => vec![], 1 => format!("t{}", t).into_bytes(), 2 => format!("term-{:05}", t).into_bytes(), 3 => "é".repeat(1 + (t % 3) as usize).into_bytes(),
                                               4 => vec![b'a'; (t % 40) as usize], 5 => format!("{}{}", "common-prefix/", t).into_bytes(), _ => format!("\u{1F600}{}", t).into_bytes() };
                if kind == Kind::Str { Val::S(b) } else { let mut b = b; if t % 5 == 0 { b.push(0xFF); b.push(0); } Val::Y(b) }
            }).collect()
        }
        Kind::MixedInt => { // integers recorded with differing Rust types; all representable as i64 and u64 (lossless coercion)
            (0..n).map(|_| { let v = rng.below(1 << 40); if rng.chance(1, 2) { Val::U(v) } else { Val::I(v as i64) } }).collect()
        }
    }
}

/// shape: 0 full, 1 optional, 2 multivalued, 3 empty
pub fn gen_rows(rng: &mut Rng, kind: Kind, num_docs: usize, shape: u64, density_per_64k: u64) -> Vec<Vec<Val>> {
    let counts: Vec<usize> = (0..num_docs).map(|_| match shape {
        0 => 1,
        1 => (rng.below(65536) < density_per_64k) as usize,
        2 => if rng.below(65536) < density_per_64k { match rng.below(6) { 0 => 2, 1 => 3, 2 => rng.range(1, 9) as usize, _ => 1 } } else { 0 },
        _ => 0,
    }).collect();
    let total: usize = counts.iter().sum();
    let mut vals = gen_vals_of_kind(rng, kind, total).into_iter();
    counts.iter().map(|&c| (0..c).map(|_| vals.next().unwrap()).collect()).collect()
}

pub fn gen_table(rng: &mut Rng, num_docs: usize, ncols: usize, tag: &str) -> Table {
    let mut cols = vec![];
    for c in 0..ncols {
        let kind = KINDS[rng.below(KINDS.len() as u64) as usize];
        let shape = match rng.below(10) { 0..=2 => 0, 3..=5 => 1, 6..=8 => 2, _ => 3 };
        // densities around the dense/sparse switch (5120 of 65536) and the extremes
        let density = *rng.pick(&[5000u64, 5120, 5121, 5300, 4900, 65536, 65535, 60000, 30000, 600, 40, 1]);
        cols.push(ColSpec { name: format!("{}{}_{:?}", tag, c, kind).to_lowercase(), kind, rows: gen_rows(rng, kind, num_docs, shape, density) });
    }
    Table { num_docs, cols }
}

pub fn write_table(t: &Table) -> Vec<u8> {
    let mut w = ColumnarWriter::default();
    for doc in 0..t.num_docs {
        for c in &t.cols {
            for v in &c.rows[doc] {
                let d = doc as u32;
                match v {
                    Val::U(x) => w.record_numerical(d, &c.name, *x),
                    Val::I(x) => w.record_numerical(d, &c.name, *x),
                    Val::F(b) => w.record_numerical(d, &c.name, f64::from_bits(*b)),
                    Val::B(b) => w.record_bool(d, &c.name, *b),
                    Val::D(n) => w.record_datetime(d, &c.name, DateTime::from_timestamp_nanos(*n)),
                    Val::Ip(x) => w.record_ip_addr(d, &c.name, Ipv6Addr::from(*x)),
                    Val::S(s) => w.record_str(d, &c.name, std::str::from_utf8(s).unwrap()),
                    Val::Y(b) => w.record_bytes(d, &c.name, b),
                }
            }
        }
    }
    let mut out = Vec::new();
    w.serialize(t.num_docs as u32, None, &mut out).unwrap();
    out
}

/// what a column answers, in mapped space
pub struct Obs {
    pub ty: &'static str,
    pub card: Cardinality,
    pub num_docs: u32,
    pub rows: Vec<Vec<u128>>,            // mapped values (ordinals for str/bytes)
    pub min: u128,
    pub max: u128,
    pub terms: Option<Vec<Vec<u8>>>,     // dictionary (ord -> term) for str/bytes
    pub firsts_ok: bool,
    pub lookup: Box<dyn Fn(u128, u128, u32, u32) -> Result<Vec<u32>, String>>,
}

fn observe64<T: MonotonicallyMappableToU64 + PartialOrd + Copy + Debug + Send + Sync + 'static>(ty: &'static str, col: Column<T>) -> Obs {
    let n = col.num_docs();
    let rows: Vec<Vec<u128>> = (0..n).map(|d| col.values_for_doc(d).map(|v| v.to_u64() as u128).collect()).collect();
    let firsts_ok = (0..n).all(|d| col.first(d).map(|v| v.to_u64() as u128) == rows[d as usize].first().copied());
    let (min, max) = (col.min_value().to_u64() as u128, col.max_value().to_u64() as u128);
    let card = col.get_cardinality();
    let c2 = col.clone();
    Obs { ty, card, num_docs: n, rows, min, max, terms: None, firsts_ok,
          lookup: Box::new(move |lo, hi, d0, d1| guarded(|| { let mut v = Vec::new(); c2.get_docids_for_value_range(T::from_u64(lo as u64)..=T::from_u64(hi as u64), d0..d1, &mut v); v })) }
}

fn observe_ip(col: Column<Ipv6Addr>) -> Obs {
    let n = col.num_docs();
    let rows: Vec<Vec<u128>> = (0..n).map(|d| col.values_for_doc(d).map(|v| v.to_u128()).collect()).collect();
    let firsts_ok = (0..n).all(|d| col.first(d).map(|v| v.to_u128()) == rows[d as usize].first().copied());
    let (min, max) = (col.min_value().to_u128(), col.max_value().to_u128());
    let card = col.get_cardinality();
    let c2 = col.clone();
    Obs { ty: "ip", card, num_docs: n, rows, min, max, terms: None, firsts_ok,
          lookup: Box::new(move |lo, hi, d0, d1| guarded(|| { let mut v = Vec::new(); c2.get_docids_for_value_range(Ipv6Addr::from_u128(lo)..=Ipv6Addr::from_u128(hi), d0..d1, &mut v); v })) }
}

pub fn observe(dc: DynamicColumn) -> Result<Obs, String> {
    Ok(match dc {
        DynamicColumn::Bool(c) => observe64("bool", c),
        DynamicColumn::I64(c) => observe64("i64", c),
        DynamicColumn::U64(c) => observe64("u64", c),
        DynamicColumn::F64(c) => observe64("f64", c),
        DynamicColumn::DateTime(c) => observe64("date", c),
        DynamicColumn::IpAddr(c) => observe_ip(c),
        DynamicColumn::Bytes(bc) => {
            let mut o = observe64("bytes", bc.ords().clone());
            let mut terms = vec![];
            for ord in 0..bc.num_terms() as u64 { let mut b = Vec::new(); if !bc.ord_to_bytes(ord, &mut b).map_err(|e| e.to_string())? { return Err(format!("ord {} missing", ord)); } terms.push(b); }
            o.terms = Some(terms); o
        }
        DynamicColumn::Str(sc) => {
            let mut o = observe64("str", sc.ords().clone());
            let mut terms = vec![];
            for ord in 0..sc.num_terms() as u64 { let mut s = String::new(); if !sc.ord_to_str(ord, &mut s).map_err(|e| e.to_string())? { return Err(format!("ord {} missing", ord)); } terms.push(s.into_bytes()); }
            o.terms = Some(terms); o
        }
    })
}

/// expected value in the mapped space of the column type the implementation chose; None = not exactly representable
fn to_mapped(v: &Val, ty: &str) -> Option<u128> {
    Some(match (v, ty) {
        (Val::U(x), "u64") => *x as u128,
        (Val::U(x), "i64") => i64::try_from(*x).ok()?.to_u64() as u128,
        (Val::I(x), "i64") => x.to_u64() as u128,
        (Val::I(x), "u64") => u64::try_from(*x).ok()? as u128,
        (Val::U(x), "f64") => { let f = *x as f64; if f as u64 == *x && *x < (1 << 53) { f.to_u64() as u128 } else { return None } }
        (Val::I(x), "f64") => { let f = *x as f64; if x.unsigned_abs() < (1 << 53) { f.to_u64() as u128 } else { return None } }
        (Val::F(b), "f64") => f64::from_bits(*b).to_u64() as u128,
        (Val::B(b), "bool") => b.to_u64() as u128,
        (Val::D(n), "date") => n.to_u64() as u128,
        (Val::Ip(x), "ip") => *x,
        _ => return None,
    })
}

fn val_bytes(v: &Val) -> Option<&[u8]> { match v { Val::S(b) | Val::Y(b) => Some(b), _ => None } }

/// Compare one expected column (rows of values) with what the reader answers.  Returns a failure description.
pub fn check_column(expected: &[Vec<Val>], kind: Kind, obs: &Obs, rng: &mut Rng, out: &mut CaseOut, ctx: &Value) -> Option<String> {
    let n = expected.len();
    if obs.num_docs as usize != n { return Some(format!("num_docs {} != {}", obs.num_docs, n)); }
    if !obs.firsts_ok { return Some("first() != first of values_for_doc".into()); }
    // values, in insertion order
    let exp_rows: Vec<Vec<u128>> = if is_str_kind(kind) {
        let terms = obs.terms.as_ref().unwrap();
        // dictionary = sorted distinct terms (ordinals follow byte order)
        let distinct: BTreeSet<&[u8]> = expected.iter().flatten().filter_map(val_bytes).collect();
        let want: Vec<Vec<u8>> = distinct.iter().map(|b| b.to_vec()).collect();
        if &want != terms { return Some(format!("dictionary has {} terms, expected {} (sorted distinct values)", terms.len(), want.len())); }
        let index: BTreeMap<&[u8], u128> = want.iter().enumerate().map(|(i, b)| (b.as_slice(), i as u128)).collect();
        expected.iter().map(|r| r.iter().map(|v| index[val_bytes(v).unwrap()]).collect()).collect()
    } else {
        let mut rows = Vec::with_capacity(n);
        for r in expected { let mut o = vec![]; for v in r { match to_mapped(v, obs.ty) { Some(m) => o.push(m), None => return Some(format!("value {:?} not representable in chosen type {}", v, obs.ty)) } } rows.push(o); }
        rows
    };
    if let Some(d) = (0..n).find(|&d| exp_rows[d] != obs.rows[d]) {
        return Some(format!("doc {}: values_for_doc {:?} != added {:?} ({:?})", d, obs.rows[d], exp_rows[d], &expected[d]));
    }
    // cardinality consistent with the rows
    let ok_card = match obs.card { Cardinality::Full => exp_rows.iter().all(|r| r.len() == 1), Cardinality::Optional => exp_rows.iter().all(|r| r.len() <= 1), Cardinality::Multivalued => true };
    if !ok_card { return Some(format!("cardinality {:?} inconsistent with the rows", obs.card)); }
    // min / max bound
    if !exp_rows.iter().flatten().all(|&v| obs.min <= v && v <= obs.max) { return Some(format!("min {} / max {} do not bound all values", obs.min, obs.max)); }
    out.count(&format!("column_type_{}", obs.ty), 1);
    out.count(&format!("column_card_{:?}", obs.card), 1);
    // range lookups
    let all: Vec<u128> = exp_rows.iter().flatten().copied().collect();
    let top: u128 = if obs.ty == "ip" { u128::MAX } else if obs.ty == "bool" { 1 } else { u64::MAX as u128 };   // image of the mapping
    let n_lookups = if n > 20000 { 4 } else { 8 };
    let gcd = super::gcd_to_min(&all, obs.min.min(all.iter().copied().min().unwrap_or(obs.min)));
    for li in 0..n_lookups {
        let pick = |rng: &mut Rng| -> u128 { match rng.below(7) { 0 => obs.min, 1 => obs.max, 2 => obs.min.saturating_sub(1), 3 => (obs.max + 1).min(top), 4 => 0, 5 => top,
                                                                  _ => if all.is_empty() { rng.next_u64() as u128 } else { (all[rng.below(all.len() as u64) as usize] + rng.below(3) as u128).saturating_sub(1).min(top) } } };
        let (a, b) = (pick(rng), pick(rng));
        // lookups 1 and 2: upper (and sometimes lower) bound at the u32 boundary of the bit-packed reader, relative to min and gcd
        let boundary = (li == 1 || li == 2) && obs.ty != "bool";
        let (a, b) = if boundary {
            let hi = super::u32_boundary_bound(rng, obs.min, gcd, top);
            let lo = match rng.below(4) { 0 => super::u32_boundary_bound(rng, obs.min, gcd, top), 1 => 0, 2 => obs.min, _ => a.min(b) };
            (lo.min(hi), hi.max(lo))
        } else { (a, b) };
        if boundary { out.count("column_range_lookups_u32_boundary", 1); }
        let (lo, hi) = if li == 0 && obs.min > 0 { let h = rng.below(obs.min.min(u64::MAX as u128) as u64) as u128; (rng.below(h as u64 + 1) as u128, h) } else if rng.chance(1, 12) { (a.max(b), a.min(b)) } else { (a.min(b), a.max(b)) };
        let d0 = if rng.chance(1, 2) { 0 } else { rng.below(n as u64 + 1) as u32 };
        let d1 = if rng.chance(1, 2) { n as u32 } else { rng.range(d0 as u64, n as u64) as u32 };
        let want: Vec<u32> = (d0..d1).filter(|&d| exp_rows[d as usize].iter().any(|&v| lo <= v && v <= hi)).collect();
        if super::u32_wrap_sensitive(&all, gcd, lo, hi) { out.count("column_range_lookups_sensitive_to_u32_wrap", 1); }
        let mut d = ctx.clone();
        d["lookup"] = json!({"lo": lo.to_string(), "hi": hi.to_string(), "docs": [d0, d1], "col_min": obs.min.to_string(), "type": obs.ty, "card": format!("{:?}", obs.card)});
        out.count("column_range_lookups", 1);
        if lo <= hi && hi < obs.min { out.count("column_range_lookups_below_min", 1); }
        match (obs.lookup)(lo, hi, d0, d1) {
            Err(p) => { d["what"] = json!("get_docids_for_value_range panicked"); d["panic"] = json!(p); out.spec_checked(false, d); }
            Ok(got) => {
                if got == want { out.spec_checked(true, d); }
                else {
                    d["what"] = json!("get_docids_for_value_range != documents holding a value in the range");
                    d["got_len"] = json!(got.len()); d["want_len"] = json!(want.len()); d["got_head"] = json!(&got[..got.len().min(8)]); d["want_head"] = json!(&want[..want.len().min(8)]);
                    d["range_below_column_min"] = json!(lo <= hi && hi < obs.min);
                    out.spec_checked(false, d);     // an ordinary violation (the former class F81 is fixed in /repo)
                }
            }
        }
    }
    None
}

/// spec cases evaluated in Coq for small u64 / i64 columns: the implementation's answers against the list specification
fn coq_spec_cases(expected: &[Vec<Val>], obs: &Obs, rng: &mut Rng, out: &mut CaseOut, ctx: &Value) {
    let n = expected.len();
    if n > 40 || !(obs.ty == "u64" || obs.ty == "i64") { return; }
    let exp_term = match obs.ty {
        "u64" => cf::list(expected, |r| cf::list(r, |v| match v { Val::U(x) => format!("{}", x), Val::I(x) => format!("{}", x), _ => "0".into() })),
        _ => format!("(map (map i64_to_u64) {})", cf::list(expected, |r| cf::list(r, |v| match v { Val::I(x) => cf::z(*x as i128), Val::U(x) => cf::z(*x as i128), _ => "0%Z".into() }))),
    };
    let obs_term = cf::list(&obs.rows, |r| cf::list(r, |v| format!("{}", v)));
    let card = match obs.card { Cardinality::Full => 0, Cardinality::Optional => 1, Cardinality::Multivalued => 2 };
    out.coq_case("spec", format!("column_eqb {} {} && bounds_all {} {} {} && cardinality_allows {} {} && Nat.eqb (num_docs {}) {}", exp_term, obs_term, obs.min, obs.max, exp_term, card, exp_term, exp_term, cf::nat(obs.num_docs as usize)),
                 json!({"what": "column = rows added (spec in Coq)", "ctx": ctx, "type": obs.ty}), n >= 2);
    if let Some(&v) = obs.rows.iter().flatten().next() {
        let (lo, hi) = (v.saturating_sub(rng.below(3) as u128), v + rng.below(1000) as u128);
        if let Ok(got) = (obs.lookup)(lo, hi.min(u64::MAX as u128), 0, n as u32) {
            out.coq_case("spec", format!("nat_list_eqb (range_lookup {} {} {}) {}", lo, hi.min(u64::MAX as u128), exp_term, cf::list(&got, |x| cf::nat(*x as usize))),
                         json!({"what": "range lookup (spec in Coq)", "ctx": ctx, "lo": lo.to_string(), "hi": hi.to_string()}), n >= 2);
        }
    }
}

/// Class of F82 (fixed in /repo): a column of a LEGACY (v1) input of a STACK merge that is multivalued there
/// (some row with >= 2 values) and has a value-less row.
pub fn f82_column(rows: &[Vec<Val>]) -> bool { rows.iter().any(|r| r.len() >= 2) && rows.iter().any(|r| r.is_empty()) }

/// Parameters shared by the inputs of one merge for NEAR-MISS vocabularies of a Str / Bytes column: every input gets
/// the same number of terms, the same smallest and largest term, the same length / common-prefix profile (so the
/// serialized dictionaries have the same size), but its own middle terms.
#[derive(Clone, Debug)]
pub struct NearMiss { pub family: u64, pub middle: usize, pub suffix: String }

pub fn gen_near_miss(rng: &mut Rng) -> NearMiss {
    let suffix = match rng.below(4) { 0 => String::new(), 1 => "x".to_string(), 2 => "-level".to_string(), _ => "é".to_string() };
    NearMiss { family: rng.below(3), middle: rng.range(1, 5) as usize, suffix }
}

/// the vocabulary of one input (sorted, distinct)
pub fn near_miss_vocab(rng: &mut Rng, nm: &NearMiss, bytes: bool) -> Vec<Vec<u8>> {
    // the middle terms differ in ONE character drawn from a sorted alphabet strictly between the two shared extremes
    let alphabet: Vec<u8> = (b'b'..=b'y').collect();
    let mut chosen: Vec<u8> = vec![];
    while chosen.len() < nm.middle { let c = *rng.pick(&alphabet); if !chosen.contains(&c) { chosen.push(c); } }
    chosen.sort();
    let mk = |c: u8| -> Vec<u8> {
        let mut t: Vec<u8> = match nm.family { 0 => vec![], 1 => b"common/".to_vec(), _ => b"k".to_vec() };
        t.push(c);
        t.extend_from_slice(nm.suffix.as_bytes());
        if bytes && nm.family == 2 { t.push(0xFF); }
        t
    };
    let mut v = vec![mk(b'a')];
    v.extend(chosen.into_iter().map(mk));
    v.push(mk(b'z'));
    v
}

/// rows over a vocabulary; every term of the vocabulary occurs when there is room for it
pub fn rows_from_vocab(rng: &mut Rng, vocab: &[Vec<u8>], num_docs: usize, shape: u64, bytes: bool) -> Vec<Vec<Val>> {
    let counts: Vec<usize> = (0..num_docs).map(|_| match shape { 0 => 1, 1 => rng.chance(4, 5) as usize, _ => *rng.pick(&[0usize, 1, 1, 2, 3]) }).collect();
    let total: usize = counts.iter().sum();
    let mut picks: Vec<usize> = (0..total).map(|i| if i < vocab.len() { i } else { rng.below(vocab.len() as u64) as usize }).collect();
    rng.shuffle(&mut picks);
    let mut it = picks.into_iter();
    counts.iter().map(|&c| (0..c).map(|_| { let t = vocab[it.next().unwrap()].clone(); if bytes { Val::Y(t) } else { Val::S(t) } }).collect()).collect()
}

/// Coq cases for the multivalued columns of a small LEGACY (v1) file: Column::get_docids_for_value_range vs the
/// model of the v1 index (docid_range_to_rowids, row scan, select_batch_in_place) and vs the list specification.
/// Works in the mapped space of whatever numeric type the column has.
fn legacy_multivalued_cases(v1: Vec<u8>, t: &Table, rng: &mut Rng, out: &mut CaseOut, ti: usize) {
    let Ok(Ok(reader)) = guarded(|| ColumnarReader::open(v1)) else { return; };
    for c in &t.cols {
        if is_str_kind(c.kind) || c.kind == Kind::Ip || !c.rows.iter().any(|r| r.len() >= 2) { continue; }
        let Ok(Ok(obs)) = guarded(|| -> Result<Obs, String> { let hs = reader.read_columns(&c.name).map_err(|e| e.to_string())?; observe(hs[0].open().map_err(|e| e.to_string())?) }) else { continue; };
        if obs.card != Cardinality::Multivalued { continue; }
        let n = obs.rows.len();
        let mut starts: Vec<u64> = vec![0]; for r in &obs.rows { starts.push(starts.last().unwrap() + r.len() as u64); }
        let values: Vec<u128> = obs.rows.iter().flatten().copied().collect();
        if values.is_empty() { continue; }
        let rows_term = cf::list(&obs.rows, |r| cf::list(r, |v| v.to_string()));
        for _ in 0..3 {
            let a = values[rng.below(values.len() as u64) as usize]; let b = values[rng.below(values.len() as u64) as usize];
            let (lo, hi) = if rng.chance(1, 3) { (a, a) } else { (a.min(b), a.max(b)) };
            let d0 = if rng.chance(2, 3) { 0 } else { rng.below(n as u64 + 1) as u32 };
            let d1 = if rng.chance(1, 2) { n as u32 } else { rng.range(d0 as u64, n as u64) as u32 };
            let Ok(got) = (obs.lookup)(lo, hi, d0, d1) else { continue; };
            let desc = json!({"what": "legacy v1 multivalued column: get_docids_for_value_range", "table": ti, "column": c.name, "type": obs.ty, "lo": lo.to_string(), "hi": hi.to_string(), "docs": [d0, d1], "rows": obs.rows.iter().map(|r| r.iter().map(|v| v.to_string()).collect::<Vec<_>>()).collect::<Vec<_>>()});
            let got_term = cf::list(&got, |x| cf::nat(*x as usize));
            out.coq_case("tie", format!("mv1_range_tie {} {} {} {} {} {} {}", cf::ns(&starts), cf::ns(&values), lo, hi, cf::nat(d0 as usize), cf::nat(d1 as usize), got_term), desc.clone(), n >= 2);
            out.coq_case("spec", format!("nat_list_eqb (range_lookup_in {} {} {} {} {}) {}", lo, hi, cf::nat(d0 as usize), cf::nat(d1 as usize), rows_term, got_term), desc, n >= 2);
            out.count("legacy_v1_multivalued_lookup_cases", 1);
        }
    }
}

/// open every column of `bytes` and compare with `t`
pub fn check_table(bytes: Vec<u8>, t: &Table, rng: &mut Rng, out: &mut CaseOut, ctx: Value, coq: bool) {
    check_table_known(bytes, t, rng, out, ctx, coq, &BTreeSet::new())
}

/// `known_f82`: columns whose inputs lie in the class of F82 (fixed in /repo; see `f82_column`) -- counted only
pub fn check_table_known(bytes: Vec<u8>, t: &Table, rng: &mut Rng, out: &mut CaseOut, ctx: Value, coq: bool, known_f82: &BTreeSet<String>) {
    let r = guarded(|| -> Result<Vec<(usize, Option<Obs>)>, String> {
        let reader = ColumnarReader::open(bytes).map_err(|e| e.to_string())?;
        if reader.num_docs() as usize != t.num_docs { return Err(format!("reader.num_docs {} != {}", reader.num_docs(), t.num_docs)); }
        let mut res = vec![];
        for (ci, c) in t.cols.iter().enumerate() {
            let handles = reader.read_columns(&c.name).map_err(|e| e.to_string())?;
            let has_values = c.rows.iter().any(|r| !r.is_empty());
            if handles.is_empty() {
                if has_values { return Err(format!("column {} missing", c.name)); }
                res.push((ci, None)); continue;
            }
            if handles.len() != 1 { return Err(format!("column {}: {} handles", c.name, handles.len())); }
            let dc = handles[0].open().map_err(|e| e.to_string())?;
            res.push((ci, Some(observe(dc)?)));
        }
        Ok(res)
    });
    match r {
        Err(p) => out.spec_checked(false, json!({"what": "columnar read panicked", "ctx": ctx, "panic": p})),
        Ok(Err(e)) => out.spec_checked(false, json!({"what": "columnar read failed", "ctx": ctx, "error": e})),
        Ok(Ok(cols)) => {
            for (ci, obs) in cols {
                let c = &t.cols[ci];
                let mut cctx = ctx.clone(); cctx["column"] = json!(c.name); cctx["num_docs"] = json!(t.num_docs);
                match obs {
                    None => { out.spec_checked(true, cctx); out.count("column_absent_all_empty", 1); }
                    Some(o) => {
                        let fail = check_column(&c.rows, c.kind, &o, rng, out, &cctx);
                        if let Some(f) = &fail { cctx["what"] = json!(f); cctx["rows_head"] = json!(format!("{:?}", &c.rows[..c.rows.len().min(6)])); }
                        // columns of stack merges with a legacy multivalued input holding value-less documents (the class of F82,
                        // fixed in /repo) are only counted: a failure there is an ordinary violation
                        if known_f82.contains(&c.name) { out.count("stack_of_legacy_multivalued_with_empty_rows_columns", 1); cctx["former_f82_class"] = json!(true); }
                        out.spec_checked(fail.is_none(), cctx.clone());
                        if coq && fail.is_none() { coq_spec_cases(&c.rows, &o, rng, out, &cctx); }
                    }
                }
            }
        }
    }
}

pub fn section_columnar(rng: &mut Rng, out: &mut CaseOut, thorough: bool) {
    // ---- corpus: the F81 witness column (fixed in /repo) through the Column API (check_column always looks up a range below the minimum first)
    {
        let t = Table { num_docs: 3, cols: vec![ColSpec { name: "corpus_u64".into(), kind: Kind::U64, rows: vec![vec![Val::U(10)], vec![Val::U(20)], vec![Val::U(30)]] },
                                               ColSpec { name: "corpus_i64_multi".into(), kind: Kind::I64, rows: vec![vec![Val::I(-5), Val::I(7)], vec![], vec![Val::I(-5)]] }] };
        if let Ok(bytes) = guarded(|| write_table(&t)) { check_table(bytes, &t, rng, out, json!({"what": "corpus: F81 regression column"}), true); }
    }
    // ---- corpus: the legacy file shipped with the repository (written by an old version): `full` = row, `multi` = [row, row];
    //      read alone, and stacked with freshly written tables before / after it
    if let Some(legacy) = super::c08_legacy::shipped_legacy_file() {
        let n = 65535usize;
        let legacy_table = Table { num_docs: n, cols: vec![
            ColSpec { name: "full".into(), kind: Kind::MixedInt, rows: (0..n).map(|r| vec![Val::U(r as u64)]).collect() },
            ColSpec { name: "multi".into(), kind: Kind::MixedInt, rows: (0..n).map(|r| vec![Val::U(r as u64), Val::U(r as u64)]).collect() }] };
        check_table(legacy.clone(), &legacy_table, rng, out, json!({"what": "corpus: shipped legacy v1 file"}), false);
        for order in 0..3 {
            let m = rng.range(1, 1500) as usize;
            let fresh = Table { num_docs: m, cols: vec![
                ColSpec { name: "full".into(), kind: Kind::MixedInt, rows: (0..m).map(|r| vec![Val::U(1_000_000 + r as u64)]).collect() },
                ColSpec { name: "multi".into(), kind: Kind::MixedInt, rows: gen_rows(rng, Kind::MixedInt, m, 2, 60000) }] };
            let inputs: Vec<(&Table, Vec<u8>)> = match order { 0 => vec![(&legacy_table, legacy.clone()), (&fresh, write_table(&fresh))], 1 => vec![(&fresh, write_table(&fresh)), (&legacy_table, legacy.clone())],
                                                                _ => vec![(&legacy_table, legacy.clone()), (&legacy_table, legacy.clone())] };
            let merged = Table { num_docs: inputs.iter().map(|(t, _)| t.num_docs).sum(), cols: ["full", "multi"].iter().map(|name| ColSpec { name: name.to_string(), kind: Kind::MixedInt,
                rows: inputs.iter().flat_map(|(t, _)| t.cols.iter().find(|c| c.name == *name).unwrap().rows.iter().cloned()).collect() }).collect() };
            let r = guarded(|| -> Result<Vec<u8>, String> {
                let readers: Vec<ColumnarReader> = inputs.iter().map(|(_, b)| ColumnarReader::open(b.clone()).map_err(|e| e.to_string())).collect::<Result<_, _>>()?;
                let refs: Vec<&ColumnarReader> = readers.iter().collect();
                let mut outb = Vec::new();
                tantivy_columnar::merge_columnar(&refs, &[], StackMergeOrder::stack(&refs).into(), &mut outb).map_err(|e| e.to_string())?;
                Ok(outb)
            });
            let order_name = ["legacy,new", "new,legacy", "legacy,legacy"][order];
            let ctx = json!({"what": "corpus: stack merge with the shipped legacy v1 file", "order": order_name, "new_rows": m});
            match r { Ok(Ok(b)) => check_table(b, &merged, rng, out, ctx, false), r => out.spec_checked(false, json!({"what": "merge with the shipped legacy file failed", "ctx": ctx, "result": format!("{:?}", r.map(|x| x.map(|_| ())))})) }
        }
        out.count("corpus_shipped_legacy_file", 1);
    } else { out.count("corpus_shipped_legacy_file_missing", 1); }
    // ---- single columnar files
    let n_tables = if thorough { 220 } else { 60 };
    for ti in 0..n_tables {
        let big = if thorough { ti % 11 == 3 } else { ti % 30 == 3 };
        let num_docs = if big { *rng.pick(&[65535usize, 65536, 65537, 70000, 131072, 131073]) } else { match ti % 4 { 0 => rng.range(1, 40) as usize, 1 => super::gen_len(rng, 512, 3), _ => rng.range(1, 3000) as usize } };
        let ncols = if big { 3 } else { rng.range(1, 6) as usize };
        let t = gen_table(rng, num_docs, ncols, "c");
        let bytes = match guarded(|| write_table(&t)) { Ok(b) => b, Err(p) => { out.spec_checked(false, json!({"what": "ColumnarWriter panicked", "panic": p, "num_docs": num_docs})); continue; } };
        check_table(bytes.clone(), &t, rng, out, json!({"what": "columnar write/read", "table": ti}), num_docs <= 40);
        out.count("columnar_tables", 1);
        // the same table as a LEGACY (format v1) file: everything the property says holds whatever the format version
        match guarded(|| super::c08_legacy::to_legacy_v1(&bytes)) {
            Ok(Ok((v1, n_multi))) => {
                check_table(v1.clone(), &t, rng, out, json!({"what": "columnar read of a legacy v1 file", "table": ti, "multivalued_columns": n_multi}), false);
                if num_docs <= 40 && n_multi > 0 { legacy_multivalued_cases(v1, &t, rng, out, ti); }
                out.count("columnar_tables_legacy_v1", 1);
                out.count("legacy_v1_multivalued_columns", n_multi as u64);
            }
            r => out.spec_checked(false, json!({"what": "harness: conversion to the legacy format failed", "table": ti, "result": format!("{:?}", r.map(|x| x.map(|_| ())))})),
        }
        if big { out.count("columnar_tables_over_65536_rows", 1); }
    }
    // ---- merges
    let n_merges = if thorough { 160 } else { 45 };
    for mi in 0..n_merges {
        let k = rng.range(1, 4) as usize;
        let big = thorough && mi % 20 == 5;
        // a shared pool of column names so that inputs have differing column sets
        let pool: Vec<(String, Kind, u64)> = (0..rng.range(1, 5)).map(|c| { let kind = KINDS[rng.below(KINDS.len() as u64) as usize]; (format!("m{}_{:?}", c, kind).to_lowercase(), kind, rng.below(4)) }).collect();
        // every fourth merge (a stacked one, small inputs): a multivalued numeric column is always present ...
        let pool: Vec<(String, Kind, u64)> = if mi % 4 == 0 { vec![("mlegacy_u64".to_string(), Kind::U64, 2)] } else { pool };
        // merges 2, 3 (mod 4) -- one stacked, one shuffled: near-miss dictionaries, at least two inputs
        let near_miss: Option<NearMiss> = if mi % 4 >= 2 { Some(gen_near_miss(rng)) } else { None };
        let k = if near_miss.is_some() { k.max(2) } else { k };
        let mut tables = vec![];
        for _ in 0..k {
            let nd = if big { rng.range(30000, 70000) as usize } else if rng.chance(1, 8) { 0 } else if mi % 4 == 0 || mi % 6 == 3 || mi % 8 == 2 { rng.range(1, 15) as usize } else { rng.range(1, 700) as usize };
            let mut cols = vec![];
            if mi % 4 == 0 {
                // directed: few documents, a numeric column with 0 / 1 / several values per document
                let nd = rng.range(1, 8) as usize;
                let rows: Vec<Vec<Val>> = (0..nd).map(|_| { let l = *rng.pick(&[0usize, 0, 1, 2, 3]); gen_vals_of_kind(rng, Kind::U64, l) }).collect();
                cols.push(ColSpec { name: "mlegacy_u64".to_string(), kind: Kind::U64, rows });
                tables.push(Table { num_docs: nd, cols });
                continue;
            }
            for (name, kind, shape) in &pool {
                if rng.chance(1, 4) { continue; }   // column absent from this input
                let shape = if rng.chance(1, 3) { rng.below(4) } else { *shape };
                let density = *rng.pick(&[65536u64, 60000, 30000, 5120, 600]);
                cols.push(ColSpec { name: name.clone(), kind: *kind, rows: gen_rows(rng, *kind, nd, shape, density) });
            }
            if let Some(nm) = &near_miss {
                // Str and Bytes columns whose per-input dictionaries are near-misses of each other
                for (name, bytes) in [("mnear_str", false), ("mnear_bytes", true)] {
                    let vocab = near_miss_vocab(rng, nm, bytes);
                    let shape = rng.below(3);
                    cols.push(ColSpec { name: name.to_string(), kind: if bytes { Kind::Bytes } else { Kind::Str }, rows: rows_from_vocab(rng, &vocab, nd, shape, bytes) });
                }
            }
            tables.push(Table { num_docs: nd, cols });
        }
        let stacked = mi % 2 == 0;
        // row mapping
        let mapping: Vec<(usize, usize)> = if stacked {
            tables.iter().enumerate().flat_map(|(s, t)| (0..t.num_docs).map(move |r| (s, r))).collect()
        } else {
            let mut m: Vec<(usize, usize)> = tables.iter().enumerate().flat_map(|(s, t)| (0..t.num_docs).map(move |r| (s, r))).collect();
            let keep = rng.range(0, 100);
            m.retain(|_| rng.below(100) < keep.max(5));
            match rng.below(3) { 0 => rng.shuffle(&mut m), 1 => m.reverse(), _ => {} }
            m
        };
        // expected merged table
        let mut names: BTreeMap<String, Kind> = BTreeMap::new();
        for t in &tables { for c in &t.cols { names.insert(c.name.clone(), c.kind); } }
        let merged = Table { num_docs: mapping.len(), cols: names.iter().map(|(name, kind)| ColSpec {
            name: name.clone(), kind: *kind,
            rows: mapping.iter().map(|&(s, r)| tables[s].cols.iter().find(|c| &c.name == name).map(|c| c.rows[r].clone()).unwrap_or_default()).collect() }).collect() };
        // each input is a file of the current format or a legacy (v1) file, at any position of the merge
        let mut legacy_input: Vec<bool> = (0..k).map(|_| rng.chance(1, 2)).collect();
        if mi % 4 == 0 { let j = rng.below(k as u64) as usize; legacy_input[j] = true; }     // ... and some input is a legacy file
        if legacy_input.iter().skip(1).any(|&l| l) { out.count("merges_with_legacy_input_not_first", 1); }
        let ctx = json!({"what": "merge_columnar", "order": if stacked { "stack" } else { "shuffled" }, "inputs": tables.iter().map(|t| t.num_docs).collect::<Vec<_>>(), "legacy_v1_input": legacy_input, "merge": mi, "rows_out": mapping.len()});
        let near_hits = std::cell::Cell::new(0u64);
        let r = guarded(|| -> Result<Vec<u8>, String> {
            let files: Vec<Vec<u8>> = tables.iter().zip(&legacy_input).map(|(t, &leg)| { let b = write_table(t); if leg { super::c08_legacy::to_legacy_v1(&b).expect("legacy conversion").0 } else { b } }).collect();
            let readers: Vec<ColumnarReader> = files.into_iter().map(|b| ColumnarReader::open(b).map_err(|e| e.to_string())).collect::<Result<_, _>>()?;
            let refs: Vec<&ColumnarReader> = readers.iter().collect();
            // measured for the evidence: inputs whose dictionaries differ but share (number of terms, size, first, last)
            for name in ["mnear_str", "mnear_bytes"] {
                let mut prints: Vec<(usize, usize, Vec<u8>, Vec<u8>, Vec<Vec<u8>>)> = vec![];
                for r in &readers {
                    for h in r.read_columns(name).map_err(|e| e.to_string())? {
                        let bc: tantivy_columnar::BytesColumn = match h.open().map_err(|e| e.to_string())? { DynamicColumn::Str(s) => s.into(), DynamicColumn::Bytes(b) => b, _ => continue };
                        let n = bc.num_terms();
                        let mut terms = vec![]; for o in 0..n as u64 { let mut t = vec![]; bc.ord_to_bytes(o, &mut t).map_err(|e| e.to_string())?; terms.push(t); }
                        if n >= 3 { prints.push((n, bc.dictionary().num_bytes().get_bytes() as usize, terms[0].clone(), terms[n - 1].clone(), terms)); }
                    }
                }
                if prints.len() >= 2 && prints.iter().all(|p| (p.0, p.1, &p.2, &p.3) == (prints[0].0, prints[0].1, &prints[0].2, &prints[0].3)) && prints.iter().any(|p| p.4 != prints[0].4) {
                    near_hits.set(near_hits.get() + 1);
                }
            }
            let order: MergeRowOrder = if stacked { StackMergeOrder::stack(&refs).into() } else {
                let nums: Vec<u32> = tables.iter().map(|t| t.num_docs as u32).collect();
                ShuffleMergeOrder::for_test(&nums, mapping.iter().map(|&(s, r)| RowAddr { segment_ord: s as u32, row_id: r as u32 }).collect()).into()
            };
            let mut outb = Vec::new();
            tantivy_columnar::merge_columnar(&refs, &[], order, &mut outb).map_err(|e| e.to_string())?;
            Ok(outb)
        });
        match r {
            Err(p) => out.spec_checked(false, json!({"what": "merge_columnar panicked", "ctx": ctx, "panic": p})),
            Ok(Err(e)) => out.spec_checked(false, json!({"what": "merge_columnar failed", "ctx": ctx, "error": e})),
            Ok(Ok(bytes)) => {
                let mut known_f82: BTreeSet<String> = BTreeSet::new();
                if stacked { for (t, &leg) in tables.iter().zip(&legacy_input) { if leg { for c in &t.cols { if f82_column(&c.rows) { known_f82.insert(c.name.clone()); } } } } }
                let bytes_copy = bytes.clone();
                check_table_known(bytes, &merged, rng, out, ctx, mapping.len() <= 40, &known_f82);
                // tie: the model of the stacked merge of column INDEXES with legacy inputs (pinned flags), read back, vs the merged column
                if stacked && mapping.len() <= 60 && tables.iter().all(|t| t.num_docs >= 1) && legacy_input.iter().any(|&l| l) {
                    if let Ok(Ok(reader)) = guarded(|| ColumnarReader::open(bytes_copy.clone())) {
                        for (name, kind) in &names {
                            if is_str_kind(*kind) || *kind == Kind::Ip { continue; }
                            let per_input: Vec<Vec<Vec<Val>>> = tables.iter().map(|t| t.cols.iter().find(|c| &c.name == name).map(|c| c.rows.clone()).unwrap_or_else(|| vec![vec![]; t.num_docs])).collect();
                            if !per_input.iter().zip(&legacy_input).any(|(rows, &l)| l && rows.iter().any(|r| r.len() >= 2)) { continue; }
                            let Ok(Ok(obs)) = guarded(|| -> Result<Obs, String> { let hs = reader.read_columns(name).map_err(|e| e.to_string())?; if hs.len() != 1 { return Err("handles".into()); } observe(hs[0].open().map_err(|e| e.to_string())?) }) else { continue; };
                            // the values in merged order, mapped to the merged column's type; positions only matter for the index
                            let mapped_inputs: Option<Vec<Vec<Vec<u128>>>> = per_input.iter().map(|rows| rows.iter().map(|r| r.iter().map(|v| to_mapped(v, obs.ty)).collect::<Option<Vec<u128>>>()).collect::<Option<Vec<_>>>()).collect();
                            let Some(mapped_inputs) = mapped_inputs else { continue; };
                            let inputs_term = cf::list(&mapped_inputs.iter().zip(&legacy_input).collect::<Vec<_>>(), |(rows, &l)| {
                                let code = if rows.iter().all(|r| r.is_empty()) { 0 } else if rows.iter().all(|r| r.len() == 1) { 1 } else if rows.iter().all(|r| r.len() <= 1) { 2 } else { 3 };
                                format!("({}, {}, {})", cf::boolean(l), code, cf::list(rows, |r| cf::list(r, |v| v.to_string()))) });
                            let impl_rows = cf::list(&obs.rows, |r| cf::list(r, |v| v.to_string()));
                            out.coq_case("tie", format!("v1_stack_tie {} {}", inputs_term, impl_rows),
                                         json!({"what": "stack merge with legacy v1 inputs: merged multivalued index vs model", "merge": mi, "column": name, "legacy_v1_input": legacy_input, "inputs": tables.iter().map(|t| t.num_docs).collect::<Vec<_>>(), "in_f82_class": known_f82.contains(name)}), mapping.len() >= 2);
                            out.count("legacy_v1_stack_tie_cases", 1);
                        }
                    }
                }
                // tie: the model of the dictionary merge (k-way merge of the sorted term lists + ordinal remapping) vs the
                // merged dictionary and the merged ordinals of the implementation, for small stacked merges of Str / Bytes columns
                if stacked && mapping.len() <= 60 {
                    if let Ok(Ok(reader)) = guarded(|| ColumnarReader::open(bytes_copy.clone())) {
                        for (name, kind) in &names {
                            if !is_str_kind(*kind) { continue; }
                            let Ok(Ok(obs)) = guarded(|| -> Result<Obs, String> { let hs = reader.read_columns(name).map_err(|e| e.to_string())?; if hs.len() != 1 { return Err("handles".into()); } observe(hs[0].open().map_err(|e| e.to_string())?) }) else { continue; };
                            let Some(impl_terms) = &obs.terms else { continue; };
                            let term = |b: &Vec<u8>| cf::bytes(b);
                            let inputs_term = cf::list(&tables, |t| {
                                let rows: Vec<Vec<Val>> = t.cols.iter().find(|c| &c.name == name).map(|c| c.rows.clone()).unwrap_or_else(|| vec![vec![]; t.num_docs]);
                                let dict: Vec<Vec<u8>> = rows.iter().flatten().filter_map(|v| val_bytes(v).map(|b| b.to_vec())).collect::<BTreeSet<_>>().into_iter().collect();
                                let ords = cf::list(&rows, |r| cf::list(r, |v| cf::nat(dict.binary_search(&val_bytes(v).unwrap().to_vec()).unwrap())));
                                format!("({}, {})", cf::list(&dict, term), ords) });
                            out.coq_case("tie", format!("dict_stack_tie {} {} {}", inputs_term, cf::list(impl_terms, term), cf::list(&obs.rows, |r| cf::list(r, |v| v.to_string()))),
                                         json!({"what": "stack merge of Str / Bytes columns: merged dictionary and remapped ordinals vs model", "merge": mi, "column": name, "inputs": tables.iter().map(|t| t.num_docs).collect::<Vec<_>>(), "near_miss": near_miss.is_some()}), mapping.len() >= 2);
                            out.count("dict_merge_tie_cases", 1);
                        }
                    }
                }
                // spec of the merge itself, in Coq, for small u64 inputs
                if mapping.len() <= 30 && tables.iter().all(|t| t.num_docs <= 30) {
                    for (name, kind) in &names {
                        if *kind != Kind::U64 { continue; }
                        let cols_term = cf::list(&tables, |t| match t.cols.iter().find(|c| &c.name == name) {
                            Some(c) => cf::list(&c.rows, |r| cf::list(r, |v| if let Val::U(x) = v { x.to_string() } else { "0".into() })),
                            None => cf::list(&vec![0; t.num_docs], |_| "[]".to_string()) });
                        let merged_term = cf::list(&merged.cols.iter().find(|c| &c.name == name).unwrap().rows, |r| cf::list(r, |v| if let Val::U(x) = v { x.to_string() } else { "0".into() }));
                        let spec = if stacked { format!("merge_stacked {}", cols_term) } else { format!("merge_shuffled {} {}", cols_term, cf::list(&mapping, |(s, r)| format!("({}, {})", cf::nat(*s), cf::nat(*r)))) };
                        out.coq_case("spec", format!("column_eqb ({}) {}", spec, merged_term), json!({"what": "merge spec (Coq) = expected rows used for the read-back", "order": if stacked { "stack" } else { "shuffled" }, "column": name}), mapping.len() >= 2);
                    }
                }
            }
        }
        out.count(if stacked { "merges_stacked" } else { "merges_shuffled" }, 1);
        if near_hits.get() > 0 { out.count(if stacked { "merges_stacked_near_miss_dictionaries_same_fingerprint" } else { "merges_shuffled_near_miss_dictionaries_same_fingerprint" }, near_hits.get()); }
    }
}
