//! tv-harness: correspondence harness shared code (PRNG, Gallina printers, case writer,
//! VerifDirectory).  One binary per property lives in src/bin/.
pub mod coqfmt;
pub mod e1;
pub mod out;
pub mod rng;
pub mod vdir;

use std::panic::{catch_unwind, AssertUnwindSafe};

/// Run `f`, turning a panic into `Err(message)` (a panic is an observation, never a harness crash).
pub fn guarded<T>(f: impl FnOnce() -> T) -> Result<T, String> {
    match catch_unwind(AssertUnwindSafe(f)) {
        Ok(v) => Ok(v),
        Err(e) => {
            let msg = if let Some(s) = e.downcast_ref::<&str>() {
                s.to_string()
            } else if let Some(s) = e.downcast_ref::<String>() {
                s.clone()
            } else {
                "panic".to_string()
            };
            Err(msg)
        }
    }
}

/// Silence the default panic hook (panics are caught and reported as observations).
pub fn quiet_panics() {
    std::panic::set_hook(Box::new(|_| {}));
}

/// Standard CLI of every property binary: --seed N --tier quick|thorough --out DIR [--replay FILE]
pub struct Args {
    pub seed: u64,
    pub tier: String,
    pub out: std::path::PathBuf,
    pub replay: Option<std::path::PathBuf>,
    pub extra: Vec<String>,
}

impl Args {
    pub fn parse() -> Args {
        let mut a = Args { seed: 1, tier: "quick".into(), out: "out".into(), replay: None, extra: vec![] };
        let mut it = std::env::args().skip(1);
        while let Some(x) = it.next() {
            match x.as_str() {
                "--seed" => a.seed = it.next().unwrap().parse().unwrap(),
                "--tier" => a.tier = it.next().unwrap(),
                "--out" => a.out = it.next().unwrap().into(),
                "--replay" => a.replay = Some(it.next().unwrap().into()),
                other => a.extra.push(other.to_string()),
            }
        }
        a
    }
    pub fn thorough(&self) -> bool {
        self.tier == "thorough"
    }
}
