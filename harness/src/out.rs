//! Case writer: shards of `cases_<k>.v` (each case a Gallina term of type bool, true = agrees),
//! a side-car `cases.jsonl` (id -> kind, description, replay data) and `summary.json`.
use std::fs;
use std::io::Write;
use std::path::{Path, PathBuf};

use serde_json::{json, Value};

pub struct CaseOut {
    dir: PathBuf,
    header: String,
    shard_cases: usize,
    cur: Vec<(u64, String)>,
    shard_no: usize,
    next_id: u64,
    jsonl: fs::File,
    pub n_tie: u64,
    pub n_spec: u64,
    pub spec_fail: Vec<Value>,
    pub samples: Vec<Value>,
    pub stats: serde_json::Map<String, Value>,
    distinct: std::collections::HashSet<u64>,
    pub nontrivial: u64,
}

fn fnv(s: &str) -> u64 {
    let mut h: u64 = 0xcbf29ce484222325;
    for b in s.bytes() { h ^= b as u64; h = h.wrapping_mul(0x100000001b3); }
    h
}

impl CaseOut {
    /// `header`: the `From TV Require Import ...` lines (and local definitions) of every shard.
    pub fn new(dir: &Path, header: &str, shard_cases: usize) -> CaseOut {
        fs::create_dir_all(dir).unwrap();
        for e in fs::read_dir(dir).unwrap().flatten() {
            let n = e.file_name().to_string_lossy().to_string();
            if n.starts_with("cases_") || n == "cases.jsonl" || n == "summary.json" { let _ = fs::remove_file(e.path()); }
        }
        CaseOut {
            dir: dir.to_path_buf(), header: header.to_string(), shard_cases, cur: vec![], shard_no: 0, next_id: 0,
            jsonl: fs::File::create(dir.join("cases.jsonl")).unwrap(),
            n_tie: 0, n_spec: 0, spec_fail: vec![], samples: vec![], stats: Default::default(),
            distinct: Default::default(), nontrivial: 0,
        }
    }

    /// A case evaluated by Coq.  `kind` = "tie" (model vs implementation) or "spec" (spec predicate
    /// from a theorem statement evaluated on the implementation's output).  `term` : bool.
    /// `nontrivial`: whether the case is non-trivial by the property's stated rule.
    pub fn coq_case(&mut self, kind: &str, term: String, desc: Value, nontrivial: bool) -> u64 {
        let id = self.next_id;
        self.next_id += 1;
        if kind == "tie" { self.n_tie += 1 } else { self.n_spec += 1 }
        if self.distinct.insert(fnv(&term)) && nontrivial { self.nontrivial += 1; }
        writeln!(self.jsonl, "{}", json!({"id": id, "kind": kind, "desc": desc})).unwrap();
        if self.samples.len() < 4 && nontrivial { self.samples.push(json!({"id": id, "kind": kind, "case": desc})); }
        self.cur.push((id, term));
        if self.cur.len() >= self.shard_cases { self.flush_shard(); }
        id
    }

    /// A spec predicate already decided on the implementation side (bulk sweeps): record failures.
    pub fn spec_checked(&mut self, ok: bool, desc: Value) {
        self.n_spec += 1;
        if !ok { self.spec_fail.push(desc); }
    }

    pub fn count(&mut self, key: &str, by: u64) {
        let e = self.stats.entry(key.to_string()).or_insert(json!(0));
        *e = json!(e.as_u64().unwrap_or(0) + by);
    }

    fn flush_shard(&mut self) {
        if self.cur.is_empty() { return; }
        let path = self.dir.join(format!("cases_{}.v", self.shard_no));
        let mut f = std::io::BufWriter::new(fs::File::create(path).unwrap());
        writeln!(f, "{}", self.header).unwrap();
        writeln!(f, "Local Open Scope N_scope.").unwrap();
        writeln!(f, "Definition cases : list (N * bool) := [").unwrap();
        let n = self.cur.len();
        for (i, (id, t)) in self.cur.iter().enumerate() {
            writeln!(f, " ({}, {}){}", id, t, if i + 1 < n { ";" } else { "" }).unwrap();
        }
        writeln!(f, "].").unwrap();
        writeln!(f, "Definition failing : list N := map fst (filter (fun c => negb (snd c)) cases).").unwrap();
        writeln!(f, "Eval vm_compute in (length cases, failing).").unwrap();
        self.cur.clear();
        self.shard_no += 1;
    }

    pub fn finish(mut self, extra: Value) {
        self.flush_shard();
        let summary = json!({
            "coq_cases": self.next_id, "tie_cases": self.n_tie, "spec_cases": self.n_spec,
            "distinct_nontrivial": self.nontrivial,
            "spec_failures": self.spec_fail, "samples": self.samples, "stats": self.stats,
            "shards": self.shard_no, "extra": extra,
        });
        fs::write(self.dir.join("summary.json"), serde_json::to_string_pretty(&summary).unwrap()).unwrap();
    }
}
