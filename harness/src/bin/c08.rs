//! C08 correspondence: fast fields return exactly the values that were indexed.
//!  (A) tantivy_bitpacker BitPacker / BitUnpacker vs the bit-packer model (decode direction both ways);
//!  (B) every u64 column codec forced in turn (bit-packed, linear, block-wise linear) vs the codec
//!      models (decode direction) and vs the list specification; statistics; range lookup;
//!  (M) monotonic mappings (i64, f64, bool) vs the model and vs Rust's own ordering;
//!  (C) tantivy_columnar: ColumnarWriter -> serialize -> ColumnarReader, merge_columnar with stacked
//!      and shuffled orders, vs the list-of-lists specification;
//!  (D) through tantivy: schema with every fast type -> SegmentReader::fast_fields(), before and after merges.
use std::collections::BTreeMap;
use std::net::Ipv6Addr;
use std::sync::Arc;

use serde_json::json;
use tantivy_bitpacker::{BitPacker, BitUnpacker};
use tantivy_columnar::column_values::{load_u64_based_column_values, serialize_u64_based_column_values, CodecType};
use tantivy_columnar::{ColumnValues, MonotonicallyMappableToU64};
use tantivy_common::{BinarySerializable, OwnedBytes, VInt};
use tvh::coqfmt as cf;
use tvh::out::CaseOut;
use tvh::rng::Rng;
use tvh::{guarded, Args};

#[path = "../c08_columnar.rs"]
mod c08_columnar;
#[path = "../c08_tantivy.rs"]
mod c08_tantivy;
#[path = "../c08_legacy.rs"]
mod c08_legacy;

const HEADER: &str = "From TV Require Import Base.Prelude Generated.Constants Columnar.BitPack Columnar.MonoMap Columnar.Stats Columnar.Line Columnar.Blockwise Columnar.OptionalIndex Columnar.Spec Columnar.Cases.";

// ------------------------------------------------------------------------------------------ generators
pub fn width_mask(w: u32) -> u64 {
    if w == 0 { 0 } else if w >= 64 { u64::MAX } else { (1u64 << w) - 1 }
}

/// boundary-biased value of at most `w` bits
pub fn gen_val(rng: &mut Rng, w: u32) -> u64 {
    let m = width_mask(w);
    match rng.below(8) {
        0 => 0,
        1 => m,
        2 => m >> 1,
        3 => (m >> 1).wrapping_add(1) & m,
        4 => 1 & m,
        _ => rng.next_u64() & m,
    }
}

/// boundary-biased lengths around multiples of `k`
pub fn gen_len(rng: &mut Rng, k: usize, max_mult: usize) -> usize {
    let m = 1 + rng.below(max_mult as u64) as usize;
    match rng.below(6) {
        0 => (k * m).saturating_sub(1),
        1 => k * m,
        2 => k * m + 1,
        3 => rng.range(0, 3) as usize,
        _ => rng.range(1, (k * max_mult + 7) as u64) as usize,
    }
}

/// uniform below 2^e with e uniform in [lo, hi]
pub fn pow2_below(rng: &mut Rng, lo: u64, hi: u64) -> u64 { let e = rng.range(lo, hi); rng.below(1u64 << e) }

pub const VAL_KINDS: [&str; 10] = ["constant", "linear", "near-linear+outliers", "random", "small-range", "extremes", "gcd", "decreasing", "blocks", "wrap-linear"];

/// u64 column contents of the given kind
pub fn gen_values(rng: &mut Rng, kind: usize, n: usize) -> Vec<u64> {
    let base = match rng.below(5) { 0 => 0u64, 1 => u64::MAX - rng.below(5000), 2 => 1u64 << 63, 3 => rng.below(1 << 20), _ => rng.next_u64() };
    match kind {
        0 => vec![base; n],
        1 => { let s = pow2_below(rng, 0, 33); let b = base >> 1; (0..n).map(|i| b + s * i as u64).collect() }
        2 => {
            let s = pow2_below(rng, 0, 25);
            let b = base >> 2;
            (0..n).map(|i| {
                let v = b + s * i as u64 + rng.below(4);
                if rng.chance(1, 60) { match rng.below(3) { 0 => 0, 1 => u64::MAX, _ => rng.next_u64() } } else { v }
            }).collect()
        }
        3 => (0..n).map(|_| rng.next_u64()).collect(),
        4 => { let w = rng.range(0, 20) as u32; (0..n).map(|_| base.saturating_add(rng.next_u64() & width_mask(w))).collect() }
        5 => { let ex = [0u64, 1, u64::MAX, u64::MAX - 1, 1 << 63, (1 << 63) - 1, (1 << 63) + 1, 1 << 32, (1 << 56) - 1, 1 << 56, 1 << 57]; (0..n).map(|_| *rng.pick(&ex)).collect() }
        6 => { let g = match rng.below(4) { 0 => 1000, 1 => { let e = rng.range(1, 40); 1 << e } 2 => 3, _ => 1 + rng.below(1 << 20) }; let w = rng.range(0, 16) as u32; let b = base >> 1; (0..n).map(|_| b.saturating_add(g * (rng.next_u64() & width_mask(w)))).collect() }
        7 => { let s = pow2_below(rng, 0, 31); let top = (base >> 1) + s * n as u64; (0..n).map(|i| top - s * i as u64).collect() }
        8 => { // piecewise: different slopes / levels per 512-block, with jumps at block boundaries
            let mut out = Vec::with_capacity(n);
            let mut level = base >> 2; let mut slope = rng.below(1000);
            for i in 0..n {
                if i % 512 == 0 || rng.chance(1, 400) { level = match rng.below(4) { 0 => 0, 1 => rng.below(1 << 33), 2 => u64::MAX >> 1, _ => rng.next_u64() >> 2 }; slope = pow2_below(rng, 0, 30); }
                out.push(level.wrapping_add(slope.wrapping_mul((i % 512) as u64)).wrapping_add(rng.below(3)));
            }
            out
        }
        _ => { let s = rng.below(1 << 20); (0..n).map(|i| (u64::MAX - 10 * s.max(1)).wrapping_add(s.wrapping_mul(i as u64))).collect() } // crosses 2^64
    }
}

pub fn sample_indices(rng: &mut Rng, n: usize, k: usize) -> Vec<usize> {
    if n == 0 { return vec![]; }
    let mut v: Vec<usize> = vec![0, n - 1, n / 2, n.saturating_sub(2), 511.min(n - 1), 512.min(n - 1), 513.min(n - 1)];
    for m in 1..=(n / 512) { v.push((512 * m).min(n - 1)); v.push((512 * m - 1).min(n - 1)); }
    while v.len() < k + 7 { v.push(rng.below(n as u64) as usize); }
    v.sort(); v.dedup();
    if v.len() > k + 7 { let keep = k + 7; rng.shuffle(&mut v); v.truncate(keep); v.sort(); }
    v
}

// ------------------------------------------------------------------------------------------ (A) bit packer
fn impl_pack(vals: &[u64], w: u8) -> Vec<u8> {
    let mut data = Vec::new();
    let mut bp = BitPacker::new();
    for &v in vals { bp.write(v, w, &mut data).unwrap(); }
    bp.close(&mut data).unwrap();
    data
}

/// the layout specification, written naively: value k occupies bits [k*w, (k+1)*w) of the
/// little-endian bit string, ceil(n*w/8) bytes
fn naive_pack(vals: &[u64], w: u32) -> Vec<u8> {
    let nbits = vals.len() * w as usize;
    let mut out = vec![0u8; (nbits + 7) / 8];
    for (k, &v) in vals.iter().enumerate() {
        for b in 0..w as usize {
            if (v >> b) & 1 == 1 { let pos = k * w as usize + b; out[pos / 8] |= 1 << (pos % 8); }
        }
    }
    out
}

fn section_bitpacker(rng: &mut Rng, out: &mut CaseOut, thorough: bool) {
    let mut widths: Vec<u32> = (0..=56).collect();
    widths.push(64);
    let reps = if thorough { 6 } else { 2 };
    for &w in &widths {
        for rep in 0..reps {
            let n = match rep { 0 => rng.range(1, 20) as usize, 1 => gen_len(rng, 8, 9), _ => gen_len(rng, 64, 3) };
            let vals: Vec<u64> = (0..n).map(|_| gen_val(rng, w)).collect();
            let desc = json!({"what": "bitpacker", "width": w, "n": n, "vals_head": &vals[..n.min(12)]});
            let r = guarded(|| {
                let data = impl_pack(&vals, w as u8);
                let un = BitUnpacker::new(w as u8);
                let back: Vec<u64> = (0..n).map(|i| un.get(i as u32, &data)).collect();
                // decode direction 2: the implementation reads the specification layout
                let naive = naive_pack(&vals, w);
                let back2: Vec<u64> = (0..n).map(|i| un.get(i as u32, &naive)).collect();
                (data, back, naive, back2)
            });
            let Ok((data, back, naive, back2)) = r else {
                out.spec_checked(false, json!({"what": "bitpacker panicked", "case": desc, "panic": r.err()}));
                continue;
            };
            out.spec_checked(back == vals, json!({"what": "BitUnpacker::get(BitPacker bytes) != values", "case": desc}));
            out.spec_checked(back2 == vals, json!({"what": "BitUnpacker::get(specification layout) != values", "case": desc}));
            // tie, decode direction 1: the model reader on the implementation's bytes
            out.coq_case("tie", format!("ties_unpack {} {} {}", w, cf::bytes(&data), cf::ns(&vals)), desc.clone(), n >= 2 && w >= 1);
            // tie: the model writer produces the specification layout that the implementation was shown to read
            out.coq_case("tie", format!("n_list_eqb (pack {} {}) {}", w, cf::ns(&vals), cf::bytes(&naive)), desc.clone(), n >= 2 && w >= 1);
            // spec: the column specification on the implementation's answers
            out.coq_case("spec", format!("n_list_eqb {} {}", cf::ns(&vals), cf::ns(&back)), desc, n >= 2 && w >= 1);
            out.count("bitpacker_cases", 1);
            out.count(&format!("bitpacker_width_{}", if w == 0 { "0" } else if w <= 8 { "1-8" } else if w <= 32 { "9-32" } else if w <= 56 { "33-56" } else { "64" }), 1);
        }
    }
    // rejected widths: BitUnpacker::new must refuse 57..63 (the pinned rule), compute_num_bits never returns them
    for w in 57u8..=63 {
        let r = guarded(|| BitUnpacker::new(w));
        out.coq_case("tie", format!("Bool.eqb (valid_width {}) {}", w, cf::boolean(r.is_ok())), json!({"what": "BitUnpacker::new width rule", "width": w}), true);
    }
    for i in 0..=64u32 {
        for delta in [0i64, -1, 1] {
            let n = if i == 64 { u64::MAX } else { (1u64 << i).wrapping_add(delta as u64) };
            let nb = tantivy_bitpacker::compute_num_bits(n);
            out.coq_case("tie", format!("N.eqb (compute_num_bits {}) {}", n, nb), json!({"what": "compute_num_bits", "n": n.to_string()}), true);
        }
    }
}

// ------------------------------------------------------------------------------------------ (B) codecs
pub fn read_vint(data: &mut &[u8]) -> u64 { VInt::deserialize(data).unwrap().0 }

fn codec_name(c: CodecType) -> &'static str {
    match c { CodecType::Bitpacked => "bitpacked", CodecType::Linear => "linear", CodecType::BlockwiseLinear => "blockwise" }
}

struct Loaded { bytes: Vec<u8>, col: Arc<dyn ColumnValues<u64>> }

fn serialize_with(vals: &[u64], codecs: &[CodecType]) -> Option<Loaded> {
    let mut buffer = Vec::new();
    serialize_u64_based_column_values::<u64>(&&vals[..], codecs, &mut buffer).ok()?;
    let col = load_u64_based_column_values::<u64>(OwnedBytes::new(buffer.clone())).ok()?;
    Some(Loaded { bytes: buffer, col })
}

/// Gallina term of the model reader applied to the implementation's serialized column
fn model_reader_term(bytes: &[u8]) -> Option<(String, &'static str)> {
    let code = bytes[0];
    let mut rest = &bytes[1..];
    let (mn, g, q, rows) = (read_vint(&mut rest), read_vint(&mut rest), read_vint(&mut rest), read_vint(&mut rest));
    let wire = format!("({}, {}, {}, {})", mn, g, q, rows);
    match code {
        0 => Some((format!("(bitpacked_get ({}, {}))", wire, cf::bytes(rest)), "bitpacked")),
        1 => {
            let (slope, intercept) = (read_vint(&mut rest), read_vint(&mut rest));
            let bw = rest[0];
            Some((format!("(linear_get ({}, ({}, {}), {}, {}))", wire, slope, intercept, bw, cf::bytes(&rest[1..])), "linear"))
        }
        2 => {
            let n = rest.len();
            let footer_len = u32::from_le_bytes(rest[n - 4..].try_into().unwrap()) as usize;
            let data = &rest[..n - 4 - footer_len];
            let mut footer = &rest[n - 4 - footer_len..n - 4];
            let nblocks = (rows as usize + 511) / 512;
            let mut blocks = vec![];
            for _ in 0..nblocks {
                let (slope, intercept) = (read_vint(&mut footer), read_vint(&mut footer));
                let bw = footer[0]; footer = &footer[1..];
                blocks.push(format!("(({}, {}), {})", slope, intercept, bw));
            }
            Some((format!("(blockwise_get ({}, [{}], {}))", wire, blocks.join(";"), cf::bytes(data)), "blockwise"))
        }
        _ => None,
    }
}

fn section_codecs(rng: &mut Rng, out: &mut CaseOut, thorough: bool) {
    let codecs = [CodecType::Bitpacked, CodecType::Linear, CodecType::BlockwiseLinear];
    let n_cols = if thorough { 700 } else { 150 };
    let mut coq_budget: i64 = if thorough { 900 } else { 260 };
    let mut range_tie_budget: i64 = if thorough { 300 } else { 80 };
    // ---- corpus: the witness of F81 (fixed in /repo) as a regression case, every codec, plus boundary neighbours
    for (vals, lo, hi) in [(vec![10u64, 20, 30], 3u64, 5u64), (vec![10, 20, 30], 3, 9), (vec![10, 20, 30], 3, 10), (vec![10, 20, 30], 0, 0), (vec![7, 7, 7, 7], 0, 6),
                           (vec![u64::MAX - 1, u64::MAX], 0, u64::MAX - 2), (vec![1u64 << 63, (1 << 63) + 1000], 5, (1 << 63) - 1),
                           // upper bound >= 2^32 above the minimum on a narrow column (a wrapping cast to u32 would lose rows)
                           (vec![10, 21, 30, 47, 1000, 65000], 15, 4294967306), (vec![10, 21, 30, 47, 1000, 65000], 0, (5 << 32) + 9), (vec![10, 21, 30, 47, 1000, 65000], 4294967306, 4294967400),
                           (vec![100, 300, 500, 700], 100, 100 + (200u64 << 32)), (vec![100, 300, 500, 700], 300, (1 << 40) + 17), (vec![7, 8, 9], 8, (1 << 63) + 40)] {
        let n = vals.len();
        for &codec in &codecs {
            let Ok(Some(l)) = guarded(|| serialize_with(&vals, &[codec])) else { continue; };   // linear declines short columns
            let got = guarded(|| { let mut p = Vec::new(); l.col.get_row_ids_for_value_range(lo..=hi, 0..n as u32, &mut p); p });
            let want: Vec<u32> = (0..n as u32).filter(|&i| lo <= vals[i as usize] && vals[i as usize] <= hi).collect();
            let d = json!({"what": "corpus: range lookup at / below the column minimum (regression of F81)", "codec": codec_name(codec), "vals": vals.iter().map(|v| v.to_string()).collect::<Vec<_>>(), "lo": lo.to_string(), "hi": hi.to_string()});
            match got {
                Err(p) => out.spec_checked(false, json!({"what": "range lookup panicked", "case": d, "panic": p})),
                Ok(got) => {
                    out.spec_checked(got == want, d.clone());
                    let col_term = cf::list(&vals, |v| format!("[{}]", v));
                    out.coq_case("spec", format!("nat_list_eqb (range_lookup {} {} {}) {}", lo, hi, col_term, cf::list(&got, |x| cf::nat(*x as usize))), d.clone(), true);
                    if codec == CodecType::Bitpacked {
                        let mut rest = &l.bytes[1..];
                        let wire = format!("({}, {}, {}, {})", read_vint(&mut rest), read_vint(&mut rest), read_vint(&mut rest), read_vint(&mut rest));
                        out.coq_case("tie", format!("range_reads_as ({}, {}) {} {} 0%nat {} {}", wire, cf::bytes(rest), lo, hi, cf::nat(n), cf::list(&got, |x| cf::nat(*x as usize))), d, true);
                    }
                }
            }
            out.count("corpus_range_regression", 1);
        }
    }
    for ci in 0..n_cols {
        let kind = ci % VAL_KINDS.len();
        let big = thorough && ci % 50 == 7;
        let n = if big { rng.range(65_000, 200_000) as usize } else if ci % 4 == 0 { rng.range(1, 40) as usize } else { gen_len(rng, 512, 3) };
        let n = n.max(1);
        let vals = gen_values(rng, kind, n);
        for &codec in &codecs {
            let desc = json!({"what": "codec", "codec": codec_name(codec), "kind": VAL_KINDS[kind], "n": n, "seed_case": ci, "vals_head": &vals[..n.min(8)]});
            let r = guarded(|| serialize_with(&vals, &[codec]));
            let loaded = match r {
                Err(p) => { out.spec_checked(false, json!({"what": "codec panicked", "case": desc, "panic": p})); continue; }
                Ok(None) => {
                    // the linear codec declines columns shorter than its estimation block: allowed
                    let declined_ok = codec == CodecType::Linear && n < 512;
                    out.spec_checked(declined_ok, json!({"what": "codec refused the column", "case": desc}));
                    out.count("codec_declined", 1);
                    continue;
                }
                Ok(Some(l)) => l,
            };
            let col = &loaded.col;
            // ---- spec on the implementation side (bulk): exact values, bounds, length
            let r = guarded(|| {
                let back: Vec<u64> = (0..n as u32).map(|i| col.get_val(i)).collect();
                (back, col.min_value(), col.max_value(), col.num_vals())
            });
            let Ok((back, mn, mx, nv)) = r else { out.spec_checked(false, json!({"what": "get_val panicked", "case": desc})); continue; };
            out.spec_checked(back == vals, json!({"what": "get_val != value added", "case": desc, "first_diff": back.iter().zip(&vals).position(|(a, b)| a != b)}));
            out.spec_checked(vals.iter().all(|&v| mn <= v && v <= mx), json!({"what": "min/max do not bound the values", "case": desc, "min": mn.to_string(), "max": mx.to_string()}));
            out.spec_checked(nv as usize == n, json!({"what": "num_vals != number of values", "case": desc, "num_vals": nv}));
            out.count(&format!("codec_{}", codec_name(codec)), 1);
            out.count(&format!("kind_{}", VAL_KINDS[kind]), 1);
            // ---- range lookup on the column values (row ids in [r0, r1))
            for _ in 0..3 {
                let (lo, hi) = gen_range(rng, &vals);
                let r0 = if rng.chance(1, 2) { 0 } else { rng.below(n as u64 + 1) as u32 };
                let r1 = if rng.chance(1, 2) { n as u32 } else { rng.range(r0 as u64, n as u64) as u32 };
                let got = guarded(|| { let mut p = Vec::new(); col.get_row_ids_for_value_range(lo..=hi, r0..r1, &mut p); p });
                let want: Vec<u32> = (r0..r1).filter(|&i| lo <= vals[i as usize] && vals[i as usize] <= hi).collect();
                if codec == CodecType::Bitpacked { let win: Vec<u128> = vals.iter().map(|&v| v as u128).collect(); let g = gcd_to_min(&win, mn as u128);
                    if u32_wrap_sensitive(&win, g, lo as u128, hi as u128) { out.count("range_lookups_sensitive_to_u32_wrap", 1); } }
                let rdesc = json!({"what": "range lookup on column values", "codec": codec_name(codec), "kind": VAL_KINDS[kind], "n": n, "lo": lo.to_string(), "hi": hi.to_string(), "rows": [r0, r1], "min": mn.to_string(), "vals_head": &vals[..n.min(8)]});
                match got {
                    Err(p) => out.spec_checked(false, json!({"what": "range lookup panicked", "case": rdesc, "panic": p})),
                    Ok(got) => {
                        // tie: the model of the bit-packed range lookup on the implementation's bytes gives the same rows
                        // (the model follows the pinned guard COLUMNAR_RANGE_BELOW_MIN_GUARD)
                        if codec == CodecType::Bitpacked && n <= 64 && range_tie_budget > 0 {
                            range_tie_budget -= 1;
                            let mut rest = &loaded.bytes[1..];
                            let wire = format!("({}, {}, {}, {})", read_vint(&mut rest), read_vint(&mut rest), read_vint(&mut rest), read_vint(&mut rest));
                            out.coq_case("tie", format!("range_reads_as ({}, {}) {} {} {} {} {}", wire, cf::bytes(rest), lo, hi, cf::nat(r0 as usize), cf::nat(r1 as usize), cf::list(&got, |x| cf::nat(*x as usize))),
                                         json!({"what": "bit-packed range lookup vs model", "n": n, "lo": lo.to_string(), "hi": hi.to_string(), "rows": [r0, r1], "range_below_column_min": lo <= hi && hi < mn}), n >= 2);
                        }
                        let below_min = lo <= hi && hi < mn;
                        if below_min { out.count("range_lookups_below_column_min", 1); }
                        let ok = got == want;
                        let mut d = rdesc.clone();
                        if !ok { d["got_len"] = json!(got.len()); d["want_len"] = json!(want.len()); d["got_head"] = json!(&got[..got.len().min(8)]); d["range_below_column_min"] = json!(below_min); }
                        // a wrong answer is an ordinary violation (also in the former class F81, fixed in /repo)
                        out.spec_checked(ok, d);
                        // spec in Coq: always when the answer is wrong on a small column, sampled otherwise (more often below the minimum)
                        if n <= 64 && (!ok || (coq_budget > 0 && (below_min || rng.chance(1, 3)))) {
                            coq_budget -= 1;
                            let col_term = cf::list(&vals, |v| format!("[{}]", v));
                            out.coq_case("spec", format!("nat_list_eqb (range_lookup_in {} {} {} {} {}) {}", lo, hi, cf::nat(r0 as usize), cf::nat(r1 as usize), col_term, cf::list(&got, |x| cf::nat(*x as usize))),
                                         json!({"what": "range lookup (spec in Coq)", "codec": codec_name(codec), "n": n, "lo": lo.to_string(), "hi": hi.to_string(), "rows": [r0, r1], "vals": &vals, "range_below_column_min": below_min}), n >= 2);
                        }
                    }
                }
                out.count("range_lookups", 1);
            }
            // ---- Coq cases: model reader on the implementation's bytes (decode direction), spec on answers
            // large payloads (several kB of literals) only for a share of the columns: keeps the slowest shard short
            if coq_budget > 0 && n <= 1600 && (n <= 600 || ci % 3 == 1) {
                if let Some((reader, _)) = model_reader_term(&loaded.bytes) {
                    let idxs = sample_indices(rng, n, 6);
                    let expect: Vec<u64> = idxs.iter().map(|&i| back[i]).collect();
                    coq_budget -= 1;
                    out.coq_case("tie", format!("reads_as {} {} {}", reader, cf::ns(&idxs), cf::ns(&expect)), desc.clone(), n >= 2);
                    // reported statistics vs the model's statistics (observable: min, max, rows)
                    if n <= 300 {
                        out.coq_case("tie", format!("stats_tie {} {} {} {}", cf::ns(&vals), mn, mx, nv), desc.clone(), n >= 2);
                        out.coq_case("spec", format!("n_list_eqb {} {} && bounds_all {} {} [{}]", cf::ns(&vals), cf::ns(&back), mn, mx, cf::ns(&vals)), desc.clone(), n >= 2);
                        coq_budget -= 2;
                    }
                }
            }
        }
        // auto-detected codec (the estimator's choice is free; only decoded behaviour is compared)
        if let Ok(Some(l)) = guarded(|| serialize_with(&vals, &codecs)) {
            let ok = guarded(|| (0..n as u32).all(|i| l.col.get_val(i) == vals[i as usize])).unwrap_or(false);
            out.spec_checked(ok, json!({"what": "auto codec: get_val != value added", "kind": VAL_KINDS[kind], "n": n, "chosen": l.bytes[0]}));
            out.count(&format!("auto_chose_{}", l.bytes[0]), 1);
        }
    }
}

/// value ranges biased to the column's own values and to its min / max
pub fn gcd_u128(mut a: u128, mut b: u128) -> u128 { while b != 0 { let r = a % b; a = b; b = r; } a }

/// gcd of the differences to the minimum (1 when all values are equal), as the column statistics compute it
pub fn gcd_to_min(vals: &[u128], mn: u128) -> u128 {
    let g = vals.iter().fold(0u128, |g, &v| gcd_u128(g, v - mn));
    if g == 0 { 1 } else { g }
}

/// Range bounds around the u32 boundary of the bit-packed range lookup: after subtracting the column minimum
/// and dividing by the gcd the bound is m * 2^32 + (something small), where a truncating cast to u32 would wrap;
/// plus the fixed values 5 * 2^32, 2^40 + 17, 2^63 + 40 (absolute and relative to the minimum).
pub fn u32_boundary_bound(rng: &mut Rng, mn: u128, g: u128, top: u128) -> u128 {
    let m: u128 = *rng.pick(&[1u128, 1, 1, 2, 5, 255, 256, 65536]);
    let k: i128 = *rng.pick(&[0i128, 0, 1, 2, 3, 10, 17, 40, -1, -2, 1000, 65000]);
    let v: u128 = match rng.below(10) {
        0 => 5u128 << 32,
        1 => (1u128 << 40) + 17,
        2 => (1u128 << 63) + 40,
        3 => mn.saturating_add((1u128 << 40) + 17),
        4 => mn.saturating_add(5u128 << 32),
        5 => mn.saturating_add((m << 32).saturating_mul(g)),                       // exactly m * 2^32 steps above the minimum
        _ => { let base = mn.saturating_add((m << 32).saturating_mul(g)); let off = (k.unsigned_abs()).saturating_mul(if rng.chance(1, 2) { g } else { 1 });
               if k < 0 { base.saturating_sub(off) } else { base.saturating_add(off) } }
    };
    v.min(top)
}

/// Would a bit-packed reader that casts the transformed upper bound to u32 WITHOUT saturating lose rows on this
/// lookup?  (measures how well the generators aim at that boundary; reported in the evidence)
pub fn u32_wrap_sensitive(all: &[u128], g: u128, lo: u128, hi: u128) -> bool {
    let (Some(&mn), Some(&mx)) = (all.iter().min(), all.iter().max()) else { return false; };
    if lo > hi || hi < mn || (mx - mn) / g >= (1u128 << 32) { return false; }
    let a = (lo.saturating_sub(mn) + g - 1) / g;
    let b = hi.saturating_sub(mn) / g;
    if a > u32::MAX as u128 { return false; }
    let b32 = b & 0xFFFF_FFFF;
    all.iter().any(|&v| lo <= v && v <= hi && !(a <= (v - mn) / g && (v - mn) / g <= b32))
}

/// value ranges biased to the column's own values, to its min / max and to the u32 boundary of the bit-packed reader
pub fn gen_range(rng: &mut Rng, vals: &[u64]) -> (u64, u64) {
    let mn = *vals.iter().min().unwrap_or(&0);
    let mx = *vals.iter().max().unwrap_or(&0);
    let pick = |rng: &mut Rng| -> u64 {
        match rng.below(8) {
            0 => mn, 1 => mx, 2 => mn.wrapping_sub(1), 3 => mx.wrapping_add(1), 4 => 0, 5 => u64::MAX,
            6 => rng.next_u64(),
            _ => if vals.is_empty() { 0 } else { vals[rng.below(vals.len() as u64) as usize].wrapping_add(rng.below(3)).wrapping_sub(1) },
        }
    };
    let (a, b) = (pick(rng), pick(rng));
    match rng.below(10) {
        0 => (a.max(b), a.min(b)),                 // possibly empty range
        1 if mn > 0 => { let hi = rng.below(mn); (rng.below(hi + 1), hi) } // entirely below the minimum
        2 | 3 | 4 => {
            // upper (and sometimes lower) bound at the u32 boundary relative to min and gcd
            let all: Vec<u128> = vals.iter().map(|&v| v as u128).collect();
            let g = gcd_to_min(&all, mn as u128);
            let hi = u32_boundary_bound(rng, mn as u128, g, u64::MAX as u128) as u64;
            let lo = match rng.below(4) { 0 => u32_boundary_bound(rng, mn as u128, g, u64::MAX as u128) as u64, 1 => 0, 2 => mn.saturating_add(rng.below(20)), _ => a.min(b) };
            (lo.min(hi), hi.max(lo))
        }
        _ => (a.min(b), a.max(b)),
    }
}


// ------------------------------------------------------------------------------------------ (O) optional index
fn section_optional_index(rng: &mut Rng, out: &mut CaseOut, thorough: bool) {
    use tantivy_columnar::column_index::{OptionalIndex, Set};
    let n_cases = if thorough { 120 } else { 36 };
    let mut dense_coq_budget = if thorough { 10 } else { 3 };
    for ci in 0..n_cases {
        // number of rows around 65536*k, per-block densities around the dense/sparse switch (5120)
        let num_rows: u32 = match ci % 6 { 0 => rng.range(1, 300) as u32, 1 => *rng.pick(&[65535u32, 65536, 65537]), 2 => *rng.pick(&[131071u32, 131072, 131073, 200000]), 3 => rng.range(1, 70000) as u32, 4 => rng.range(65536, 140000) as u32, _ => rng.range(1, 5000) as u32 };
        let nblocks = (num_rows as usize + 65535) / 65536;
        let mut rows: Vec<u32> = vec![];
        for b in 0..nblocks {
            let lo = (b * 65536) as u32; let hi = ((b + 1) * 65536).min(num_rows as usize) as u32;
            let target = *rng.pick(&[0u32, 1, 2, 40, 5119, 5120, 5121, 5200, 20000, 65535, 65536]);
            let span = hi - lo;
            let target = target.min(span);
            // choose exactly `target` rows of the block: clustered or uniform
            let mut chosen: Vec<u32> = if target == span { (lo..hi).collect() } else if rng.chance(1, 3) {
                let start = lo + rng.below((span - target + 1) as u64) as u32; (start..start + target).collect()
            } else {
                let mut set = std::collections::BTreeSet::new();
                while (set.len() as u32) < target { set.insert(lo + rng.below(span as u64) as u32); }
                set.into_iter().collect()
            };
            rows.append(&mut chosen);
        }
        let desc = json!({"what": "optional index", "num_rows": num_rows, "non_null": rows.len(), "rows_head": &rows[..rows.len().min(10)]});
        let r = guarded(|| {
            let oi = OptionalIndex::for_test(num_rows, &rows);
            // bulk spec on the implementation side: select/rank inverse on every row, membership on every doc
            let sel_ok = rows.iter().enumerate().all(|(k, &r)| oi.select(k as u32) == r && oi.rank(r) == k as u32 && oi.rank_if_exists(r) == Some(k as u32) && oi.contains(r));
            let iter_ok = oi.iter_non_null_docs().eq(rows.iter().copied());
            let mut k = 0usize; let mut rank_ok = true;
            for d in 0..num_rows { if k < rows.len() && rows[k] == d { k += 1; continue; } if oi.rank(d) != k as u32 || oi.rank_if_exists(d).is_some() || oi.contains(d) { rank_ok = false; break; } }
            let counts_ok = oi.num_docs() == num_rows && oi.num_non_nulls() as usize == rows.len();
            // sampled observations for the Coq cases
            let mut docs: Vec<u32> = vec![0, num_rows - 1, num_rows, num_rows + 5, 65535, 65536, 65537, 63, 64, 131071, 131072];
            for _ in 0..10 { if !rows.is_empty() { let r = rows[rng.below(rows.len() as u64) as usize]; docs.push(r); docs.push(r + 1); docs.push(r.saturating_sub(1)); } docs.push(rng.below(num_rows as u64 + 3) as u32); }
            docs.sort(); docs.dedup();
            let ranks: Vec<u32> = if rows.is_empty() { vec![] } else { let n = rows.len() as u32; let mut v = vec![0, n - 1, n / 2, 5119.min(n - 1), 5120.min(n - 1)]; for _ in 0..8 { v.push(rng.below(n as u64) as u32); } v.sort(); v.dedup(); v };
            let er: Vec<u32> = docs.iter().map(|&d| oi.rank(d)).collect();
            let erie: Vec<Option<u32>> = docs.iter().map(|&d| oi.rank_if_exists(d)).collect();
            let esel: Vec<u32> = ranks.iter().map(|&k| oi.select(k)).collect();
            (sel_ok, iter_ok, rank_ok, counts_ok, docs, ranks, er, erie, esel)
        });
        let Ok((sel_ok, iter_ok, rank_ok, counts_ok, docs, ranks, er, erie, esel)) = r else { out.spec_checked(false, json!({"what": "optional index panicked", "case": desc, "panic": r.err()})); continue; };
        out.spec_checked(sel_ok, json!({"what": "optional index: select/rank/rank_if_exists/contains wrong on a non-null row", "case": desc}));
        out.spec_checked(iter_ok, json!({"what": "optional index: iter_non_null_docs != rows", "case": desc}));
        out.spec_checked(rank_ok, json!({"what": "optional index: rank / rank_if_exists / contains wrong on a null row", "case": desc}));
        out.spec_checked(counts_ok, json!({"what": "optional index: num_docs / num_non_nulls", "case": desc}));
        out.count("optional_index_cases", 1);
        let has_dense = rows.len() >= 5120;
        out.count(if has_dense { "optional_index_maybe_dense" } else { "optional_index_sparse_only" }, 1);
        // Coq cases: small indexes always, a few with >= 5120 rows in a block (dense), literals kept moderate
        if rows.len() > 6500 { continue; }
        if rows.len() > 600 { if !has_dense || dense_coq_budget == 0 { continue; } dense_coq_budget -= 1; }
        let args = format!("{} {} {} {} {} {}", cf::ns(&rows), cf::ns(&docs), cf::ns(&ranks), cf::ns(&er), cf::list(&erie, |o| cf::option(o, |x| x.to_string())), cf::ns(&esel));
        out.coq_case("tie", format!("opt_tie {} {}", num_rows, args), desc.clone(), rows.len() >= 2);
        out.coq_case("spec", format!("opt_spec {}", args), desc, rows.len() >= 2);
    }
}

// ------------------------------------------------------------------------------------------ (M) monotonic mappings
fn section_mono(rng: &mut Rng, out: &mut CaseOut, thorough: bool) {
    let n = if thorough { 400 } else { 120 };
    let i_ex = [i64::MIN, i64::MIN + 1, -1, 0, 1, i64::MAX - 1, i64::MAX, 1 << 32, -(1 << 32)];
    let f_ex = [0.0f64, -0.0, f64::INFINITY, f64::NEG_INFINITY, f64::MIN, f64::MAX, f64::MIN_POSITIVE, -f64::MIN_POSITIVE, 1.0, -1.0, 5e-324, -5e-324, 1e300, -1e300];
    for k in 0..n {
        // i64
        let a = if k < i_ex.len() { i_ex[k] } else { rng.next_u64() as i64 >> rng.below(64) };
        let b = if k % 3 == 0 { *rng.pick(&i_ex) } else { rng.next_u64() as i64 >> rng.below(64) };
        let (ua, ub) = (a.to_u64(), b.to_u64());
        out.coq_case("tie", format!("N.eqb (i64_to_u64 {}) {} && Z.eqb (u64_to_i64 {}) {}", cf::z(a as i128), ua, ua, cf::z(i64::from_u64(ua) as i128)),
                     json!({"what": "i64_to_u64", "a": a}), true);
        out.spec_checked(i64::from_u64(ua) == a && ((a < b) == (ua < ub)), json!({"what": "i64 mapping not monotone / not inverted", "a": a, "b": b}));
        // f64 (non-NaN)
        let fa = if k < f_ex.len() { f_ex[k] } else { gen_f64(rng) };
        let fb = if k % 3 == 1 { *rng.pick(&f_ex) } else { gen_f64(rng) };
        let (ba, bb) = (fa.to_bits(), fb.to_bits());
        let (ma, mb) = (fa.to_u64(), fb.to_u64());
        out.coq_case("tie", format!("N.eqb (f64_to_u64 {}) {} && N.eqb (u64_to_f64 {}) {}", ba, ma, ma, f64::from_u64(ma).to_bits()),
                     json!({"what": "f64_to_u64", "bits": ba.to_string(), "value": format!("{:e}", fa)}), true);
        // the model's numeric key agrees with Rust's float comparison (ties the key of the theorem to IEEE order)
        out.coq_case("tie", format!("Bool.eqb (Z.ltb (f64_key {}) (f64_key {})) {} && negb (f64_is_nan {})", ba, bb, cf::boolean(fa < fb), ba),
                     json!({"what": "f64 key order = IEEE order", "a": format!("{:e}", fa), "b": format!("{:e}", fb)}), true);
        out.spec_checked(f64::from_u64(ma).to_bits() == ba && (!(fa < fb) || ma < mb) && (!(ma < mb) || fa <= fb),
                         json!({"what": "f64 mapping not monotone / not inverted", "a": format!("{:e}", fa), "b": format!("{:e}", fb)}));
        out.count("mono_cases", 2);
    }
    for b in [false, true] {
        out.coq_case("tie", format!("N.eqb (bool_to_u64 {}) {} && Bool.eqb (u64_to_bool {}) {}", cf::boolean(b), b.to_u64(), b.to_u64(), cf::boolean(bool::from_u64(b.to_u64()))), json!({"what": "bool mapping", "b": b}), true);
    }
}

pub fn gen_f64(rng: &mut Rng) -> f64 {
    loop {
        let f = match rng.below(6) {
            0 => f64::from_bits(rng.next_u64()),
            1 => (rng.below(2000) as f64 - 1000.0) / 8.0,
            2 => f64::from_bits(rng.next_u64() & 0x800F_FFFF_FFFF_FFFF), // subnormals
            3 => *rng.pick(&[0.0, -0.0, f64::INFINITY, f64::NEG_INFINITY, f64::MAX, f64::MIN]),
            _ => (rng.next_u64() as i64 >> rng.below(60)) as f64 * 0.37,
        };
        if !f.is_nan() { return f; }
    }
}

pub fn ip_from(rng: &mut Rng) -> Ipv6Addr {
    match rng.below(5) {
        0 => std::net::Ipv4Addr::from(rng.next_u64() as u32).to_ipv6_mapped(),
        1 => Ipv6Addr::from(0u128),
        2 => Ipv6Addr::from(u128::MAX),
        3 => Ipv6Addr::from((rng.below(4) as u128) << 64 | rng.below(50) as u128),
        _ => Ipv6Addr::from(((rng.next_u64() as u128) << 64) | rng.next_u64() as u128),
    }
}

fn main() {
    let args = Args::parse();
    tvh::quiet_panics();
    let mut rng = Rng::new(args.seed);
    let thorough = args.thorough();
    let mut out = CaseOut::new(&args.out, HEADER, 36);
    let only: Option<String> = args.extra.iter().find_map(|a| a.strip_prefix("--only=").map(|s| s.to_string()));
    let want = |s: &str| only.as_deref().map(|o| o == s).unwrap_or(true);

    if want("bitpacker") { section_bitpacker(&mut rng.fork(), &mut out, thorough); }
    if want("codecs") { section_codecs(&mut rng.fork(), &mut out, thorough); }
    if want("mono") { section_mono(&mut rng.fork(), &mut out, thorough); }
    if want("optidx") { section_optional_index(&mut rng.fork(), &mut out, thorough); }
    if want("columnar") { c08_columnar::section_columnar(&mut rng.fork(), &mut out, thorough); }
    if want("tantivy") { c08_tantivy::section_tantivy(&mut rng.fork(), &mut out, thorough); }

    let _ = BTreeMap::<u8, u8>::new();
    out.finish(json!({"seed": args.seed, "tier": args.tier}));
}
