use tantivy::collector::TopDocs;
use tantivy::query::TermQuery;
use tantivy::schema::{IndexRecordOption, Schema, TEXT};
use tantivy::{doc, Index, IndexWriter, Term};
fn main() {
    let segkeys: Vec<Vec<usize>> = vec![vec![0, 2, 0, 0, 1, 2, 1, 2, 0, 1, 1], vec![0, 2], vec![0, 1, 1, 1, 2, 2, 2, 2, 1, 0, 1, 0, 2]];
    let mut sb = Schema::builder();
    let t = sb.add_text_field("t", TEXT);
    let index = Index::create_in_ram(sb.build());
    let mut w: IndexWriter = index.writer_with_num_threads(1, 20_000_000).unwrap();
    w.set_merge_policy(Box::new(tantivy::merge_policy::NoMergePolicy));
    for (si, keys) in segkeys.iter().enumerate() {
        for _ in 0..(60 - 14 * si - keys.len()) { w.add_document(doc!(t => "y y y")).unwrap(); }
        for c in keys { let mut words = vec!["x"; c + 1]; words.extend(vec!["y"; 2 - c]); w.add_document(doc!(t => words.join(" "))).unwrap(); }
        w.commit().unwrap();
    }
    let searcher = index.reader().unwrap().searcher();
    for (i, sr) in searcher.segment_readers().iter().enumerate() { println!("seg {i} max_doc {}", sr.max_doc()); }
    let q = TermQuery::new(Term::from_field_text(t, "x"), IndexRecordOption::WithFreqs);
    for k in 4..=6 {
        let got = searcher.search(&q, &TopDocs::with_limit(k).order_by_score()).unwrap();
        println!("k={k} got {:?}", got.iter().map(|(s, a)| (*s, a.segment_ord, a.doc_id)).collect::<Vec<_>>());
    }
}
