//! C10 correspondence: file-set equality at quiescence (directory = files of the committed
//! segments + meta.json, managed list = files that exist), GC model vs implementation, no needed
//! file ever missing during the runs, and recovered crash images followed by commit + GC.
use std::collections::BTreeSet;

use serde_json::json;
use tantivy::{Index, TantivyDocument};
use tvh::e1::{self, Cfg, CrashSim, Op, PathIds};
use tvh::out::CaseOut;
use tvh::rng::Rng;
use tvh::vdir::{OpKind, VerifDirectory};
use tvh::{guarded, Args};

const HEADER: &str = "From TV Require Import Base.Prelude Storage.Crash Storage.GC.";

fn ids_of(names: &[String], ids: &mut PathIds) -> String {
    let v: Vec<u64> = names.iter().map(|n| ids.id(n)).collect();
    tvh::coqfmt::ns(&v)
}

fn main() {
    let args = Args::parse();
    tvh::quiet_panics();
    let mut rng = Rng::new(args.seed);
    let thorough = args.thorough();
    let mut out = CaseOut::new(&args.out, HEADER, 20);
    let n_hist = if thorough { 300 } else { 40 };
    let mut next_id = 0u64;
    for h in 0..n_hist {
        let len = rng.range(6, if thorough { 40 } else { 22 }) as usize;
        let mut ops = e1::gen_history(&mut rng, len, &mut next_id);
        // more explicit collections, at arbitrary points (also while indexing workers hold open segments)
        for _ in 0..3 { let i = rng.below(ops.len() as u64) as usize; ops.insert(i, Op::Gc); }
        // ... and directly after some commits: with no merge running the SAME writer's collection must leave exactly
        // the committed files (probed inside the history, see RunResult::probes)
        let commits_at: Vec<usize> = ops.iter().enumerate().filter(|(_, o)| **o == Op::Commit).map(|(i, _)| i).collect();
        for i in commits_at.into_iter().rev() { if rng.chance(1, 2) { ops.insert(i + 1, Op::Gc); } }
        let cfg = Cfg { threads: 1 + (h % 3), merge_policy: (h % 2) as u8, stop_on_error: false, replay_failed_commit: false };
        let vd = VerifDirectory::new();
        // a reader on a SECOND Index instance of the same directory keeps reloading while the writer works
        // (slowed down inside its reload, GC slowed down between its deletes): GC must never remove a file such a
        // reload still has to open
        let (schema0, _f0) = e1::schema();
        // half of the histories run on an index sorted by the id fast field: its indexing workers stream the
        // documents to a temporary doc store (<segment>.store.temp) that must be collected once the segment is final
        let sorted = (h / 2) % 2 == 1;
        let settings = if sorted {
            tantivy::IndexSettings { sort_by_field: Some(tantivy::IndexSortByField { field: "id".to_string(), order: tantivy::Order::Asc }), ..Default::default() }
        } else { tantivy::IndexSettings::default() };
        let index0 = Index::create(vd.clone(), schema0, settings).unwrap();
        let mut hr = rng.fork();
        let jitter: Vec<u64> = (0..64).map(|_| hr.below(4)).collect();
        vd.set_hook(Some(std::sync::Arc::new(move |_vd, seq, kind, _path| {
            let is_reader = std::thread::current().name().map(|n| n.starts_with("reader-")).unwrap_or(false);
            let j = jitter[seq % 64];
            if (is_reader && matches!(kind, OpKind::OpenRead | OpKind::AtomicRead)) || (!is_reader && matches!(kind, OpKind::Delete)) {
                if j > 0 { std::thread::sleep(std::time::Duration::from_micros(120 * j)); } else { std::thread::yield_now(); }
            }
        })));
        let stop = std::sync::Arc::new(std::sync::atomic::AtomicBool::new(false));
        let reader_handle = {
            let ix2 = Index::open(vd.clone()).unwrap();
            let stop = stop.clone();
            std::thread::Builder::new().name("reader-0".into()).spawn(move || {
                let mut errors: Vec<String> = vec![];
                let reader: tantivy::IndexReader = match ix2.reader_builder().reload_policy(tantivy::ReloadPolicy::Manual).try_into() { Ok(r) => r, Err(e) => return vec![format!("reader creation: {e}")] };
                loop {
                    let done = stop.load(std::sync::atomic::Ordering::SeqCst);
                    match guarded(|| reader.reload()) { Ok(Ok(())) => {}, Ok(Err(e)) => errors.push(format!("{e}")), Err(p) => errors.push(format!("panic: {p}")) }
                    if done { break; }
                    std::thread::sleep(std::time::Duration::from_micros(250));
                }
                errors
            }).unwrap()
        };
        let res = e1::run_history_on(&vd, Some(index0), &ops, &cfg, false);
        stop.store(true, std::sync::atomic::Ordering::SeqCst);
        for e in reader_handle.join().unwrap_or_else(|_| vec!["reader thread panicked".into()]) {
            out.spec_checked(false, json!({"what": "a reload on a second Index instance failed while the writer was working (file removed while needed by a reader in the middle of loading?)", "err": e,
                                           "case": {"history": ops.iter().map(|o| o.to_json()).collect::<Vec<_>>(), "threads": cfg.threads, "merge_policy": cfg.merge_policy, "sorted": sorted}}));
        }
        vd.set_hook(None);
        let desc = json!({"history": ops.iter().map(|o| o.to_json()).collect::<Vec<_>>(), "threads": cfg.threads, "merge_policy": cfg.merge_policy, "sorted": sorted});
        if sorted { out.count("histories_on_sorted_index", 1); }
        if let Some(p) = &res.panicked { out.spec_checked(false, json!({"what": "panic in a fault-free history", "panic": p, "case": desc})); continue; }
        let index: Index = match &res.index { Some(i) => i.clone(), None => continue };
        // a needed file was never missing: no open of a segment file failed with NotFound
        for e in vd.log().iter().filter(|e| e.kind == OpKind::OpenRead && e.result == "NotFound" && !e.path.starts_with('.')) {
            out.spec_checked(false, json!({"what": "a segment file that was being opened did not exist (removed while needed?)", "file": e.path, "thread": e.thread, "case": desc}));
        }
        for a in res.api.iter().filter(|a| !a.ok && a.what != "merge") {
            out.spec_checked(false, json!({"what": "API call failed in a fault-free history", "call": a.what, "err": a.err, "case": desc}));
        }
        // quiescence inside the history: commit returned, no merge running, the writer's own collection has run
        for (i, (pf, pm, pl)) in &res.probes {
            let orphans: Vec<&String> = pf.iter().filter(|f| !pl.contains(f)).collect();
            let missing: Vec<&String> = pl.iter().filter(|f| !pf.contains(f)).collect();
            let managed_ok = { let mut a = pm.clone(); a.sort(); let mut b = pf.clone(); b.sort(); a == b };
            out.count("in_history_quiescence_probes", 1);
            if orphans.is_empty() && missing.is_empty() && managed_ok { out.spec_checked(true, json!({})); continue; }
            out.spec_checked(false, json!({"what": "after a returned commit and the writer's garbage collection (no merge running) the directory is not exactly the committed files", "after_op": i,
                                           "orphans": orphans, "missing": missing, "managed_matches": managed_ok, "case": desc}));
        }
        // quiescence: commit returned, merges finished, then one explicit collection
        let q = guarded(|| -> tantivy::Result<_> {
            let mut w = index.writer_with_num_threads::<TantivyDocument>(1, 15_000_000)?;
            w.commit()?;
            w.wait_merging_threads()?;
            let w = index.writer_with_num_threads::<TantivyDocument>(1, 15_000_000)?;
            // leftovers the collection must remove: files created through the managed directory that no segment references
            for k in 0..2 {
                use std::io::Write;
                use tantivy::directory::TerminatingWrite;
                use tantivy::Directory;
                let mut wr = index.directory().open_write(std::path::Path::new(&format!("{:032x}.store", 0xabc0 + k + h as u64 * 16))).map_err(|e| tantivy::TantivyError::InternalError(format!("{e:?}")))?;
                wr.write_all(b"leftover")?;
                wr.terminate()?;
            }
            let before = e1::dir_state(&vd);
            w.garbage_collect_files().wait()?;
            let mut after = e1::dir_state(&vd);
            // A writer that was just dropped / consumed may still be tearing down its segment updater (queued tasks hold the
            // SegmentMetas of merged-away segments alive for a moment): "merges have finished" includes that.  Collect again
            // a few times before calling a file an orphan.
            let mut retries = 0u64;
            while retries < 8 && after.0.iter().any(|f| !after.2.contains(f)) {
                std::thread::sleep(std::time::Duration::from_millis(150));
                w.garbage_collect_files().wait()?;
                after = e1::dir_state(&vd);
                retries += 1;
            }
            drop(w);
            Ok((before, after, retries))
        });
        let ((bf, bm, _bl), (af, am, al)) = match q {
            Ok(Ok((b, a, retries))) => { if retries > 0 { out.count("quiescence_collections_repeated", retries); } (b, a) }
            other => { out.spec_checked(false, json!({"what": "quiescence procedure failed", "result": format!("{:?}", other.map(|r| r.map(|_| ()))), "case": desc})); continue; }
        };
        let mut ids = PathIds::new();
        let (l_t, bf_t, bm_t, af_t, am_t) = (ids_of(&al, &mut ids), ids_of(&bf, &mut ids), ids_of(&bm, &mut ids), ids_of(&af, &mut ids), ids_of(&am, &mut ids));
        let nontrivial = bf.len() > af.len() && res.commits.len() >= 2;
        let qd = json!({"files_before_gc": bf.len(), "files_after_gc": af.len(), "living": al.len(), "managed_after": am.len(), "case": desc});
        out.coq_case("spec", format!("quiescent_ok {l_t} {{| g_files := {af_t}; g_managed := {am_t} |}}"),
                     json!({"what": "quiescence: directory = committed files + meta.json, managed list = existing files", "orphans": af.iter().filter(|f| !al.contains(f)).collect::<Vec<_>>(), "missing": al.iter().filter(|f| !af.contains(f)).collect::<Vec<_>>(), "state": qd}), nontrivial);
        out.coq_case("tie", format!("let s := gc {l_t} {{| g_files := {bf_t}; g_managed := {bm_t} |}} in set_eqb (g_files s) {af_t} && set_eqb (g_managed s) {am_t}"),
                     json!({"what": "GC model vs implementation", "state": qd}), nontrivial);
        out.count("histories", 1);
        out.count("files_collected_at_quiescence", (bf.len() - af.len().min(bf.len())) as u64);
        // the storage trace obeys the discipline (D3: no delete of a file a recoverable generation references)
        if h % 2 == 0 {
            let mut pids = PathIds::new();
            let (evs, _) = e1::to_events(&vd.log(), &mut pids);
            out.coq_case("tie", format!("monitor {}", e1::trace_term(&evs)), json!({"what": "commit/GC discipline on the real trace", "events": evs.len(), "case": desc}), nontrivial);
        }
        // crash images followed by open + one commit + one collection
        let log = vd.log();
        let n_points = if thorough { 10 } else { 3 };
        for _ in 0..n_points {
            let k = rng.below(log.len() as u64 + 1) as usize;
            let sim = CrashSim::at(&log, k);
            let np = sim.num_pending();
            // outcomes: everything kept; an in-order crash (a prefix of the pending operations survives);
            // an arbitrary subset
            let cut = if np == 0 { 0 } else { rng.below(np as u64 + 1) as usize };
            let prefix: Vec<bool> = (0..np).map(|i| i < cut).collect();
            for keep in [vec![true; np], prefix, (0..np).map(|_| rng.chance(1, 2)).collect::<Vec<bool>>()] {
                // "in order": the surviving pending operations form a prefix of what was issued
                let in_order = keep.iter().skip_while(|k| **k).all(|k| !*k);
                let img = sim.image(&keep, &mut rng);
                let img_files: Vec<String> = img.keys().filter(|n| !n.starts_with('.')).cloned().collect();
                let img_managed = img.get(".managed.json").map(|b| e1::managed_list(b)).unwrap_or_default();
                let rec = e1::recover(&img);
                out.count("crash_images", 1);
                if !rec.opened || !rec.resumed { continue; } // C01's business
                let orphans: BTreeSet<&String> = rec.files_after.iter().filter(|f| !rec.living_after.contains(f)).collect();
                let missing: BTreeSet<&String> = rec.living_after.iter().filter(|f| !rec.files_after.contains(f)).collect();
                let managed_ok = { let mut a = rec.managed_after.clone(); a.sort(); let mut b = rec.files_after.clone(); b.sort(); a == b };
                if orphans.is_empty() && missing.is_empty() && managed_ok { out.spec_checked(true, json!({})); continue; }
                let cd = json!({"what": "after crash + open + commit + GC the directory is not exactly the committed files", "orphans": orphans, "missing": missing, "managed_matches": managed_ok,
                                "crash_after_log_entries": k, "kept": keep, "case": desc});
                if !missing.is_empty() || orphans.is_empty() { out.spec_checked(false, cd); continue; }
                // orphans: inherent class F5 iff the crash image already held a file its .managed.json did not
                // list AND the crash was out of order (a later directory operation survived an earlier one
                // that did not): with register-then-create an in-order crash can never produce an orphan
                if in_order {
                    out.spec_checked(false, json!({"what": "orphan after an IN-ORDER crash + open + commit + GC (a file was created before it was registered as managed)", "detail": cd}));
                    continue;
                }
                let mut cids = PathIds::new();
                out.coq_case("known:F5", format!("f5_class {} {}", ids_of(&img_files, &mut cids), ids_of(&img_managed, &mut cids)), cd, true);
            }
        }
    }
    // directed: sorted index; a segment receives a delete in the commit that creates it and in a later one; after each commit and
    // the writer's own collection no <segment>.store.temp may remain (F102 class)
    for threads in 1..=2usize {
        use tantivy::{doc, IndexWriter, Term};
        let vd = VerifDirectory::new();
        let (schema, f) = e1::schema();
        let desc = json!({"directed": "index sorted by id; adds + delete_term in one commit, gc; a delete in the next commit, gc", "threads": threads});
        let r = guarded(|| -> tantivy::Result<Vec<(String, Vec<String>)>> {
            let settings = tantivy::IndexSettings { sort_by_field: Some(tantivy::IndexSortByField { field: "id".to_string(), order: tantivy::Order::Desc }), ..Default::default() };
            let index = Index::create(vd.clone(), schema.clone(), settings)?;
            let mut w: IndexWriter<TantivyDocument> = index.writer_with_num_threads(threads, 15_000_000 * threads)?;
            w.set_merge_policy(Box::new(tantivy::indexer::NoMergePolicy));
            let mut obs = vec![];
            for i in 0..6u64 { w.add_document(doc!(f.id => i, f.tag => format!("t{}", i % 3), f.body => "x y"))?; }
            w.delete_term(Term::from_field_text(f.tag, "t0"));
            w.commit()?;
            w.garbage_collect_files().wait()?;
            obs.push(("after the commit that created the segment with a delete".to_string(), vd.file_names()));
            w.delete_term(Term::from_field_text(f.tag, "t1"));
            w.commit()?;
            w.garbage_collect_files().wait()?;
            obs.push(("after a later commit that deleted from the same segment".to_string(), vd.file_names()));
            Ok(obs)
        });
        match r {
            Ok(Ok(obs)) => for (when, files) in obs {
                let temps: Vec<&String> = files.iter().filter(|n| n.ends_with(".store.temp")).collect();
                out.spec_checked(temps.is_empty(), json!({"what": "a temporary doc store survives a returned commit and the writer's garbage collection on a sorted index", "when": when, "orphans": temps, "case": desc}));
            },
            other => out.spec_checked(false, json!({"what": "directed sorted-index scenario failed", "result": format!("{:?}", other.map(|r| r.map(|_| ()))), "case": desc})),
        }
        out.count("directed_sorted_index_scenarios", 1);
    }
    // directed: the replace of meta.json fails (end of a merge / commit that empties a segment), then the same writer collects
    for variant in ["merge", "commit"] {
        let m = e1::meta_write_failure_then_gc(variant);
        for (ok, d) in e1::meta_failure_verdicts(&m) { out.spec_checked(ok, d); }
        let mut pids = PathIds::new();
        let (evs, _) = e1::to_events(&m.log, &mut pids);
        out.coq_case("tie", format!("monitor {}", e1::trace_term(&evs)), json!({"what": "commit/GC discipline on the trace of the directed meta.json-failure scenario", "variant": variant, "events": evs.len()}), true);
        out.count("directed_meta_failure_scenarios", 1);
    }
    out.finish(json!({"tier": args.tier, "seed": args.seed}));
}
