//! C02 correspondence: histories of writer calls on real `IndexWriter`s.
//!
//! A history (adds, delete_term on 8 tags, delete_query on id ranges, `run` batches, delete_all, commit /
//! prepare_commit+payload+commit, rollback, prepare_commit+abort, writer drop / wait_merging_threads +
//! re-open, interleaved explicit merges) is run on a RAM index under 1..8 indexing threads and
//! NoMergePolicy / LogMergePolicy with tiny thresholds.  After every call the returned opstamp,
//! `commit_opstamp()` and `meta.opstamp` are recorded; after every commit a fresh searcher is loaded and
//! its content is read three ways (doc store, fast fields, one term query per tag).
//!   spec  : `spec_commits`  published content = committed (replay h)   (Coq evaluates the spec function)
//!           `spec_opstamps` order relations of the returned opstamps, meta.opstamp (and rollback's value)
//!           `spec_accessor` commit_opstamp() after a commit (finding F1 -> known:F1)
//!           decided here: the three readings agree per document, each document once, payload
//!   tie   : 1 worker + NoMergePolicy, histories outside the F2 class: the model's whole trace (opstamp
//!           values, meta.opstamp, commit_opstamp(), per-segment id lists) equals the implementation's;
//!           N workers: the model under a random schedule publishes the same content.
//!   known : failures of the spec inside the classes of F1 / F2 (classifier evaluated by Coq).
use std::collections::HashMap;
use std::ops::Bound;

use serde_json::json;
use tantivy::collector::DocSetCollector;
use tantivy::indexer::{LogMergePolicy, NoMergePolicy, UserOperation};
use tantivy::query::{RangeQuery, TermQuery};
use tantivy::schema::{Field, IndexRecordOption, Schema, Value, FAST, INDEXED, STORED, STRING, TEXT};
use tantivy::{DocAddress, Index, IndexWriter, ReloadPolicy, TantivyDocument, Term};
use tvh::coqfmt as cf;
use tvh::out::CaseOut;
use tvh::rng::Rng;
use tvh::vdir::{OpKind, VerifDirectory};
use tvh::{guarded, Args};

const HEADER: &str = "From TV Require Import Base.Prelude Indexing.Replay Indexing.Opstamp Indexing.DeleteQueue Indexing.Writer Indexing.WriterObs.\n\
Definition D (i t : N) (v : Z) : doc := mkDoc i t v.\n\
Definition T (w : nat) : event := ETake w.\n\
Definition C (w : nat) : event := ECut w.\n\
Definition S (e : list event) (c : list nat) : sstep := mkS e c.";

const NTAGS: u64 = 8;
const BUDGET_PER_THREAD: usize = 15_000_000;

#[derive(Clone, Debug, PartialEq)]
struct Doc { id: u64, tag: u64, val: i64 }
#[derive(Clone, Debug)]
enum Q { Tag(u64), IdRange(u64, u64) }
#[derive(Clone, Debug)]
enum BOp { Add(Doc), Del(Q) }
#[derive(Clone, Debug)]
enum Op { Add(Doc), Del(Q), Batch(Vec<BOp>), DeleteAll, Commit(Option<u64>), Rollback, Abort, Reopen }
/// a step of a run: a call of the history, or an auxiliary action the specification does not see
#[derive(Clone, Debug)]
enum Step {
    Op(Op, bool /* variant: Commit via prepare_commit / Reopen via wait_merging_threads */), Merge(usize), Peek /* load a searcher without committing */,
    /// start a merge of all committed segments and park its merge thread at the first file it creates
    MergeParked,
    /// let the parked merge finish; park the segment-updater thread inside the end_merge task it has accepted
    /// (at the `.del` file it writes when deletes were committed during the merge)
    ReleaseMergeParkUpdater,
    /// release the parked updater task (its writer may be dead by now), wait until storage is quiet, load a searcher
    ReleaseUpdater,
}

static UPDATER_PARKED: std::sync::atomic::AtomicU64 = std::sync::atomic::AtomicU64::new(0);
/// one-shot gate: once armed, the first thread that passes is held until released
#[derive(Default)]
struct Gate { st: std::sync::Mutex<(bool, bool, bool)> /* armed, entered, released */, cv: std::sync::Condvar }
impl Gate {
    fn arm(&self) { *self.st.lock().unwrap() = (true, false, false); }
    fn pass(&self) {
        let mut g = self.st.lock().unwrap();
        if !g.0 { return; }
        g.0 = false; g.1 = true; self.cv.notify_all();
        while !g.2 { g = self.cv.wait(g).unwrap(); }
    }
    fn wait_entered(&self, secs: u64) -> bool {
        let g = self.st.lock().unwrap();
        let (g, _) = self.cv.wait_timeout_while(g, std::time::Duration::from_secs(secs), |g| !g.1).unwrap();
        g.1
    }
    fn release(&self) { let mut g = self.st.lock().unwrap(); g.0 = false; g.2 = true; self.cv.notify_all(); }
}

impl Q {
    fn matches(&self, d: &Doc) -> bool { match self { Q::Tag(t) => d.tag == *t, Q::IdRange(lo, hi) => *lo <= d.id && d.id <= *hi } }
    fn coq(&self) -> String { match self { Q::Tag(t) => format!("QTag {}", t), Q::IdRange(lo, hi) => format!("QIdRange {} {}", lo, hi) } }
}
fn doc_coq(d: &Doc) -> String { format!("D {} {} {}", d.id, d.tag, cf::z(d.val as i128)) }
fn op_coq(o: &Op) -> String {
    match o {
        Op::Add(d) => format!("Add ({})", doc_coq(d)),
        Op::Del(q) => format!("Del ({})", q.coq()),
        Op::Batch(b) => format!("Batch {}", cf::list(b, |x| match x { BOp::Add(d) => format!("BAdd ({})", doc_coq(d)), BOp::Del(q) => format!("BDel ({})", q.coq()) })),
        Op::DeleteAll => "DeleteAll".into(),
        Op::Commit(p) => format!("Commit {}", cf::option(p, |x| format!("{}", x))),
        Op::Rollback => "Rollback".into(),
        Op::Abort => "Abort".into(),
        Op::Reopen => "Reopen".into(),
    }
}
fn hist_coq(h: &[Op]) -> String { cf::list(h, op_coq) }
fn op_name(o: &Op) -> &'static str {
    match o { Op::Add(_) => "add", Op::Del(Q::Tag(_)) => "delete_term", Op::Del(_) => "delete_query", Op::Batch(_) => "run", Op::DeleteAll => "delete_all",
              Op::Commit(None) => "commit", Op::Commit(Some(_)) => "commit_payload", Op::Rollback => "rollback", Op::Abort => "abort", Op::Reopen => "reopen" }
}

// ------------------------------------------------------------------ sequential replay on this side
// (used to decide which kind of case is emitted and for the non-triviality rule; the authoritative
// evaluation of the specification is Coq's)
#[derive(Default, Clone)]
struct Replay { committed: Vec<Doc>, working: Vec<Doc>, cross_commit_delete: bool, f2_dirty: bool, f2_class: bool, fresh: bool, f021_class: bool }
impl Replay {
    fn del(&mut self, q: &Q) {
        let hit_old = self.working.iter().any(|d| q.matches(d) && self.committed.iter().any(|c| c.id == d.id));
        let hit_new = self.working.iter().any(|d| q.matches(d) && !self.committed.iter().any(|c| c.id == d.id));
        if hit_old && hit_new { self.cross_commit_delete = true; }
        self.working.retain(|d| !q.matches(d));
    }
    fn step(&mut self, o: &Op, f1_fixed: bool) {
        // F021: the first stamped operation after a rollback / re-open is a delete (its opstamp equals meta.opstamp)
        match o {
            Op::Del(_) => { if self.fresh { self.f021_class = true; } self.fresh = false; }
            Op::Batch(b) => { if self.fresh && matches!(b.first(), Some(BOp::Del(_))) { self.f021_class = true; } self.fresh = false; }
            Op::Add(_) | Op::Commit(_) => self.fresh = false,
            Op::DeleteAll => {}
            Op::Rollback | Op::Abort | Op::Reopen => self.fresh = true,
        }
        match o {
            Op::Add(d) => { self.working.push(d.clone()); self.f2_dirty = true; }
            Op::Del(q) => { self.del(q); self.f2_dirty = true; }
            Op::Batch(b) => { for x in b { match x { BOp::Add(d) => self.working.push(d.clone()), BOp::Del(q) => self.del(q) } } self.f2_dirty = true; }
            Op::DeleteAll => { if self.f2_dirty { self.f2_class = true; } self.working.clear(); }
            Op::Commit(_) => { self.committed = self.working.clone(); self.f2_dirty = !f1_fixed; }
            Op::Rollback | Op::Abort | Op::Reopen => { self.working = self.committed.clone(); self.f2_dirty = false; }
        }
    }
}

// ------------------------------------------------------------------ the implementation
#[derive(Clone, Copy)]
struct Fields { id: Field, tag: Field, body: Field, val: Field }
fn schema() -> (Schema, Fields) {
    let mut sb = Schema::builder();
    let id = sb.add_u64_field("id", FAST | INDEXED | STORED);
    let tag = sb.add_text_field("tag", STRING);
    let body = sb.add_text_field("body", TEXT | STORED);
    let val = sb.add_i64_field("val", FAST);
    (sb.build(), Fields { id, tag, body, val })
}
/// Documents with an id >= BULK_BASE carry `bulk_tokens(id)` tokens that occur in no other document: a few dozen of
/// them fill the 15 MB arena of an indexing thread, so that the memory budget cuts the uncommitted work into
/// several segments while later documents are still queued in the pipeline.
const BULK_BASE: u64 = 1_000_000;
fn bulk_tokens(id: u64) -> u64 { if id >= BULK_BASE { 900 + (id * 7919) % 1300 } else { 0 } }
fn body_of(id: u64) -> String {
    let mut b = format!("w{} common b{}", id, id % 7);
    for k in 0..bulk_tokens(id) { b.push_str(&format!(" d{}t{}", id, k)); }
    b
}
fn tdoc(f: &Fields, d: &Doc) -> TantivyDocument {
    let mut t = TantivyDocument::default();
    t.add_u64(f.id, d.id);
    t.add_text(f.tag, format!("t{}", d.tag));
    t.add_text(f.body, body_of(d.id));
    t.add_i64(f.val, d.val);
    t
}

#[derive(Clone, Debug)]
struct Obs { ret: u64, meta_op: u64, acc: u64, segs: Option<Vec<Vec<u64>>>, seg_all: Option<Vec<Vec<u64>>>, content: Option<Vec<Doc>>, payload: Option<String> }

#[derive(Clone, Copy, Debug)]
struct Config { threads: usize, log_merge: bool }

fn new_writer(index: &Index, cfg: Config) -> Result<IndexWriter, String> {
    let w: IndexWriter = index.writer_with_num_threads(cfg.threads, BUDGET_PER_THREAD * cfg.threads).map_err(|e| format!("writer: {e:?}"))?;
    if cfg.log_merge {
        let mut p = LogMergePolicy::default();
        p.set_min_num_segments(2);
        p.set_min_layer_size(4);
        p.set_del_docs_ratio_before_merge(0.3);
        w.set_merge_policy(Box::new(p));
    } else {
        w.set_merge_policy(Box::new(NoMergePolicy));
    }
    Ok(w)
}

/// content of a freshly loaded searcher, read three ways; Err = the readings disagree
fn read_back(index: &Index, f: &Fields) -> Result<(Vec<Vec<u64>>, Vec<Doc>, Vec<Vec<u64>>), String> {
    let reader = index.reader_builder().reload_policy(ReloadPolicy::Manual).try_into().map_err(|e| format!("reader: {e:?}"))?;
    let searcher = reader.searcher();
    // (3) one term query per tag
    let mut tag_of: HashMap<DocAddress, Vec<u64>> = HashMap::new();
    for t in 0..NTAGS {
        let q = TermQuery::new(Term::from_field_text(f.tag, &format!("t{}", t)), IndexRecordOption::Basic);
        let hits = searcher.search(&q, &DocSetCollector).map_err(|e| format!("term query: {e:?}"))?;
        for a in hits { tag_of.entry(a).or_default().push(t); }
    }
    let mut segs = vec![];
    let mut seg_all: Vec<Vec<u64>> = vec![];     // every doc id of the segment, deleted ones included (fast field)
    let mut content = vec![];
    let mut seen = 0usize;
    for (ord, sr) in searcher.segment_readers().iter().enumerate() {
        let idc = sr.fast_fields().u64("id").map_err(|e| format!("id column: {e}"))?;
        let valc = sr.fast_fields().i64("val").map_err(|e| format!("val column: {e}"))?;
        let mut ids = vec![];
        seg_all.push((0..sr.max_doc()).filter_map(|d| idc.first(d)).collect());
        for d in 0..sr.max_doc() {
            if sr.is_deleted(d) { continue; }
            let addr = DocAddress::new(ord as u32, d);
            // (1) doc store
            let stored: TantivyDocument = searcher.doc(addr).map_err(|e| format!("doc store: {e:?}"))?;
            let sid = stored.get_first(f.id).and_then(|v| v.as_u64()).ok_or("stored doc without id")?;
            let sbody = stored.get_first(f.body).and_then(|v| v.as_str().map(|s| s.to_string())).ok_or("stored doc without body")?;
            if sbody != body_of(sid) { return Err(format!("id {sid}: stored body {sbody:?}")); }
            // (2) fast fields
            let fid: Vec<u64> = idc.values_for_doc(d).collect();
            if fid != vec![sid] { return Err(format!("id {sid}: fast field id {fid:?}")); }
            let fval: Vec<i64> = valc.values_for_doc(d).collect();
            if fval.len() != 1 { return Err(format!("id {sid}: fast field val {fval:?}")); }
            let tags = tag_of.get(&addr).cloned().unwrap_or_default();
            if tags.len() != 1 { return Err(format!("id {sid}: found under tags {tags:?}")); }
            seen += 1;
            ids.push(sid);
            content.push(Doc { id: sid, tag: tags[0], val: fval[0] });
        }
        segs.push(ids);
    }
    if seen != tag_of.len() { return Err(format!("term queries return {} documents, segments hold {}", tag_of.len(), seen)); }
    if searcher.num_docs() as usize != seen { return Err(format!("num_docs {} != {}", searcher.num_docs(), seen)); }
    segs.sort();
    seg_all.sort();
    Ok((segs, content, seg_all))
}

fn del_query(f: &Fields, q: &Q) -> Box<dyn tantivy::query::Query> {
    match q {
        Q::Tag(t) => Box::new(TermQuery::new(Term::from_field_text(f.tag, &format!("t{}", t)), IndexRecordOption::Basic)),
        Q::IdRange(lo, hi) => Box::new(RangeQuery::new(Bound::Included(Term::from_field_u64(f.id, *lo)), Bound::Included(Term::from_field_u64(f.id, *hi)))),
    }
}

/// runs the steps; one observation per `Step::Op`
fn run_impl(steps: &[Step], cfg: Config) -> Result<(Vec<Obs>, Vec<(usize, Vec<Doc>)>), String> {
    let (schema, f) = schema();
    let gated = steps.iter().any(|s| matches!(s, Step::MergeParked | Step::ReleaseMergeParkUpdater | Step::ReleaseUpdater));
    let merge_gate = std::sync::Arc::new(Gate::default());
    let updater_gate = std::sync::Arc::new(Gate::default());
    let vd = if gated { Some(VerifDirectory::new()) } else { None };
    let index = match &vd {
        None => Index::create_in_ram(schema),
        Some(vd) => {
            vd.inner.lock().unwrap().record_data = false;
            let (mg, ug) = (merge_gate.clone(), updater_gate.clone());
            vd.set_hook(Some(std::sync::Arc::new(move |_vd, _seq, kind, path| {
                if *kind != OpKind::Create || path.starts_with('.') { return; }
                let name = std::thread::current().name().unwrap_or("").to_string();
                if name.starts_with("merge_thread") { mg.pass(); }
                if name.starts_with("segment_updater") && path.ends_with(".del") { ug.pass(); }
            })));
            Index::create(vd.clone(), schema, tantivy::IndexSettings::default()).map_err(|e| format!("create: {e:?}"))?
        }
    };
    let release_all = || { merge_gate.release(); updater_gate.release(); };
    let r = run_steps(steps, cfg, &index, &f, vd.as_ref(), &merge_gate, &updater_gate);
    release_all();
    if let Some(vd) = &vd { vd.set_hook(None); }
    r
}

fn quiesce(vd: &VerifDirectory) {
    let t0 = std::time::Instant::now();
    let mut last = vd.log_len();
    let mut stable = 0;
    while t0.elapsed() < std::time::Duration::from_secs(8) && stable < 2 {
        std::thread::sleep(std::time::Duration::from_millis(60));
        let now = vd.log_len();
        if now == last { stable += 1; } else { stable = 0; last = now; }
    }
}

fn run_steps(steps: &[Step], cfg: Config, index: &Index, f: &Fields, vd: Option<&VerifDirectory>, merge_gate: &Gate, updater_gate: &Gate) -> Result<(Vec<Obs>, Vec<(usize, Vec<Doc>)>), String> {
    let f = *f;
    let index = index.clone();
    let mut writer = Some(new_writer(&index, cfg)?);
    let mut obs: Vec<Obs> = vec![];
    let mut peeks: Vec<(usize, Vec<Doc>)> = vec![];
    for st in steps {
        match st {
            Step::Peek => { if !obs.is_empty() { peeks.push((obs.len() - 1, read_back(&index, &f)?.1)); } }
            Step::MergeParked => {
                let ids = index.searchable_segment_ids().map_err(|e| format!("{e:?}"))?;
                if ids.len() >= 2 {
                    merge_gate.arm();
                    let _fut = writer.as_mut().unwrap().merge(&ids);
                    if !merge_gate.wait_entered(20) { return Err("the merge thread never reached its first file".into()); }
                }
            }
            Step::ReleaseMergeParkUpdater => {
                updater_gate.arm();
                merge_gate.release();
                // not reached when the end of the merge has no delete file to write: the scenario is then a plain history
                if updater_gate.wait_entered(3) { UPDATER_PARKED.fetch_add(1, std::sync::atomic::Ordering::SeqCst); }
                if vd.is_some() && !updater_gate.st.lock().unwrap().1 { quiesce(vd.unwrap()); }
            }
            Step::ReleaseUpdater => {
                updater_gate.release();
                if let Some(vd) = vd { quiesce(vd); }
                if !obs.is_empty() { peeks.push((obs.len() - 1, read_back(&index, &f)?.1)); }
            }
            Step::Merge(k) => {
                let mut ids = index.searchable_segment_ids().map_err(|e| format!("{e:?}"))?;
                ids.sort();
                if *k > 0 && ids.len() > *k { ids.truncate(*k); }
                if ids.len() >= 2 {
                    // a merge that cannot start (segments vanished, already merging) is not an error of the property
                    let _ = writer.as_mut().unwrap().merge(&ids).wait();
                    // a searcher loaded now (no commit in between) still shows the last committed state
                    if !obs.is_empty() { peeks.push((obs.len() - 1, read_back(&index, &f)?.1)); }
                }
            }
            Step::Op(op, variant) => {
                let w = writer.as_mut().unwrap();
                let mut is_commit = false;
                let ret: u64 = match op {
                    Op::Add(d) => w.add_document(tdoc(&f, d)).map_err(|e| format!("add: {e:?}"))?,
                    Op::Del(Q::Tag(t)) => w.delete_term(Term::from_field_text(f.tag, &format!("t{}", t))),
                    Op::Del(q) => w.delete_query(del_query(&f, q)).map_err(|e| format!("delete_query: {e:?}"))?,
                    Op::Batch(b) => {
                        let ops: Vec<UserOperation> = b.iter().map(|x| match x {
                            BOp::Add(d) => UserOperation::Add(tdoc(&f, d)),
                            BOp::Del(Q::Tag(t)) => UserOperation::Delete(Term::from_field_text(f.tag, &format!("t{}", t))),
                            BOp::Del(Q::IdRange(lo, _)) => UserOperation::Delete(Term::from_field_u64(f.id, *lo)),
                        }).collect();
                        w.run(ops).map_err(|e| format!("run: {e:?}"))?
                    }
                    Op::DeleteAll => w.delete_all_documents().map_err(|e| format!("delete_all: {e:?}"))?,
                    Op::Commit(p) => {
                        is_commit = true;
                        if p.is_some() || *variant {
                            let mut pc = w.prepare_commit().map_err(|e| format!("prepare_commit: {e:?}"))?;
                            if let Some(p) = p { pc.set_payload(&format!("p{}", p)); }
                            pc.commit().map_err(|e| format!("commit: {e:?}"))?
                        } else {
                            w.commit().map_err(|e| format!("commit: {e:?}"))?
                        }
                    }
                    Op::Rollback => w.rollback().map_err(|e| format!("rollback: {e:?}"))?,
                    Op::Abort => w.prepare_commit().map_err(|e| format!("prepare_commit: {e:?}"))?.abort().map_err(|e| format!("abort: {e:?}"))?,
                    Op::Reopen => {
                        let old = writer.take().unwrap();
                        if *variant { old.wait_merging_threads().map_err(|e| format!("wait_merging_threads: {e:?}"))?; } else { drop(old); }
                        writer = Some(new_writer(&index, cfg)?);
                        writer.as_ref().unwrap().commit_opstamp()
                    }
                };
                let meta = index.load_metas().map_err(|e| format!("load_metas: {e:?}"))?;
                let acc = writer.as_ref().unwrap().commit_opstamp();
                let (segs, content, seg_all) = if is_commit { let (s, c, a) = read_back(&index, &f)?; (Some(s), Some(c), Some(a)) } else { (None, None, None) };
                obs.push(Obs { ret, meta_op: meta.opstamp, acc, segs, seg_all, content, payload: meta.payload.clone() });
            }
        }
    }
    if let Some(w) = writer.take() { let _ = w.wait_merging_threads(); }
    Ok((obs, peeks))
}

// ------------------------------------------------------------------ generators
struct Gen { next_id: u64 }
impl Gen {
    fn doc(&mut self, rng: &mut Rng) -> Doc {
        let id = self.next_id;
        self.next_id += 1;
        // skewed tags so that deletes hit documents on both sides of a commit
        let tag = if rng.chance(4, 5) { rng.below(2) } else { rng.below(NTAGS) };
        let val = match rng.below(6) { 0 => i64::MIN, 1 => i64::MAX, 2 => 0, _ => rng.next_u64() as i64 % 1000 };
        Doc { id, tag, val }
    }
    fn query(&mut self, rng: &mut Rng) -> Q {
        if rng.chance(3, 4) || self.next_id == 0 { Q::Tag(if rng.chance(4, 5) { rng.below(2) } else { rng.below(NTAGS) }) }
        else { let lo = rng.below(self.next_id); Q::IdRange(lo, lo + rng.below(3)) }
    }
    fn history(&mut self, rng: &mut Rng, len: usize, allow_delete_all: bool, allow_merge: bool) -> Vec<Step> {
        let mut steps = vec![];
        let mut fresh = true; // nothing stamped since the writer was (re)built
        for _ in 0..len {
            let r = rng.below(100);
            let st = if r < 42 { fresh = false; Step::Op(Op::Add(self.doc(rng)), false) }
            else if r < 62 { fresh = false; Step::Op(Op::Del(self.query(rng)), false) }
            else if r < 68 {
                fresh = false;
                let n = rng.below(5) as usize;
                let b = (0..n).map(|_| if rng.chance(2, 3) { BOp::Add(self.doc(rng)) } else {
                    // run() takes delete terms only: a tag, or the term of one id
                    if rng.chance(2, 3) || self.next_id == 0 { BOp::Del(Q::Tag(rng.below(3))) } else { let i = rng.below(self.next_id); BOp::Del(Q::IdRange(i, i)) } }).collect();
                Step::Op(Op::Batch(b), false)
            }
            else if r < 82 { fresh = false; Step::Op(Op::Commit(if rng.chance(1, 3) { Some(rng.below(1000)) } else { None }), rng.chance(1, 3)) }
            else if r < 86 { fresh = true; Step::Op(Op::Rollback, false) }
            else if r < 89 { fresh = true; Step::Op(Op::Abort, false) }
            else if r < 93 { fresh = true; Step::Op(Op::Reopen, rng.chance(1, 2)) }
            else if r < 96 {
                if allow_delete_all || fresh { Step::Op(Op::DeleteAll, false) } else { fresh = false; Step::Op(Op::Add(self.doc(rng)), false) }
            }
            else if allow_merge { if rng.chance(1, 4) { Step::Peek } else { Step::Merge(rng.below(3) as usize) } } else { fresh = false; Step::Op(Op::Add(self.doc(rng)), false) };
            // targeted: right after a rollback / re-open, a delete as the first stamped operation, then a merge of
            // committed segments and a searcher loaded without commit (F021 / F50)
            let restored = matches!(st, Step::Op(Op::Rollback, _) | Step::Op(Op::Abort, _) | Step::Op(Op::Reopen, _));
            steps.push(st);
            if restored && allow_merge && rng.chance(1, 2) {
                steps.push(Step::Op(Op::Del(self.query(rng)), false));
                steps.push(Step::Merge(0));
                steps.push(Step::Peek);
                fresh = false;
            }
        }
        steps.push(Step::Op(Op::Commit(None), false));
        steps
    }
}
/// Histories whose uncommitted work overflows the memory budget: transactions of bulky documents (single adds and
/// run() batches) with deletes in between, sized to `cuts` budget overflows per indexing thread and transaction.
fn bulk_history(rng: &mut Rng, threads: usize, transactions: usize, with_restore: bool) -> Vec<Step> {
    let mut g = Gen { next_id: BULK_BASE };
    let mut steps = vec![];
    for t in 0..transactions {
        // ~28 000 distinct tokens fill one arena; aim at 1.4 .. 2.6 arenas per thread
        let mut budget: i64 = (28_000 * threads as i64 * (14 + rng.below(13) as i64)) / 10;
        while budget > 0 {
            let r = rng.below(100);
            if r < 70 {
                let d = g.doc(rng); budget -= bulk_tokens(d.id) as i64; steps.push(Step::Op(Op::Add(d), false));
            } else if r < 85 {
                let n = 1 + rng.below(4) as usize;
                let b: Vec<BOp> = (0..n).map(|_| if rng.chance(4, 5) { let d = g.doc(rng); budget -= bulk_tokens(d.id) as i64; BOp::Add(d) }
                    else if rng.chance(1, 2) { BOp::Del(Q::Tag(rng.below(2))) } else { let i = BULK_BASE + rng.below(g.next_id - BULK_BASE + 1); BOp::Del(Q::IdRange(i, i)) }).collect();
                steps.push(Step::Op(Op::Batch(b), false));
            } else if r < 93 {
                steps.push(Step::Op(Op::Del(Q::Tag(if rng.chance(2, 3) { rng.below(2) } else { rng.below(NTAGS) })), false));
            } else if g.next_id > BULK_BASE {
                let lo = BULK_BASE + rng.below(g.next_id - BULK_BASE); steps.push(Step::Op(Op::Del(Q::IdRange(lo, lo + rng.below(3))), false));
            }
        }
        if with_restore && t + 1 < transactions && rng.chance(1, 2) { steps.push(Step::Op(if rng.chance(1, 2) { Op::Rollback } else { Op::Reopen }, rng.chance(1, 2))); } else { steps.push(Step::Op(Op::Commit(None), rng.chance(1, 3))); }
    }
    steps.push(Step::Op(Op::Commit(None), false));
    steps
}
/// Two writer generations: a merge of committed segments of writer 1 is in flight, deletes are committed meanwhile (so the
/// end of the merge has a delete file to write), the end_merge task is accepted by writer 1's updater and parked there;
/// writer 1 is dropped or rolled back; writer 2 commits; only then the old task runs to its end.  Whatever the dead
/// writer's updater still does, a freshly loaded searcher must show writer 2's commits.
fn stale_updater_history(rng: &mut Rng, rollback: bool) -> Vec<Step> {
    let mut g = Gen { next_id: 0 };
    let mut steps = vec![];
    let mut tags: Vec<u64> = vec![];
    for _ in 0..(2 + rng.below(2)) {                       // 2..3 committed segments
        for _ in 0..(1 + rng.below(3)) { let d = g.doc(rng); tags.push(d.tag); steps.push(op(Op::Add(d))); }
        steps.push(op(Op::Commit(None)));
    }
    steps.push(Step::MergeParked);
    for _ in 0..(1 + rng.below(2)) { steps.push(op(Op::Del(Q::Tag(*rng.pick(&tags))))); }
    if rng.chance(1, 3) { steps.push(op(Op::Add(g.doc(rng)))); }
    steps.push(op(Op::Commit(if rng.chance(1, 2) { Some(rng.below(100)) } else { None })));
    steps.push(Step::ReleaseMergeParkUpdater);
    if rng.chance(1, 3) { steps.push(op(Op::Del(g.query(rng)))); }          // an uncommitted delete dies with writer 1
    steps.push(op(if rollback { Op::Rollback } else { Op::Reopen }));
    for _ in 0..(1 + rng.below(2)) {                       // writer 2 commits once or twice
        for _ in 0..(1 + rng.below(3)) { steps.push(op(Op::Add(g.doc(rng)))); }
        if rng.chance(1, 3) { steps.push(op(Op::Del(g.query(rng)))); }
        steps.push(op(Op::Commit(if rng.chance(1, 2) { Some(rng.below(100)) } else { None })));
    }
    steps.push(Step::ReleaseUpdater);
    if rng.chance(1, 2) { steps.push(op(Op::Rollback)); steps.push(Step::Peek); }
    steps.push(op(Op::Add(g.doc(rng))));
    steps.push(op(Op::Commit(None)));
    steps
}
fn ops_of(steps: &[Step]) -> Vec<Op> { steps.iter().filter_map(|s| if let Step::Op(o, _) = s { Some(o.clone()) } else { None }).collect() }

/// the predicate `spec_opstamps` of WriterObs.v, on this side (only to choose the kind of case; Coq decides)
fn opstamps_ok(h: &[Op], obs: &[Obs]) -> bool {
    let (mut cs, mut ws, mut lc): (Vec<u64>, Vec<u64>, u64) = (vec![], vec![], 0);
    for (o, ob) in h.iter().zip(obs.iter()) {
        match o {
            Op::Add(_) | Op::Del(_) | Op::Batch(_) => ws.push(ob.ret),
            Op::DeleteAll => {}
            Op::Commit(_) => { if !ws.iter().all(|s| *s < ob.ret) || ob.meta_op != ob.ret { return false; } cs = ws.clone(); lc = ob.ret; }
            Op::Rollback | Op::Abort => { if ob.ret != lc || ob.meta_op != lc { return false; } ws = cs.clone(); }
            Op::Reopen => { if ob.meta_op != lc { return false; } ws = cs.clone(); }
        }
    }
    true
}

/// sizes (documents, deleted ones included) of the segments created by each committed transaction, in creation
/// order; None when they cannot be read off the searcher (a segment whose documents were all deleted is dropped)
fn observed_cuts(h: &[Op], obs: &[Obs]) -> Option<Vec<Vec<usize>>> {
    let mut cuts = vec![];
    let mut tx_ids: Vec<u64> = vec![];
    for (o, ob) in h.iter().zip(obs.iter()) {
        match o {
            Op::Add(d) => tx_ids.push(d.id),
            Op::Batch(b) => for x in b { if let BOp::Add(d) = x { tx_ids.push(d.id); } },
            Op::Commit(_) => {
                let all = ob.seg_all.as_ref()?;
                let lo = tx_ids.iter().min().copied();
                let mut new: Vec<&Vec<u64>> = all.iter().filter(|s| match (s.iter().min(), lo) { (Some(m), Some(lo)) => *m >= lo, _ => false }).collect();
                new.sort_by_key(|s| s.iter().min().copied());
                if new.iter().map(|s| s.len()).sum::<usize>() != tx_ids.len() { if std::env::var("C02_DEBUG").is_ok() { eprintln!("cuts: tx docs {} segs {:?} all {:?}", tx_ids.len(), new.iter().map(|s| s.len()).collect::<Vec<_>>(), all.iter().map(|s| (s.iter().min().copied(), s.len())).collect::<Vec<_>>()); } return None; }
                cuts.push(new.iter().map(|s| s.len()).collect());
                tx_ids.clear();
            }
            Op::Del(_) => {}
            _ => return None,
        }
    }
    Some(cuts)
}

fn same_multiset(a: &[Doc], b: &[Doc]) -> bool {
    let key = |d: &Doc| (d.id, d.tag, d.val);
    let mut x: Vec<_> = a.iter().map(key).collect();
    let mut y: Vec<_> = b.iter().map(key).collect();
    x.sort(); y.sort();
    x == y
}

/// a random schedule for the model: takes / cuts before every call, cursor positions for prepare_commit
fn random_sched(rng: &mut Rng, n_ops: usize, nw: usize) -> String {
    let steps: Vec<String> = (0..n_ops).map(|_| {
        let ne = rng.below(4) as usize;
        let ev: Vec<String> = (0..ne).map(|_| { let w = rng.below(nw as u64 + 1); if rng.chance(2, 3) { format!("T {}%nat", w) } else { format!("C {}%nat", w) } }).collect();
        let cur: Vec<String> = (0..rng.below(3)).map(|_| format!("{}%nat", rng.below(12))).collect();
        format!("S [{}] [{}]", ev.join(";"), cur.join(";"))
    }).collect();
    format!("[{}]", steps.join(";"))
}

struct Ctx { f1_fixed: bool }

fn emit_history(out: &mut CaseOut, rng: &mut Rng, ctx: &Ctx, steps: &[Step], cfg: Config, label: &str, expect_known: Option<&str>) {
    let h = ops_of(steps);
    let hc = hist_coq(&h);
    let has_merge = steps.iter().any(|s| !matches!(s, Step::Op(_, _)));
    let desc = json!({"what": label, "threads": cfg.threads, "log_merge": cfg.log_merge, "explicit_merges": has_merge, "ops": h.len(), "history": hc,
                      "variants": steps.iter().map(|s| match s { Step::Op(_, v) => if *v { "v" } else { "-" }, Step::Merge(_) => "m", Step::Peek => "p", Step::MergeParked => "M", Step::ReleaseMergeParkUpdater => "U", Step::ReleaseUpdater => "R" }).collect::<Vec<_>>().join("")});
    let (obs, peeks) = match guarded(|| run_impl(steps, cfg)) {
        Ok(Ok(o)) => o,
        Ok(Err(e)) => { out.spec_checked(false, json!({"what": "implementation error or inconsistent readings", "error": e, "case": desc})); return; }
        Err(p) => { out.spec_checked(false, json!({"what": "panic", "panic": p, "case": desc})); return; }
    };
    // expected content on this side
    let mut rp = Replay::default();
    let mut content_ok = true;
    let mut payload_ok = true;
    let mut last_payload: Option<String> = None;
    let mut commits: Vec<(usize, Vec<Doc>)> = vec![];
    for (k, (o, ob)) in h.iter().zip(obs.iter()).enumerate() {
        rp.step(o, ctx.f1_fixed);
        for (pk, pc) in peeks.iter().filter(|(pk, _)| *pk == k) {
            if !same_multiset(pc, &rp.committed) { content_ok = false; }
            commits.push((*pk, pc.clone()));
            out.count("searchers_loaded_without_commit", 1);
        }
        if let Op::Commit(p) = o {
            last_payload = p.map(|x| format!("p{}", x));
            let c = ob.content.clone().unwrap();
            if label == "budget-cut" { out.count("budget_cut_segments_at_commits", ob.segs.as_ref().map(|s| s.len()).unwrap_or(0) as u64); out.count("budget_cut_commits", 1); }
            if !same_multiset(&c, &rp.committed) { content_ok = false; }
            commits.push((k, c));
        }
        if ob.payload != last_payload { payload_ok = false; }
    }
    for o in &h { out.count(&format!("op_{}", op_name(o)), 1); }
    out.count(&format!("threads_{}", cfg.threads), 1);
    out.count(if cfg.log_merge { "policy_log" } else { "policy_nomerge" }, 1);
    out.count("histories", 1);
    out.count("commits", commits.len() as u64);
    let nontrivial = rp.cross_commit_delete;
    if nontrivial { out.count("histories_cross_commit_delete", 1); }
    if rp.f2_class { out.count("histories_in_F2_class", 1); }

    let commits_term = cf::list(&commits, |(k, c)| format!("({}, {})", cf::nat(*k), cf::list(c, doc_coq)));
    let ops_term = cf::list(&obs, |o| format!("({}, {})", o.ret, o.meta_op));
    let acc_term = cf::list(&obs, |o| format!("({}, {})", o.ret, o.acc));

    // ---- spec: published content
    if content_ok {
        out.coq_case("spec", format!("spec_commits {} {}", hc, commits_term), desc.clone(), nontrivial);
    } else {
        // classify: F2 (delete_all), or F021 (delete stamped with meta.opstamp + a merge of committed segments)
        let merges = cfg.log_merge || has_merge;
        if !rp.f2_class && rp.f021_class && merges {
            out.coq_case("known:F021", format!("F021_class {} && negb (spec_commits {} {})", hc, hc, commits_term), desc.clone(), nontrivial);
            out.count("histories_F021_hit", 1);
        } else if rp.f2_class {
            out.coq_case("known:F2", format!("F2_class F1_FIXED {} && negb (spec_commits {} {})", hc, hc, commits_term), desc.clone(), nontrivial);
        } else {
            // outside every known class: a plain violation of the specification (Coq confirms and it becomes the replay)
            out.coq_case("spec", format!("spec_commits {} {}", hc, commits_term), desc.clone(), nontrivial);
        }
    }
    out.spec_checked(payload_ok, json!({"what": "meta.payload is not the payload of the last commit", "case": desc}));
    // ---- spec: opstamps (order relations; meta.opstamp; rollback's return value)
    let ops_ok_term = format!("spec_opstamps {} {}", hc, ops_term);
    if opstamps_ok(&h, &obs) {
        out.coq_case("spec", ops_ok_term, desc.clone(), nontrivial);
    } else if rp.f2_class {
        // opstamps are re-used after delete_all (F2): classified by Coq
        out.coq_case("known:F2", format!("F2_class F1_FIXED {} && negb ({})", hc, ops_ok_term), desc.clone(), nontrivial);
        out.count("histories_opstamp_order_broken", 1);
    } else {
        out.coq_case("spec", ops_ok_term, desc.clone(), nontrivial);
    }
    // ---- spec: commit_opstamp() (F1)
    let acc_ok = h.iter().zip(obs.iter()).all(|(o, ob)| !matches!(o, Op::Commit(_)) || ob.acc == ob.ret);
    if acc_ok {
        out.coq_case("spec", format!("spec_accessor {} {}", hc, acc_term), desc.clone(), nontrivial);
    } else {
        out.coq_case("known:F1", format!("negb F1_FIXED && has_commit {} && negb (spec_accessor {} {})", hc, hc, acc_term), desc.clone(), nontrivial);
        out.count("histories_commit_opstamp_stale", 1);
    }
    // ---- tie
    let deterministic = cfg.threads == 1 && !cfg.log_merge && !has_merge;
    if label == "budget-cut" {
        // the opstamps depend on when the budget closed a segment: compare under the schedule inferred from the observation
        let plain = h.iter().all(|o| matches!(o, Op::Add(_) | Op::Del(_) | Op::Batch(_) | Op::Commit(_)));
        if deterministic && content_ok && plain {
            if let Some(cuts) = observed_cuts(&h, &obs) {
                let impl_trace = cf::list(&obs, |o| format!("({}, {}, {}, {})", o.ret, o.meta_op, o.acc, match &o.segs { Some(s) => cf::list(s, |x| cf::ns(x)), None => "[]".into() }));
                let cuts_term = cf::list(&cuts, |c| cf::list(c, |n| cf::nat(*n)));
                out.coq_case("tie", format!("tie_trace_cuts {} {} {}", hc, impl_trace, cuts_term), desc.clone(), nontrivial);
                out.count("tie_traces_inferred_schedule", 1);
                out.count("budget_cuts_in_tie_traces", cuts.iter().map(|c| c.len().saturating_sub(1) as u64).sum());
            } else { out.count("budget_cut_segment_sizes_unobservable", 1); }
        } else if content_ok && !rp.f2_class {
            let sc = random_sched(rng, h.len(), cfg.threads);
            out.coq_case("tie", format!("model_commits {} {} {} {}", cf::nat(cfg.threads), hc, sc, commits_term), desc.clone(), nontrivial);
            out.count("tie_random_schedules", 1);
        }
    } else if deterministic && (expect_known.is_some() || (content_ok && !rp.f2_class)) {
        let impl_trace = cf::list(&obs, |o| format!("({}, {}, {}, {})", o.ret, o.meta_op, o.acc, match &o.segs { Some(s) => cf::list(s, |x| cf::ns(x)), None => "[]".into() }));
        out.coq_case("tie", format!("tie_trace 1%nat {} {}", hc, impl_trace), desc.clone(), nontrivial);
        out.count("tie_traces", 1);
    } else if content_ok && !rp.f2_class {
        // schedule-independent observation only: the model under a random schedule publishes what the implementation published
        let sc = random_sched(rng, h.len(), cfg.threads);
        out.coq_case("tie", format!("model_commits {} {} {} {}", cf::nat(cfg.threads), hc, sc, commits_term), desc.clone(), nontrivial);
        out.count("tie_random_schedules", 1);
    }
}

fn d(id: u64, tag: u64) -> Doc { Doc { id, tag, val: id as i64 } }
fn op(o: Op) -> Step { Step::Op(o, false) }

/// manual reproduction of the findings against the real code (prints the observations)
fn probe() {
    let det = Config { threads: 1, log_merge: false };
    let cases: Vec<(&str, Vec<Step>)> = vec![
        ("F3 reopen; delete; merge; rollback; commit", vec![op(Op::Add(d(0, 0))), op(Op::Commit(None)), op(Op::Add(d(1, 1))), op(Op::Commit(None)), op(Op::Reopen),
            op(Op::Del(Q::Tag(0))), Step::Merge(0), op(Op::Rollback), op(Op::Commit(None))]),
        ("F3 rollback; delete; merge; (reader sees it before any commit)", vec![op(Op::Add(d(0, 0))), op(Op::Commit(None)), op(Op::Add(d(1, 1))), op(Op::Commit(None)), op(Op::Rollback),
            op(Op::Del(Q::Tag(0))), Step::Merge(0), op(Op::Rollback), op(Op::Commit(None))]),
        ("control: add first, then delete; merge; rollback", vec![op(Op::Add(d(0, 0))), op(Op::Commit(None)), op(Op::Add(d(1, 1))), op(Op::Commit(None)), op(Op::Reopen),
            op(Op::Add(d(2, 2))), op(Op::Del(Q::Tag(0))), Step::Merge(0), op(Op::Rollback), op(Op::Commit(None))]),
    ];
    for (name, steps) in cases {
        println!("== {name}\n   {}", hist_coq(&ops_of(&steps)));
        match run_impl(&steps, det) {
            Ok((obs, peeks)) => { for (o, ob) in ops_of(&steps).iter().zip(obs.iter()) {
                println!("   {:<14} ret={} meta.opstamp={} commit_opstamp()={} content={:?}", op_name(o), ob.ret, ob.meta_op, ob.acc, ob.content.as_ref().map(|c| c.iter().map(|d| d.id).collect::<Vec<_>>()));
            } for (k, c) in peeks { println!("   searcher loaded after call #{k} (no commit): {:?}", c.iter().map(|d| d.id).collect::<Vec<_>>()); } },
            Err(e) => println!("   error: {e}"),
        }
    }
}

fn main() {
    let args = Args::parse();
    if args.extra.iter().any(|x| x == "--probe") { probe(); return; }
    tvh::quiet_panics();
    let mut rng = Rng::new(args.seed);
    let thorough = args.thorough();
    let mut out = CaseOut::new(&args.out, HEADER, 40);
    let f1_fixed = {
        // the same source fact the pin reads, observed on the implementation: does commit_opstamp() follow a commit?
        let steps = vec![op(Op::Add(d(0, 0))), op(Op::Commit(None))];
        match guarded(|| run_impl(&steps, Config { threads: 1, log_merge: false })) { Ok(Ok((o, _))) => o[1].acc == o[1].ret, _ => false }
    };
    let ctx = Ctx { f1_fixed };
    let det = Config { threads: 1, log_merge: false };

    // ---------------- corpus: witnesses of the known findings and boundary histories ----------------
    // F1: commit_opstamp() after a commit
    emit_history(&mut out, &mut rng, &ctx, &[op(Op::Add(d(0, 0))), op(Op::Commit(None))], det, "corpus:F1", Some("F1"));
    // F2 (a): a document still in the pipeline survives delete_all
    emit_history(&mut out, &mut rng, &ctx, &[op(Op::Add(d(0, 1))), op(Op::DeleteAll), op(Op::Commit(None))], det, "corpus:F2a", Some("F2"));
    // F2 (b): opstamps are re-used: a delete issued before delete_all removes a document added after it
    emit_history(&mut out, &mut rng, &ctx, &[op(Op::Del(Q::Tag(1))), op(Op::Del(Q::Tag(1))), op(Op::Commit(None)), op(Op::DeleteAll), op(Op::Add(d(0, 1))), op(Op::Commit(None))], det, "corpus:F2b", Some("F2"));
    // F2 (c): meta.opstamp moves backwards
    emit_history(&mut out, &mut rng, &ctx, &[op(Op::Add(d(0, 0))), op(Op::Commit(None)), op(Op::Add(d(1, 0))), op(Op::Commit(None)), op(Op::Add(d(2, 0))), op(Op::Commit(None)),
                                 op(Op::DeleteAll), op(Op::Add(d(3, 0))), op(Op::Commit(None))], det, "corpus:F2c", Some("F2"));
    // F021: after a re-open the first opstamp equals meta.opstamp; a merge of committed segments (target = meta.opstamp)
    // applies that uncommitted delete for good: rollback cannot restore the document
    emit_history(&mut out, &mut rng, &ctx, &[op(Op::Add(d(0, 0))), op(Op::Commit(None)), op(Op::Add(d(1, 1))), op(Op::Commit(None)), op(Op::Reopen),
                                 op(Op::Del(Q::Tag(0))), Step::Merge(0), Step::Peek, op(Op::Rollback), op(Op::Commit(None))], det, "corpus:F021", Some("F021"));
    emit_history(&mut out, &mut rng, &ctx, &[op(Op::Add(d(0, 0))), op(Op::Commit(None)), op(Op::Add(d(1, 1))), op(Op::Commit(None)), op(Op::Rollback),
                                 op(Op::Del(Q::Tag(0))), Step::Merge(0), Step::Peek, op(Op::Abort), op(Op::Commit(None))], det, "corpus:F021-rollback", Some("F021"));
    // boundary histories (inside the property)
    let boundary: Vec<Vec<Step>> = vec![
        vec![op(Op::Commit(None))],
        vec![op(Op::DeleteAll), op(Op::Commit(None))],
        vec![op(Op::Add(d(0, 1))), op(Op::Del(Q::Tag(1))), op(Op::Add(d(1, 1))), op(Op::Commit(None)), op(Op::Del(Q::Tag(1))), op(Op::Add(d(2, 1))), op(Op::Commit(None))],
        vec![op(Op::Add(d(0, 1))), op(Op::Commit(None)), op(Op::Add(d(1, 1))), op(Op::Del(Q::Tag(1))), op(Op::Rollback), op(Op::Commit(None))],
        vec![op(Op::Add(d(0, 1))), op(Op::Commit(None)), op(Op::Rollback), op(Op::DeleteAll), op(Op::Add(d(1, 1))), op(Op::Commit(None))],
        vec![op(Op::Batch(vec![BOp::Add(d(0, 1)), BOp::Del(Q::Tag(1)), BOp::Add(d(1, 1))])), op(Op::Commit(None))],
        vec![op(Op::Batch(vec![])), op(Op::Batch(vec![BOp::Del(Q::Tag(1))])), op(Op::Commit(Some(5)))],
        vec![op(Op::Add(d(0, 1))), op(Op::Abort), op(Op::Add(d(1, 2))), Step::Op(Op::Commit(None), true)],
        vec![op(Op::Add(d(0, 1))), op(Op::Commit(None)), Step::Op(Op::Reopen, false), op(Op::Del(Q::Tag(1))), op(Op::Add(d(1, 1))), op(Op::Commit(None))],
        vec![op(Op::Add(d(0, 1))), op(Op::Add(d(1, 2))), op(Op::Commit(None)), op(Op::Del(Q::IdRange(0, 0))), op(Op::Commit(None)), op(Op::Del(Q::Tag(2))), op(Op::Commit(None))],
    ];
    for (i, b) in boundary.iter().enumerate() {
        emit_history(&mut out, &mut rng, &ctx, b, det, &format!("corpus:boundary{}", i), None);
        emit_history(&mut out, &mut rng, &ctx, b, Config { threads: 3, log_merge: true }, &format!("corpus:boundary{}-3t", i), None);
    }

    // ---------------- generated histories ----------------
    let n_hist = if thorough { 2000 } else { 320 };
    for i in 0..n_hist {
        let threads = match i % 4 { 0 => 1, 1 => 1 + rng.below(8) as usize, 2 => 2, _ => 8 - (i / 4) % 8 };
        let log_merge = i % 4 != 0 && rng.chance(1, 2);
        let cfg = Config { threads, log_merge };
        let len = if thorough { 8 + rng.below(50) as usize } else { 6 + rng.below(28) as usize };
        let mut g = Gen { next_id: 0 };
        let allow_delete_all = i % 10 == 9;          // a share of histories wanders into the F2 class
        let allow_merge = i % 4 != 0;
        let steps = g.history(&mut rng, len, allow_delete_all, allow_merge);
        emit_history(&mut out, &mut rng, &ctx, &steps, cfg, "generated", None);
    }
    // ---------------- a task of a dead writer's updater outlives it ----------------
    let n_stale = if thorough { 16 } else { 4 };
    for i in 0..n_stale {
        let steps = stale_updater_history(&mut rng, i % 2 == 1);
        emit_history(&mut out, &mut rng, &ctx, &steps, det, "stale-updater", None);
    }
    out.count("stale_updater_tasks_parked_across_writer_death", UPDATER_PARKED.load(std::sync::atomic::Ordering::SeqCst));
    // ---------------- histories cut by the memory budget ----------------
    let n_bulk = if thorough { 20 } else { 6 };
    for i in 0..n_bulk {
        let threads = match i % 6 { 3 => 2, _ => 1 };
        let steps = bulk_history(&mut rng, threads, 2, i % 6 == 4);
        emit_history(&mut out, &mut rng, &ctx, &steps, Config { threads, log_merge: false }, "budget-cut", None);
    }
    out.finish(json!({"f1_fixed_observed": f1_fixed}));
}
