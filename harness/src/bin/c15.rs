//! C15 correspondence: the real `tantivy_sstable::Dictionary` builder/reader (u64-monotonic, void and
//! range values), `tantivy::termdict` (FST flavour) with its `TermMerger`, and the columnar dictionary,
//! against (a) the Coq model of coq/SSTable (`tie`) and (b) the sorted-map specification evaluated in
//! Coq on the implementation's answers (`spec`).  Bulk sweeps are decided here against a BTreeMap.
use std::collections::BTreeMap;
use std::ops::Bound;

use serde_json::{json, Value};
use tantivy_common::OwnedBytes;
use tantivy_fst::Automaton;
use tantivy_sstable::merge::{U64Merge, VoidMerge};
use tantivy_sstable::{BlockReader, Dictionary, MonotonicU64SSTable, RangeSSTable, SSTable, TermOrdHit, VoidSSTable};
use tvh::coqfmt as cf;
use tvh::out::CaseOut;
use tvh::rng::Rng;
use tvh::{guarded, Args};

const HEADER: &str = "From TV Require Import Base.Prelude Generated.Constants SSTable.Spec SSTable.Delta SSTable.Scan SSTable.Writer SSTable.Dict SSTable.File SSTable.Merge SSTable.Cases.";

type Key = Vec<u8>;
type Kvs = Vec<(Key, u64)>;

// ------------------------------------------------------------------ Gallina printers
fn kvs_term(kvs: &[(Key, u64)]) -> String {
    cf::list(kvs, |(k, v)| format!("({}, {})", cf::bytes(k), v))
}
fn kunit_term(ks: &[Key]) -> String {
    cf::list(ks, |k| format!("({}, tt)", cf::bytes(k)))
}
fn keys_term(ks: &[Key]) -> String {
    cf::list(ks, |k| cf::bytes(k))
}
fn bound_term(b: &Bound<Key>) -> String {
    match b {
        Bound::Unbounded => "Unbounded".into(),
        Bound::Included(k) => format!("(Incl {})", cf::bytes(k)),
        Bound::Excluded(k) => format!("(Excl {})", cf::bytes(k)),
    }
}
fn hit_term(h: &TermOrdHit) -> String {
    match h {
        TermOrdHit::Exact(o) => format!("(Exact {})", o),
        TermOrdHit::Next(o) => format!("(Next {})", o),
    }
}
fn optn(o: &Option<u64>) -> String {
    cf::option(o, |x| x.to_string())
}
fn hexs(k: &[u8]) -> String {
    if k.len() <= 40 { cf::hex(k) } else { format!("{}..({} bytes)", cf::hex(&k[..40]), k.len()) }
}
fn table_term(t: &[(Vec<u8>, Vec<u8>)]) -> String {
    cf::list(t, |(c, d)| format!("({}, {})", cf::bytes(c), cf::bytes(d)))
}
fn bound_json(b: &Bound<Key>) -> Value {
    match b {
        Bound::Unbounded => json!("unbounded"),
        Bound::Included(k) => json!({"ge/le": hexs(k)}),
        Bound::Excluded(k) => json!({"gt/lt": hexs(k)}),
    }
}

// ------------------------------------------------------------------ key generators (boundary biased)
fn around(rng: &mut Rng, centers: &[usize]) -> usize {
    let c = *rng.pick(centers) as i64;
    (c + rng.range(0, 4) as i64 - 2).max(0) as usize
}

/// style 0: tiny alphabet, short; 1: shared prefix with keep/add around 15..17 (and 127/128);
/// 2: 0x00/0xFF runs; 3: like 0 with the empty key; 4: long keys (kB); 5: decimal counters
fn gen_keys(rng: &mut Rng, style: u64, n: usize, big: usize) -> Vec<Key> {
    let mut set: std::collections::BTreeSet<Key> = Default::default();
    let mut guard = 0;
    while set.len() < n && guard < n * 20 + 50 {
        guard += 1;
        let k: Key = match style {
            0 | 3 => {
                let len = rng.range(if style == 3 { 0 } else { 1 }, 4) as usize;
                (0..len).map(|_| b"ab\x00\xff"[rng.below(4) as usize]).collect()
            }
            1 => {
                let keep = around(rng, &[14, 15, 16, 17, 1, 127, 128, 129]);
                let add = around(rng, &[1, 15, 16, 17, 2]);
                let mut k: Key = (0..keep).map(|i| b'p' + (i % 3) as u8).collect();
                k.extend((0..add).map(|_| b"xyz"[rng.below(3) as usize]));
                k
            }
            2 => {
                let len = rng.range(0, 6) as usize;
                (0..len).map(|_| if rng.chance(1, 2) { 0u8 } else { 0xFF }).collect()
            }
            4 => {
                let len = around(rng, &[big, big / 2, 4000, 2048, 2049]);
                let mut k: Key = vec![b'L'; len];
                let m = k.len();
                for j in 0..m.min(3) { k[m - 1 - j] = rng.next_u64() as u8; }
                if rng.chance(1, 3) && m > 20 { k[rng.below(20) as usize] = rng.next_u64() as u8; }
                k
            }
            _ => format!("k{:04}", rng.below(n as u64 * 3 + 5)).into_bytes(),
        };
        set.insert(k);
    }
    set.into_iter().collect()
}

fn gen_values(rng: &mut Rng, n: usize) -> Vec<u64> {
    let mut v = rng.below(3);
    (0..n).map(|_| { v += if rng.chance(1, 4) { 0 } else { rng.range(1, 300) }; v }).collect()
}

fn mutate(rng: &mut Rng, k: &Key) -> Key {
    let mut k = k.clone();
    match rng.below(6) {
        0 => { k.push(0); }
        1 => { k.pop(); }
        2 => { if let Some(l) = k.last_mut() { *l = l.wrapping_add(1); } }
        3 => { if let Some(l) = k.last_mut() { *l = l.wrapping_sub(1); } }
        4 => { k.push(0xFF); }
        _ => { if !k.is_empty() { let i = rng.below(k.len() as u64) as usize; k[i] = rng.next_u64() as u8; } }
    }
    k
}

// ------------------------------------------------------------------ the implementation under test
struct Built { bytes: Vec<u8>, dict: Dictionary<MonotonicU64SSTable> }

fn build_u64(kvs: &[(Key, u64)], block_len: Option<usize>) -> Result<Built, String> {
    guarded(|| {
        let mut b = Dictionary::<MonotonicU64SSTable>::builder(Vec::new()).unwrap();
        if let Some(bl) = block_len { b.set_block_len(bl); }
        for (k, v) in kvs { b.insert(k, v).unwrap(); }
        let bytes = b.finish().unwrap();
        let dict = Dictionary::<MonotonicU64SSTable>::from_bytes(OwnedBytes::new(bytes.clone())).unwrap();
        Built { bytes, dict }
    })
}

fn stream_all<A: Automaton>(sb: tantivy_sstable::StreamerBuilder<'_, MonotonicU64SSTable, A>) -> Option<Kvs>
where A::State: Clone {
    guarded(|| {
        let mut s = sb.into_stream().unwrap();
        let mut out = vec![];
        while s.advance() { out.push((s.key().to_vec(), *s.value())); }
        out
    }).ok()
}

fn range_builder<'a, A: Automaton>(mut sb: tantivy_sstable::StreamerBuilder<'a, MonotonicU64SSTable, A>, lo: &Bound<Key>, hi: &Bound<Key>, limit: Option<u64>)
    -> tantivy_sstable::StreamerBuilder<'a, MonotonicU64SSTable, A> where A::State: Clone {
    sb = match lo { Bound::Included(k) => sb.ge(k), Bound::Excluded(k) => sb.gt(k), Bound::Unbounded => sb };
    sb = match hi { Bound::Included(k) => sb.le(k), Bound::Excluded(k) => sb.lt(k), Bound::Unbounded => sb };
    if let Some(l) = limit { sb = sb.limit(l); }
    sb
}

fn in_range(k: &Key, lo: &Bound<Key>, hi: &Bound<Key>) -> bool {
    (match lo { Bound::Included(b) => b <= k, Bound::Excluded(b) => b < k, Bound::Unbounded => true })
        && (match hi { Bound::Included(b) => k <= b, Bound::Excluded(b) => k < b, Bound::Unbounded => true })
}
fn inverted(lo: &Bound<Key>, hi: &Bound<Key>) -> bool {
    match (lo, hi) {
        (Bound::Included(a) | Bound::Excluded(a), Bound::Included(b) | Bound::Excluded(b)) => b < a,
        _ => false,
    }
}

/// first ordinal of every block, observed through the public block index
fn block_first_ords(d: &Dictionary<MonotonicU64SSTable>, keys: &[Key]) -> Vec<u64> {
    let mut v: Vec<u64> = keys.iter().filter_map(|k| d.sstable_index.get_block_with_key(k)).map(|b| b.first_ordinal).collect();
    v.sort();
    v.dedup();
    v
}

/// (compressed body -> decompressed body) for every zstd block of the block section, through the real BlockReader
fn decompress_table(file: &[u8]) -> Vec<(Vec<u8>, Vec<u8>)> {
    let mut out = vec![];
    let mut pos = 0usize;
    while pos + 4 <= file.len() {
        let n = u32::from_le_bytes(file[pos..pos + 4].try_into().unwrap()) as usize;
        if n <= 1 || pos + 4 + n > file.len() { break; }
        if file[pos + 4] == 1 {
            let frame = file[pos..pos + 4 + n].to_vec();
            let mut br = BlockReader::new(OwnedBytes::new(frame));
            if br.read_block().unwrap_or(false) { out.push((file[pos + 5..pos + 4 + n].to_vec(), br.buffer().to_vec())); }
        }
        pos += 4 + n;
    }
    out
}

// ------------------------------------------------------------------ automata for `search`
#[derive(Clone)]
struct PrefixAut(Vec<u8>);
impl Automaton for PrefixAut {
    type State = Option<usize>;
    fn start(&self) -> Option<usize> { Some(0) }
    fn is_match(&self, s: &Option<usize>) -> bool { *s == Some(self.0.len()) }
    fn can_match(&self, s: &Option<usize>) -> bool { s.is_some() }
    fn will_always_match(&self, s: &Option<usize>) -> bool { *s == Some(self.0.len()) }
    fn accept(&self, s: &Option<usize>, b: u8) -> Option<usize> {
        match s { Some(i) if *i == self.0.len() => Some(*i), Some(i) if self.0[*i] == b => Some(i + 1), _ => None }
    }
}
/// keys that contain the byte
#[derive(Clone)]
struct ContainsAut(u8);
impl Automaton for ContainsAut {
    type State = bool;
    fn start(&self) -> bool { false }
    fn is_match(&self, s: &bool) -> bool { *s }
    fn will_always_match(&self, s: &bool) -> bool { *s }
    fn accept(&self, s: &bool, b: u8) -> bool { *s || b == self.0 }
}
struct LevAut(levenshtein_automata::DFA);
impl Automaton for LevAut {
    type State = u32;
    fn start(&self) -> u32 { self.0.initial_state() }
    fn is_match(&self, s: &u32) -> bool { matches!(self.0.distance(*s), levenshtein_automata::Distance::Exact(_)) }
    fn can_match(&self, s: &u32) -> bool { *s != levenshtein_automata::SINK_STATE }
    fn accept(&self, s: &u32, b: u8) -> u32 { self.0.transition(*s, b) }
}
fn accepts<A: Automaton>(a: &A, k: &[u8]) -> bool {
    let mut s = a.start();
    for &b in k { s = a.accept(&s, b); }
    a.is_match(&s)
}

fn search_case<A: Automaton>(out: &mut CaseOut, rng: &mut Rng, what: &str, b: &Built, kvs: &Kvs, a: A, coq: bool, desc: &Value)
where A::State: Clone {
    let flags: Vec<bool> = kvs.iter().map(|(k, _)| accepts(&a, k)).collect();
    let (lo, hi) = if rng.chance(1, 2) { (Bound::Unbounded, Bound::Unbounded) } else { gen_bounds(rng, kvs) };
    let want: Kvs = kvs.iter().zip(&flags).filter(|((k, _), f)| **f && in_range(k, &lo, &hi)).map(|(kv, _)| kv.clone()).collect();
    let got = stream_all(range_builder(b.dict.search(a), &lo, &hi, None));
    let d = json!({"what": "search", "automaton": what, "lo": bound_json(&lo), "hi": bound_json(&hi), "dict": desc, "accepted": flags.iter().filter(|f| **f).count()});
    out.count("search_cases", 1);
    let Some(got) = got else {
        out.spec_checked(false, json!({"what": "search stream panicked", "panic": true, "case": d}));
        return;
    };
    out.spec_checked(got == want, json!({"got_len": got.len(), "want_len": want.len(), "case": d}));
    if coq {
        out.coq_case("spec", format!("spec_search N.eqb {} {} {} {} {}", kvs_term(kvs), cf::list(&flags, |f| cf::boolean(*f)), bound_term(&lo), bound_term(&hi), kvs_term(&got)), d, kvs.len() >= 2);
    }
}

fn gen_bounds(rng: &mut Rng, kvs: &Kvs) -> (Bound<Key>, Bound<Key>) {
    let pick = |rng: &mut Rng| -> Key {
        if kvs.is_empty() || rng.chance(1, 8) { let l = rng.below(3) as usize; return rng.bytes(l); }
        let k = kvs[rng.below(kvs.len() as u64) as usize].0.clone();
        if rng.chance(1, 2) { k } else { mutate(rng, &k) }
    };
    let mk = |rng: &mut Rng, k: Key| match rng.below(5) { 0 => Bound::Unbounded, 1 | 2 => Bound::Included(k), _ => Bound::Excluded(k) };
    let (mut a, mut b) = (pick(rng), pick(rng));
    // mostly well-ordered, a share of inverted and of empty (equal-bound) ranges
    match rng.below(10) { 0 | 1 => { if a < b { std::mem::swap(&mut a, &mut b); } } 2 => { b = a.clone(); } _ => { if b < a { std::mem::swap(&mut a, &mut b); } } }
    (mk(rng, a), mk(rng, b))
}

struct Cfg { style: u64, n: usize, block_len: Option<usize>, big: usize, what: &'static str }

fn main() {
    let args = Args::parse();
    tvh::quiet_panics();
    let mut rng = Rng::new(args.seed);
    let thorough = args.thorough();
    let mut out = CaseOut::new(&args.out, HEADER, 40);
    let scale = if thorough { 5 } else { 1 };

    // ---------------- dictionaries ----------------
    let mut cfgs: Vec<Cfg> = vec![];
    // fixed boundary shapes
    for (style, n, bl, what) in [(0u64, 0usize, None, "empty dictionary"), (0, 1, None, "single key"), (3, 1, Some(0usize), "single key, block_len 0"),
                                 (3, 6, None, "with empty key"), (3, 9, Some(0), "every key its own block"), (3, 12, Some(1), "block_len 1"),
                                 (1, 12, None, "keep/add around 16"), (1, 20, Some(16), "keep/add around 16, small blocks"), (2, 14, Some(3), "0x00/0xFF"),
                                 (5, 40, Some(4), "counters, 4-byte blocks"), (5, 300, Some(0), "300 blocks: crosses the 128-entry index stores"),
                                 (5, 130, Some(0), "130 blocks"), (5, 257, Some(1), "~129 blocks"), (4, 6, None, "kB keys, zstd blocks"), (4, 5, Some(100_000), "kB keys, one block")] {
        cfgs.push(Cfg { style, n, block_len: bl, big: 3000, what });
    }
    for i in 0..(40 * scale) {
        let style = rng.below(6);
        let n = match rng.below(6) { 0 => rng.range(0, 3), 1 => rng.range(3, 10), 2 | 3 => rng.range(8, 30), 4 => rng.range(30, 80), _ => rng.range(100, if thorough { 1500 } else { 400 }) } as usize;
        let n = if style == 4 { n.min(if thorough { 40 } else { 8 }) } else { n };
        let bl = match rng.below(8) { 0 => Some(0), 1 => Some(1), 2 => Some(rng.range(2, 20) as usize), 3 => Some(rng.range(20, 200) as usize), 4 => Some(4000), 5 => Some(2040 + rng.below(20) as usize), _ => None };
        cfgs.push(Cfg { style, n, block_len: bl, big: if i % 7 == 0 && thorough { 40_000 } else { 6000 }, what: "random" });
    }

    // regression (former F151 witness): keys a,b,c,d one per block, range ge d .. lt a, and the 40-counter variant
    for (n, bl, lo, hi) in [(4usize, 0usize, b"d".to_vec(), b"a".to_vec()), (40, 4, b"k030".to_vec(), b"k005".to_vec())] {
        let kvs: Kvs = (0..n).map(|i| (if n == 4 { vec![b'a' + i as u8] } else { format!("k{:03}", i).into_bytes() }, i as u64 + 1)).collect();
        match build_u64(&kvs, Some(bl)) {
            Ok(b) => for limit in [None, Some(1u64)] {
                let (lo, hi) = (Bound::Included(lo.clone()), Bound::Excluded(hi.clone()));
                let got = stream_all(range_builder(b.dict.range(), &lo, &hi, limit));
                let d = json!({"what": "inverted range over several blocks (regression F151)", "n": n, "block_len": bl, "lo": bound_json(&lo), "hi": bound_json(&hi), "limit": limit});
                out.spec_checked(got == Some(vec![]), json!({"got": format!("{:?}", got), "want": "[]", "case": d}));
                if let Some(g) = &got { out.coq_case("spec", format!("spec_range N.eqb {} {} {} {} {}", kvs_term(&kvs), bound_term(&lo), bound_term(&hi), cf::option(&limit, |l| l.to_string()), kvs_term(g)), d.clone(), true); }
                out.coq_case("tie", format!("tie_range N.eqb {} {} {} {} {} {}", bl, kvs_term(&kvs), bound_term(&lo), bound_term(&hi), cf::option(&limit, |l| l.to_string()), cf::option(&got, |g| kvs_term(g))), d, true);
            },
            Err(e) => out.spec_checked(false, json!({"what": "regression dictionary failed to build", "panic": e})),
        }
    }

    let mut corpus: Vec<(Kvs, Option<usize>)> = vec![]; // reused by merges
    for (ci, c) in cfgs.iter().enumerate() {
        let keys = gen_keys(&mut rng, c.style, c.n, c.big);
        let vals = gen_values(&mut rng, keys.len());
        let kvs: Kvs = keys.iter().cloned().zip(vals).collect();
        let total_bytes: usize = keys.iter().map(|k| k.len() + 3).sum();
        let bl_n = c.block_len.unwrap_or(4000);
        let desc = json!({"cfg": ci, "what": c.what, "style": c.style, "n": keys.len(), "block_len": bl_n, "key_bytes": total_bytes,
                          "first_keys": keys.iter().take(3).map(|k| cf::hex(&k[..k.len().min(24)])).collect::<Vec<_>>()});
        out.count("dictionaries", 1);
        out.count(&format!("dict_style_{}", c.style), 1);
        let b = match build_u64(&kvs, c.block_len) {
            Ok(b) => b,
            Err(e) => { out.spec_checked(false, json!({"what": "building a strictly increasing key sequence failed", "panic": e, "dict": desc})); continue; }
        };
        let model = BTreeMap::from_iter(kvs.iter().cloned());
        let small = total_bytes <= 700 && keys.len() <= 60;          // shipped to Coq in full
        let nontrivial = keys.len() >= 2;
        out.spec_checked(b.dict.num_terms() == keys.len(), json!({"what": "num_terms", "got": b.dict.num_terms(), "dict": desc}));
        let first_ords = block_first_ords(&b.dict, &keys);
        out.count("blocks", first_ords.len().max(1) as u64);
        if first_ords.len() > 128 { out.count("dicts_over_128_blocks", 1); }

        // ---- full stream: the block section decodes (model) to what was inserted
        let slice = b.dict.sstable_slice.read_bytes().unwrap().as_slice().to_vec();
        let all = stream_all(b.dict.range());
        out.spec_checked(all.as_ref() == Some(&kvs), json!({"what": "stream() differs from the inserted pairs", "dict": desc}));
        let table = decompress_table(&slice);
        out.count("zstd_blocks", table.len() as u64);
        let table_bytes: usize = table.iter().map(|(c, d)| c.len() + d.len()).sum();
        if slice.len() <= 900 && table_bytes + total_bytes <= 3000 || (ci % 9 == 4 && slice.len() <= 9000 && table_bytes + total_bytes <= 40_000) {
            out.coq_case("tie", format!("tie_stream N.eqb u64_codec {} {} {}", table_term(&table), cf::bytes(&slice), kvs_term(&kvs)),
                         json!({"what": "model_decode(impl bytes) = inserted pairs", "file_len": slice.len(), "zstd_blocks": table.len(), "dict": desc}), nontrivial);
        }

        // ---- lookups
        let mut probe_keys: Vec<Key> = vec![vec![], vec![0], vec![0xFF], vec![0xFF; 3]];
        for k in &keys { if probe_keys.len() < 400 || rng.chance(1, 10) { probe_keys.push(k.clone()); probe_keys.push(mutate(&mut rng, k)); } }
        let mut coq_probes: Vec<String> = vec![];
        for (pi, k) in probe_keys.iter().enumerate() {
            let obs = guarded(|| (b.dict.get(k).unwrap(), b.dict.term_ord(k).unwrap(), b.dict.term_ord_or_next(k).unwrap()));
            let Ok((g, o, h)) = obs else { out.spec_checked(false, json!({"what": "lookup panicked", "key": hexs(k), "dict": desc})); continue; };
            let want_g = model.get(k).copied();
            let want_o = keys.binary_search(k).ok().map(|i| i as u64);
            let rank = keys.partition_point(|x| x < k) as u64;
            let hit_ok = match (&h, want_o) { (TermOrdHit::Exact(x), Some(w)) => *x == w, (TermOrdHit::Next(x), None) => if rank < keys.len() as u64 { *x == rank } else { *x >= rank }, _ => false };
            out.spec_checked(g == want_g && o == want_o && hit_ok, json!({"what": "get/term_ord/term_ord_or_next", "key": hexs(k), "got": format!("{:?} {:?} {:?}", g, o, h), "want": format!("{:?} {:?} rank {}", want_g, want_o, rank), "dict": desc}));
            out.count("lookup_probes", 1);
            if small && (pi < 30 || rng.chance(1, 8)) && coq_probes.len() < 45 {
                coq_probes.push(format!("Build_probe N {} {} {} {}", cf::bytes(k), optn(&g), optn(&o), hit_term(&h)));
            }
        }
        // ordinal -> key / value
        let mut coq_ords: Vec<String> = vec![];
        let n = keys.len() as u64;
        let ords: Vec<u64> = if n <= 64 { (0..n + 3).collect() } else { (0..40).map(|_| rng.below(n + 2)).chain([0, n - 1, n, n + 1, 127, 128, 129]).collect() };
        for o in ords {
            let obs = guarded(|| { let mut v = vec![]; let f = b.dict.ord_to_term(o, &mut v).unwrap(); (if f { Some(v) } else { None }, b.dict.term_info_from_ord(o).unwrap()) });
            let Ok((t, v)) = obs else { out.spec_checked(false, json!({"what": "ord_to_term panicked", "ord": o, "dict": desc})); continue; };
            out.spec_checked(t.as_ref() == keys.get(o as usize) && v == kvs.get(o as usize).map(|kv| kv.1), json!({"what": "ord_to_term/term_info_from_ord", "ord": o, "got": format!("{:?} {:?}", t.as_ref().map(|x| hexs(x)), v), "dict": desc}));
            out.count("ord_probes", 1);
            if small && coq_ords.len() < 40 { coq_ords.push(format!("({}, {}, {})", o, cf::option(&t, |x| cf::bytes(x)), optn(&v))); }
        }
        // sorted_ords_to_term_cb
        if n > 0 {
            let mut os: Vec<u64> = (0..rng.range(1, 12)).map(|_| rng.below(n)).collect();
            os.sort();
            let got = guarded(|| { let mut v: Vec<Key> = vec![]; let ok = b.dict.sorted_ords_to_term_cb(&os, |t| v.push(t.to_vec())).unwrap(); (ok, v) });
            let want: Vec<Key> = os.iter().map(|o| keys[*o as usize].clone()).collect();
            out.spec_checked(got == Ok((true, want)), json!({"what": "sorted_ords_to_term_cb", "ords": os, "dict": desc}));
        }
        if small {
            out.coq_case("spec", format!("spec_probes N.eqb {} {} && spec_ords N.eqb {} {}", kvs_term(&kvs), cf::list(&coq_probes, |s| s.clone()), kvs_term(&kvs), cf::list(&coq_ords, |s| s.clone())),
                         json!({"what": "sorted-map get/ord/ord_or_next/key_of_ord on the implementation's answers", "probes": coq_probes.len(), "ords": coq_ords.len(), "dict": desc}), nontrivial);
            out.coq_case("tie", format!("tie_dict N.eqb {} {} {} {} {} {}", bl_n, kvs_term(&kvs), keys.len(), cf::ns(&if keys.is_empty() { vec![] } else { first_ords.clone() }), cf::list(&coq_probes, |s| s.clone()), cf::list(&coq_ords, |s| s.clone())),
                         json!({"what": "model writer+reader vs implementation: block partition, lookups, ordinal conversions", "blocks": first_ords.len(), "dict": desc}), nontrivial);
        }

        // ---- ranges, limits, prefixes
        let n_ranges = if small { 14 } else { 30 };
        let mut coq_ranges = 0;
        for ri in 0..n_ranges {
            let (lo, hi) = gen_bounds(&mut rng, &kvs);
            let limit = if ri % 3 == 2 { Some(match rng.below(4) { 0 => 0, 1 => 1, _ => rng.below(n + 2) }) } else { None };
            let got = stream_all(range_builder(b.dict.range(), &lo, &hi, limit));
            let want: Kvs = kvs.iter().filter(|(k, _)| in_range(k, &lo, &hi)).cloned().collect();
            let d = json!({"what": "range", "lo": bound_json(&lo), "hi": bound_json(&hi), "limit": limit, "inverted": inverted(&lo, &hi), "dict": desc});
            out.count("range_cases", 1);
            out.count(if inverted(&lo, &hi) { "ranges_inverted" } else if want.is_empty() { "ranges_empty" } else { "ranges_nonempty" }, 1);
            match &got {
                None => {
                    // a panic is a violation like any other (the class F151 is repaired in /repo)
                    out.count("range_panics", 1);
                    out.spec_checked(false, json!({"what": "range stream panicked", "panic": true, "case": d}));
                }
                Some(got) => {
                    let ok = match limit { None => *got == want, Some(l) => got.len() <= want.len() && got[..] == want[..got.len()] && got.len() as u64 >= l.min(want.len() as u64) };
                    out.spec_checked(ok, json!({"got_len": got.len(), "want_len": want.len(), "case": d}));
                }
            }
            if small && coq_ranges < 8 {
                coq_ranges += 1;
                if let Some(g) = &got {
                    out.coq_case("spec", format!("spec_range N.eqb {} {} {} {} {}", kvs_term(&kvs), bound_term(&lo), bound_term(&hi), cf::option(&limit, |l| l.to_string()), kvs_term(g)), d.clone(), nontrivial);
                }
                out.coq_case("tie", format!("tie_range N.eqb {} {} {} {} {} {}", bl_n, kvs_term(&kvs), bound_term(&lo), bound_term(&hi), cf::option(&limit, |l| l.to_string()), cf::option(&got, |g| kvs_term(g))), d, nontrivial);
            }
        }
        for pi in 0..(if small { 5 } else { 10 }) {
            let p: Key = if keys.is_empty() || pi == 0 { vec![] } else { let k = &keys[rng.below(n) as usize]; let mut p = k[..rng.below(k.len() as u64 + 1) as usize].to_vec(); if rng.chance(1, 5) { p.push(0xFF); } p };
            let got = stream_all(b.dict.prefix_range(&p));
            let want: Kvs = kvs.iter().filter(|(k, _)| k.starts_with(&p)).cloned().collect();
            let d = json!({"what": "prefix_range", "prefix": hexs(&p), "dict": desc});
            out.spec_checked(got.as_ref() == Some(&want), json!({"got_len": got.as_ref().map(|g| g.len()), "want_len": want.len(), "case": d}));
            out.count("prefix_cases", 1);
            if small && pi < 3 {
                if let Some(g) = &got { out.coq_case("spec", format!("spec_prefix N.eqb {} {} {}", kvs_term(&kvs), cf::bytes(&p), kvs_term(g)), d.clone(), nontrivial); }
                out.coq_case("tie", format!("tie_prefix N.eqb {} {} {} {}", bl_n, kvs_term(&kvs), cf::bytes(&p), cf::option(&got, |g| kvs_term(g))), d, nontrivial);
            }
        }

        // ---- automaton-filtered streaming
        if !keys.is_empty() {
            let base = keys[rng.below(n) as usize].clone();
            let coq = small && ci % 2 == 0;
            let plen = base.len().min(rng.below(4) as usize);
            search_case(&mut out, &mut rng, "prefix", &b, &kvs, PrefixAut(base[..plen].to_vec()), coq, &desc);
            let cb = *rng.pick(&[0u8, 0xFF, b'a', b'y', b'1']);
            search_case(&mut out, &mut rng, "contains-byte", &b, &kvs, ContainsAut(cb), coq, &desc);
            if let Ok(s) = std::str::from_utf8(&base) {
                if s.len() <= 40 {
                    for dist in 0..=2u8 {
                        let transp = rng.chance(1, 2);
                        let dfa = levenshtein_automata::LevenshteinAutomatonBuilder::new(dist, transp).build_dfa(s);
                        search_case(&mut out, &mut rng, &format!("levenshtein d={} transpositions={}", dist, transp), &b, &kvs, LevAut(dfa), coq && dist == 1, &desc);
                    }
                }
            }
            for re in ["k0.*", ".*a", "[a-p]+x*.*", "(ab|b).*", ""] {
                if let Ok(r) = tantivy_fst::Regex::new(re) { search_case(&mut out, &mut rng, &format!("regex {:?}", re), &b, &kvs, r, false, &desc); }
            }
        }
        if corpus.len() < 60 && keys.len() <= 400 && c.style != 4 { corpus.push((kvs.clone(), c.block_len)); }

        // ---- other value types on the same keys (void, range)
        if ci % 3 == 0 {
            let r = guarded(|| {
                let mut w = Dictionary::<VoidSSTable>::builder(Vec::new()).unwrap();
                if let Some(bl) = c.block_len { w.set_block_len(bl); }
                for k in &keys { w.insert(k, &()).unwrap(); }
                let d = Dictionary::<VoidSSTable>::from_bytes(OwnedBytes::new(w.finish().unwrap())).unwrap();
                let mut s = d.stream().unwrap();
                let mut ks: Vec<Key> = vec![];
                while s.advance() { ks.push(s.key().to_vec()); }
                let ords: Vec<Option<u64>> = keys.iter().map(|k| d.term_ord(k).unwrap()).collect();
                let slice = d.sstable_slice.read_bytes().unwrap().as_slice().to_vec();
                (ks, ords, slice)
            });
            match r {
                Ok((ks, ords, slice)) => {
                    out.spec_checked(ks == keys && ords.iter().enumerate().all(|(i, o)| *o == Some(i as u64)), json!({"what": "void dictionary stream/term_ord", "dict": desc}));
                    if slice.len() <= 700 && total_bytes <= 3000 {
                        out.coq_case("tie", format!("tie_stream unit_eqb void_codec {} {} {}", table_term(&decompress_table(&slice)), cf::bytes(&slice), kunit_term(&keys)), json!({"what": "void: model_decode(impl bytes)", "dict": desc}), nontrivial);
                    }
                }
                Err(e) => out.spec_checked(false, json!({"what": "void dictionary panicked", "panic": e, "dict": desc})),
            }
            let r = guarded(|| {
                let mut w = Dictionary::<RangeSSTable>::builder(Vec::new()).unwrap();
                if let Some(bl) = c.block_len { w.set_block_len(bl); }
                let mut start = 5u64;
                let mut want = vec![];
                for (k, v) in &kvs { let r = start..start + (v % 50); start = r.end; w.insert(k, &r).unwrap(); want.push((k.clone(), r)); }
                let d = Dictionary::<RangeSSTable>::from_bytes(OwnedBytes::new(w.finish().unwrap())).unwrap();
                let gets: Vec<_> = keys.iter().map(|k| d.get(k).unwrap()).collect();
                let slice = d.sstable_slice.read_bytes().unwrap().as_slice().to_vec();
                (gets, want, slice)
            });
            match r {
                Ok((gets, want, slice)) => {
                    out.spec_checked(gets.iter().zip(&want).all(|(g, (_, r))| g.as_ref() == Some(r)), json!({"what": "range-valued dictionary get", "dict": desc}));
                    if slice.len() <= 700 && total_bytes <= 3000 {
                        out.coq_case("tie", format!("tie_stream pairN_eqb range_codec {} {} {}", table_term(&decompress_table(&slice)), cf::bytes(&slice), cf::list(&want, |(k, r)| format!("({}, ({}, {}))", cf::bytes(k), r.start, r.end))),
                                     json!({"what": "range values: model_decode(impl bytes)", "dict": desc}), nontrivial);
                    }
                }
                Err(e) => out.spec_checked(false, json!({"what": "range-valued dictionary panicked", "panic": e, "dict": desc})),
            }
        }
    }

    // ---------------- merges ----------------
    let n_merge = 25 * scale;
    for mi in 0..n_merge {
        let k = rng.range(1, 4) as usize;
        let (ust, un) = (*rng.pick(&[0u64, 1, 2, 3, 5]), rng.range(0, if mi % 5 == 0 { 200 } else { 25 }) as usize);
        let universe = gen_keys(&mut rng, ust, un, 0);
        let inputs: Vec<Kvs> = (0..k).map(|_| {
            let ks: Vec<Key> = universe.iter().filter(|_| rng.chance(1, 2)).cloned().collect();
            let vs = gen_values(&mut rng, ks.len());
            ks.into_iter().zip(vs).collect()
        }).collect();
        let bl = *rng.pick(&[None, Some(0usize), Some(3), Some(17)]);
        let files: Vec<Option<Vec<u8>>> = inputs.iter().map(|kvs| build_u64(kvs, bl).ok().map(|b| b.bytes)).collect();
        if files.iter().any(|f| f.is_none()) { out.spec_checked(false, json!({"what": "merge input build failed"})); continue; }
        let files: Vec<Vec<u8>> = files.into_iter().map(|f| f.unwrap()).collect();
        let desc = json!({"what": "merge", "inputs": inputs.iter().map(|i| i.len()).collect::<Vec<_>>(), "universe": universe.len(), "block_len": bl});
        let small = universe.iter().map(|k| k.len() + 3).sum::<usize>() * k <= 900;
        // (a) sstable heap merge with summed values (wrapping deltas are only sound without overflow checks)
        let mut want: BTreeMap<Key, u64> = BTreeMap::new();
        for i in &inputs { for (k, v) in i { *want.entry(k.clone()).or_insert(0) += *v; } }
        let want: Kvs = want.into_iter().collect();
        if !cfg!(debug_assertions) {
            let r = guarded(|| {
                let mut outb = vec![];
                MonotonicU64SSTable::merge(files.iter().map(|f| OwnedBytes::new(f.clone())).collect(), &mut outb, U64Merge).unwrap();
                let d = Dictionary::<MonotonicU64SSTable>::from_bytes(OwnedBytes::new(outb)).unwrap();
                (stream_all(d.range()), d.num_terms())
            });
            match r {
                Ok((Some(got), nt)) => {
                    out.spec_checked(got == want && nt == want.len(), json!({"what": "sstable merge != sorted union", "case": desc}));
                    if small {
                        out.coq_case("spec", format!("@spec_merge N N.eqb N.add {} {}", cf::list(&inputs, |i| kvs_term(i)), kvs_term(&got)), desc.clone(), k >= 2);
                        out.coq_case("tie", format!("kvs_eqb N.eqb (@heap_merge N N.add {}) {}", cf::list(&inputs, |i| kvs_term(i)), kvs_term(&got)), desc.clone(), k >= 2);
                    }
                }
                other => out.spec_checked(false, json!({"what": "sstable merge panicked", "result": format!("{:?}", other.map(|x| x.1)), "case": desc})),
            }
        }
        // (b) void merge
        let r = guarded(|| {
            let vfiles: Vec<OwnedBytes> = inputs.iter().map(|kvs| { let mut w = Dictionary::<VoidSSTable>::builder(Vec::new()).unwrap(); for (k, _) in kvs { w.insert(k, &()).unwrap(); } OwnedBytes::new(w.finish().unwrap()) }).collect();
            let mut outb = vec![];
            VoidSSTable::merge(vfiles, &mut outb, VoidMerge).unwrap();
            let d = Dictionary::<VoidSSTable>::from_bytes(OwnedBytes::new(outb)).unwrap();
            let mut s = d.stream().unwrap();
            let mut ks: Vec<Key> = vec![];
            while s.advance() { ks.push(s.key().to_vec()); }
            ks
        });
        out.spec_checked(r.as_ref().ok() == Some(&want.iter().map(|kv| kv.0.clone()).collect::<Vec<_>>()), json!({"what": "void sstable merge != sorted union", "case": desc}));
        out.count("merge_cases", 1);

        // (c) tantivy::termdict::TermMerger: sorted union + old ordinal -> new ordinal
        let r = guarded(|| {
            use tantivy::postings::TermInfo;
            use tantivy::termdict::{TermDictionary, TermDictionaryBuilder, TermMerger};
            let dicts: Vec<TermDictionary> = inputs.iter().map(|kvs| {
                let mut w = TermDictionaryBuilder::create(Vec::new()).unwrap();
                let mut pos = 0usize;
                for (i, (k, v)) in kvs.iter().enumerate() {
                    let len = (*v % 7) as usize + 1;
                    w.insert(k, &TermInfo { doc_freq: i as u32, postings_range: pos..pos + len, positions_range: 2 * pos..2 * (pos + len) }).unwrap();
                    pos += len;
                }
                TermDictionary::open(tantivy::directory::FileSlice::from(w.finish().unwrap())).unwrap()
            }).collect();
            // per-dictionary reads
            let mut ok = true;
            for (d, kvs) in dicts.iter().zip(&inputs) {
                ok &= d.num_terms() == kvs.len();
                for (i, (k, _)) in kvs.iter().enumerate() {
                    ok &= d.term_ord(k).unwrap() == Some(i as u64);
                    ok &= d.get(k).unwrap().map(|ti| ti.doc_freq) == Some(i as u32);
                    let mut buf = vec![];
                    ok &= d.ord_to_term(i as u64, &mut buf).unwrap() && &buf == k;
                    let m = mutate(&mut Rng::new(i as u64), k);
                    if kvs.binary_search_by(|kv| kv.0.cmp(&m)).is_err() { ok &= d.term_ord(&m).unwrap().is_none() && d.get(&m).unwrap().is_none(); }
                }
            }
            let mut merger = TermMerger::new(dicts.iter().map(|d| d.stream().unwrap()).collect());
            let mut merged: Vec<Key> = vec![];
            let mut omap: Vec<Vec<u64>> = inputs.iter().map(|i| vec![u64::MAX; i.len()]).collect();
            while merger.advance() {
                let new_ord = merged.len() as u64;
                merged.push(merger.key().to_vec());
                for (seg, old) in merger.matching_segments() { omap[seg][old as usize] = new_ord; }
            }
            (ok, merged, omap)
        });
        match r {
            Ok((ok, merged, omap)) => {
                let want_keys: Vec<Key> = want.iter().map(|kv| kv.0.clone()).collect();
                let map_ok = inputs.iter().zip(&omap).all(|(i, m)| i.iter().zip(m).all(|((k, _), o)| want_keys.get(*o as usize) == Some(k)));
                out.spec_checked(ok, json!({"what": "termdict (fst) get/term_ord/ord_to_term", "case": desc}));
                out.spec_checked(merged == want_keys && map_ok, json!({"what": "TermMerger: sorted union / ordinal mapping", "case": desc}));
                if small {
                    out.coq_case("spec", format!("@spec_ord_map N {} {} {} && bytes_list_eqb {} (keys (@sm_union N N.add {}))", cf::list(&inputs, |i| kvs_term(i)), keys_term(&merged), cf::list(&omap, |m| cf::ns(m)),
                                                 keys_term(&merged), cf::list(&inputs, |i| kvs_term(i))), json!({"what": "TermMerger ordinal map", "case": desc}), k >= 2);
                    out.coq_case("tie", format!("list_eqb (list_eqb N.eqb) (merge_ord_maps {}) {}", cf::list(&inputs, |i| keys_term(&i.iter().map(|kv| kv.0.clone()).collect::<Vec<_>>())), cf::list(&omap, |m| cf::ns(m))),
                                 json!({"what": "model ordinal maps vs TermMerger", "case": desc}), k >= 2);
                }
            }
            Err(e) => out.spec_checked(false, json!({"what": "termdict/TermMerger panicked", "panic": e, "case": desc})),
        }
    }

    // ---------------- columnar dictionary (string column) and its merge ----------------
    for ci in 0..(6 * scale) {
        let nseg = rng.range(1, 3) as usize;
        let style = *rng.pick(&[0u64, 1, 5]);
        let un = rng.range(1, 40) as usize;
        let universe: Vec<Key> = gen_keys(&mut rng, style, un, 0).into_iter().filter(|k| std::str::from_utf8(k).is_ok()).collect();
        if universe.is_empty() { continue; }
        let rows: Vec<Vec<Key>> = (0..nseg).map(|_| (0..rng.range(1, 30)).map(|_| rng.pick(&universe).clone()).collect()).collect();
        let r = guarded(|| {
            use tantivy_columnar::{ColumnarReader, ColumnarWriter};
            let mut readers = vec![];
            for seg in &rows {
                let mut w = ColumnarWriter::default();
                for (doc, v) in seg.iter().enumerate() { w.record_bytes(doc as u32, "c", v); }
                let mut buf = vec![];
                w.serialize(seg.len() as u32, None, &mut buf).unwrap();
                readers.push(ColumnarReader::open(buf).unwrap());
            }
            let read = |r: &ColumnarReader| -> (Vec<Key>, Vec<Key>) {
                let cols = r.read_columns("c").unwrap();
                let tantivy_columnar::DynamicColumn::Bytes(col) = cols[0].open().unwrap() else { panic!("not a bytes column") };
                let mut ks = vec![];
                let mut s = col.dictionary().stream().unwrap();
                while s.advance() { ks.push(s.key().to_vec()); }
                let mut per_doc = vec![];
                for doc in 0..r.num_docs() {
                    let ord = col.term_ords(doc).next().unwrap();
                    let mut b = vec![];
                    assert!(col.ord_to_bytes(ord, &mut b).unwrap());
                    per_doc.push(b);
                }
                (ks, per_doc)
            };
            let singles: Vec<_> = readers.iter().map(|r| read(r)).collect();
            let refs: Vec<&ColumnarReader> = readers.iter().collect();
            let mut merged = vec![];
            tantivy_columnar::merge_columnar(&refs, &[], tantivy_columnar::MergeRowOrder::Stack(tantivy_columnar::StackMergeOrder::stack(&refs)), &mut merged).unwrap();
            let m = read(&ColumnarReader::open(merged).unwrap());
            (singles, m)
        });
        let desc = json!({"what": "columnar bytes column", "segments": rows.iter().map(|r| r.len()).collect::<Vec<_>>(), "distinct": universe.len(), "cfg": ci});
        match r {
            Ok((singles, (mkeys, mdocs))) => {
                let mut ok = true;
                for (seg, (ks, per_doc)) in rows.iter().zip(&singles) {
                    let mut want: Vec<Key> = seg.clone(); want.sort(); want.dedup();
                    ok &= *ks == want && per_doc == seg;
                }
                let mut want: Vec<Key> = rows.iter().flatten().cloned().collect(); want.sort(); want.dedup();
                let all_docs: Vec<Key> = rows.iter().flatten().cloned().collect();
                out.spec_checked(ok, json!({"what": "columnar dictionary: keys / per-document terms", "case": desc}));
                out.spec_checked(mkeys == want && mdocs == all_docs, json!({"what": "columnar merge: dictionary is the sorted union and every document keeps its term through the ordinal remap", "case": desc}));
                out.count("columnar_cases", 1);
            }
            Err(e) => out.spec_checked(false, json!({"what": "columnar dictionary panicked", "panic": e, "case": desc})),
        }
    }

    // ---------------- malformed streams: out-of-order and duplicate inserts ----------------
    let mut bad: Vec<(Vec<Key>, usize)> = vec![
        (vec![vec![], vec![], b"a".to_vec()], 4000),                 // F11 witness
        (vec![vec![], vec![]], 1), (vec![vec![], vec![], vec![]], 1), (vec![vec![], vec![]], 0),
        (vec![b"a".to_vec(), b"a".to_vec()], 4000), (vec![b"a".to_vec(), b"a".to_vec()], 0),
        (vec![b"ab".to_vec(), b"a".to_vec()], 4000), (vec![b"ab".to_vec(), b"a".to_vec()], 0),
        (vec![b"b".to_vec(), b"a".to_vec()], 4000), (vec![b"b".to_vec(), b"a".to_vec()], 0),
        (vec![b"a".to_vec(), vec![]], 4000), (vec![b"a".to_vec(), vec![]], 0),
        (vec![vec![], b"a".to_vec(), vec![]], 4000), (vec![vec![0], vec![0]], 4000),
    ];
    for _ in 0..(60 * scale) {
        let (st, kn) = (*rng.pick(&[0u64, 1, 2, 3, 5]), rng.range(2, 12) as usize);
        let mut ks = gen_keys(&mut rng, st, kn, 0);
        if ks.len() < 2 { continue; }
        let i = rng.below(ks.len() as u64 - 1) as usize + 1;
        match rng.below(4) { 0 => { let d = ks[i - 1].clone(); ks.insert(i, d); } 1 => { ks.swap(i - 1, i); } 2 => { let j = rng.below(i as u64) as usize; let d = ks[j].clone(); ks.insert(i, d); } _ => { let k = ks.remove(0); ks.push(k); } }
        bad.push((ks, *rng.pick(&[0usize, 1, 2, 5, 40, 4000])));
    }
    for (ks, bl) in bad {
        let sorted = ks.windows(2).all(|w| w[0] < w[1]);
        let r = guarded(|| {
            let mut w = Dictionary::<VoidSSTable>::builder(Vec::new()).unwrap();
            w.set_block_len(bl);
            for (i, k) in ks.iter().enumerate() {
                if guarded(|| w.insert(k, &()).unwrap()).is_err() { return (Some(i as u64), 0); }
            }
            let bytes = w.finish().unwrap();
            (None, Dictionary::<VoidSSTable>::from_bytes(OwnedBytes::new(bytes)).unwrap().num_terms())
        });
        let Ok((rejected_at, num_terms)) = r else { out.spec_checked(false, json!({"what": "builder panicked outside insert", "keys": ks.iter().map(|k| cf::hex(k)).collect::<Vec<_>>()})); continue; };
        let desc = json!({"what": "malformed key stream", "keys": ks.iter().map(|k| cf::hex(k)).collect::<Vec<_>>(), "block_len": bl, "rejected_at": rejected_at, "num_terms_if_accepted": num_terms});
        out.count("malformed_streams", 1);
        out.count(if rejected_at.is_some() { "malformed_rejected" } else { "malformed_accepted" }, 1);
        out.coq_case("tie", format!("tie_reject {} {} {}", bl, keys_term(&ks), optn(&rejected_at)), desc.clone(), true);
        // spec: an unordered stream must not be silently accepted (F11 is repaired in /repo: its witness is the
        // first stream of this list and is now an ordinary regression case)
        out.spec_checked(sorted || rejected_at.is_some(), json!({"what": "an unordered key stream was silently accepted", "case": desc}));
        out.coq_case("spec", format!("spec_rejects {} {}", keys_term(&ks), cf::boolean(rejected_at.is_none())), desc, true);
    }

    out.finish(json!({"tier": args.tier, "seed": args.seed}));
}
