//! Reproduction of F50: after a writer restart (or rollback) the first delete of the new writer
//! shares its opstamp with the last commit; a merge of committed segments applies and publishes it.
use tantivy::schema::{Schema, FAST, INDEXED, STORED, STRING};
use tantivy::{doc, Index, IndexWriter, TantivyDocument, Term};
use tantivy::indexer::NoMergePolicy;

fn main() {
    let mut sb = Schema::builder();
    let id = sb.add_u64_field("id", FAST | INDEXED | STORED);
    let tag = sb.add_text_field("tag", STRING | STORED);
    let index = Index::create_in_ram(sb.build());
    {
        let mut w: IndexWriter<TantivyDocument> = index.writer_with_num_threads(1, 15_000_000).unwrap();
        w.set_merge_policy(Box::new(NoMergePolicy));
        w.add_document(doc!(id => 1u64, tag => "a")).unwrap();
        w.commit().unwrap();
        w.add_document(doc!(id => 2u64, tag => "b")).unwrap();
        let c = w.commit().unwrap();
        println!("commit opstamp {c}");
    } // writer dropped
    let mut w: IndexWriter<TantivyDocument> = index.writer_with_num_threads(1, 15_000_000).unwrap();
    w.set_merge_policy(Box::new(NoMergePolicy));
    let d = w.delete_term(Term::from_field_text(tag, "a"));
    println!("uncommitted delete opstamp {d}");
    let ids = index.searchable_segment_ids().unwrap();
    w.merge(&ids).wait().unwrap();
    // no commit was issued: a fresh searcher must still see both documents
    let n = index.reader().unwrap().searcher().num_docs();
    println!("docs visible to a fresh searcher without any commit: {n} (expected 2)");
    std::process::exit(if n == 2 { 0 } else { 1 });
}
