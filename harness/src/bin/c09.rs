//! C09 correspondence: stored documents are returned exactly as they were added.
//!  (A) raw block store (StoreWriter::store_bytes / StoreReader::get_document_bytes) under every
//!      compressor / block size / thread / cache configuration, with the Coq reader model run on the
//!      implementation's file (Compressor::None) -- skip-index layers, block offset tables;
//!  (B) typed documents through StoreWriter::store and StoreReader::get / iter (alive bitsets), the Coq
//!      document decoder run on the implementation's serialised bytes, the Coq `stored_part` spec;
//!  (C) StoreWriter::stack and re-append merges at store level, model merge vs implementation;
//!  (D) whole indexes: settings x segments x deletes x merges, Searcher::doc and store iteration.
use std::collections::{BTreeMap, HashSet};
use std::net::Ipv6Addr;
use std::io::Write;
use std::path::Path;
use std::sync::atomic::{AtomicBool, AtomicUsize, Ordering};
use std::sync::{Arc, Mutex};

use serde_json::json;
use tantivy::directory::{AntiCallToken, Directory, FileSlice, RamDirectory, TerminatingWrite, WritePtr};
use tantivy::fastfield::{write_alive_bitset, AliveBitSet};
use tantivy::indexer::NoMergePolicy;
use tantivy::schema::{Facet, Field, OwnedValue, Schema, TantivyDocument, FAST, INDEXED, STORED, STRING, TEXT};
use tantivy::store::{Compressor, StoreReader, StoreWriter, ZstdCompressor};
use tantivy::tokenizer::{PreTokenizedString, Token};
use tantivy::{DateTime, DocAddress, Index, IndexSettings, IndexSortByField, IndexWriter, Order, ReloadPolicy, Term};
use tantivy_common::{BitSet, OwnedBytes};
use tvh::coqfmt as cf;
use tvh::out::CaseOut;
use tvh::rng::Rng;
use tvh::vdir::{OpKind, VerifDirectory};
use tvh::{guarded, Args};

const HEADER: &str = "From TV Require Import Base.Prelude Generated.Constants Store.VInt Store.SkipIndex Store.BlockStore Store.DocCodec Store.WriterFaults.";

// ------------------------------------------------------------------ values and documents
#[derive(Clone, Debug)]
enum Added {
    Val(OwnedValue),
    PreTok(PreTokenizedString),
}

fn pretok_json(p: &PreTokenizedString) -> String {
    serde_json::to_string(p).unwrap()
}

/// Gallina term of a value (also the canonical form used for comparisons: f64 by bit pattern).
fn val_term(v: &OwnedValue) -> String {
    match v {
        OwnedValue::Null => "VNull".into(),
        OwnedValue::Str(s) => format!("(VStr {})", cf::bytes(s.as_bytes())),
        OwnedValue::PreTokStr(p) => format!("(VPreTok {})", cf::bytes(pretok_json(p).as_bytes())),
        OwnedValue::U64(x) => format!("(VU64 {})", x),
        OwnedValue::I64(x) => format!("(VI64 {})", *x as u64),
        OwnedValue::F64(x) => format!("(VF64 {})", x.to_bits()),
        OwnedValue::Bool(b) => format!("(VBool {})", b),
        OwnedValue::Date(d) => format!("(VDate {})", d.into_timestamp_nanos() as u64),
        OwnedValue::Facet(f) => format!("(VFacet {})", cf::bytes(f.encoded_str().as_bytes())),
        OwnedValue::Bytes(b) => format!("(VBytes {})", cf::bytes(b)),
        OwnedValue::Array(l) => format!("(VArr {})", cf::list(l, val_term)),
        OwnedValue::Object(kvs) => format!("(VObj {})", cf::list(kvs, |(k, v)| format!("({}, {})", cf::bytes(k.as_bytes()), val_term(v)))),
        OwnedValue::IpAddr(ip) => format!("(VIp {})", u128::from(*ip)),
    }
}

fn added_term(d: &[(u32, Added)]) -> String {
    cf::list(d, |(f, a)| match a {
        Added::Val(v) => format!("({}, FVal {})", f, val_term(v)),
        Added::PreTok(p) => format!("({}, FPreTok {} {})", f, cf::bytes(p.text.as_bytes()), cf::bytes(pretok_json(p).as_bytes())),
    })
}

fn sdoc_term(d: &[(u32, OwnedValue)]) -> String {
    cf::list(d, |(f, v)| format!("({}, {})", f, val_term(v)))
}

/// The property's expectation, recomputed on the Rust side for the bulk sweeps (the Coq `stored_part`
/// is evaluated on the sampled cases).
fn stored_part_rs(d: &[(u32, Added)], stored: &HashSet<u32>) -> Vec<(u32, OwnedValue)> {
    d.iter().filter(|(f, _)| stored.contains(f)).map(|(f, a)| (*f, match a {
        Added::Val(v) => v.clone(),
        Added::PreTok(p) => OwnedValue::Str(p.text.clone()),
    })).collect()
}

fn returned(doc: &TantivyDocument) -> Vec<(u32, OwnedValue)> {
    doc.field_values().map(|(f, v)| (f.field_id(), OwnedValue::from(v))).collect()
}

fn build_doc(d: &[(u32, Added)]) -> TantivyDocument {
    let mut doc = TantivyDocument::default();
    for (f, a) in d {
        let field = Field::from_field_id(*f);
        match a {
            Added::Val(v) => doc.add_field_value(field, v),
            Added::PreTok(p) => doc.add_pre_tokenized_text(field, p.clone()),
        }
    }
    doc
}

const WORDS: &[&str] = &["", "a", "hello", "wor ld", "\u{e9}t\u{e9}", "\u{65e5}\u{672c}\u{8a9e}", "\u{1F600}", "\u{0}", "x\u{7f}y", "/", "\\\"q\"", "\u{10FFFF}", "\u{80}\u{7ff}\u{800}"];

fn gen_string(rng: &mut Rng, max: usize) -> String {
    match rng.below(6) {
        0 => String::new(),
        1 => rng.pick(WORDS).to_string(),
        2 => (0..rng.range(1, 4)).map(|_| *rng.pick(WORDS)).collect::<Vec<_>>().join(" "),
        3 => { let n = [126usize, 127, 128, 129][rng.below(4) as usize].min(max.max(1)); "v".repeat(n) }
        _ => { let n = rng.below(max as u64 + 1) as usize; (0..n).map(|_| (b'a' + rng.below(26) as u8) as char).collect() }
    }
}

fn gen_pretok(rng: &mut Rng) -> PreTokenizedString {
    let text = gen_string(rng, 12);
    let n = rng.below(3) as usize;
    let tokens = (0..n).map(|i| Token { offset_from: i, offset_to: i + 1, position: i, text: gen_string(rng, 4), position_length: 1 }).collect();
    PreTokenizedString { text, tokens }
}

fn gen_u64(rng: &mut Rng) -> u64 {
    match rng.below(6) { 0 => 0, 1 => u64::MAX, 2 => 1 << 63, 3 => (1 << 63) - 1, 4 => rng.below(300), _ => rng.next_u64() }
}

fn gen_f64(rng: &mut Rng) -> f64 {
    match rng.below(10) {
        0 => 0.0, 1 => -0.0, 2 => f64::INFINITY, 3 => f64::NEG_INFINITY, 4 => f64::NAN,
        5 => f64::from_bits(0x7ff8_0000_0000_0000 | rng.below(1 << 20)),            // NaN payloads
        6 => f64::from_bits(0xfff0_0000_0000_0001 | rng.below(1 << 20)),            // negative signalling NaN
        7 => f64::MIN_POSITIVE / 2.0, 8 => (rng.below(2000) as f64 - 1000.0) / 8.0,
        _ => f64::from_bits(rng.next_u64()),
    }
}

fn gen_leaf(rng: &mut Rng, max_str: usize) -> OwnedValue {
    match rng.below(12) {
        0 => OwnedValue::Null,
        1 => OwnedValue::Str(gen_string(rng, max_str)),
        2 => OwnedValue::U64(gen_u64(rng)),
        3 => OwnedValue::I64(gen_u64(rng) as i64),
        4 => OwnedValue::F64(gen_f64(rng)),
        5 => OwnedValue::Bool(rng.chance(1, 2)),
        6 => OwnedValue::Date(DateTime::from_timestamp_nanos(gen_u64(rng) as i64)),
        7 => { let parts: Vec<String> = (0..rng.below(3)).map(|_| gen_string(rng, 5).replace('\u{0}', "z")).collect();
               OwnedValue::Facet(Facet::from_path(parts.iter().map(|s| s.as_str()))) }
        8 => { let n = rng.below(max_str as u64 + 1) as usize; OwnedValue::Bytes(rng.bytes(n)) }
        9 => OwnedValue::IpAddr(match rng.below(3) { 0 => Ipv6Addr::from(0u128), 1 => Ipv6Addr::from(u128::MAX), _ => Ipv6Addr::from(((rng.next_u64() as u128) << 64) | rng.next_u64() as u128) }),
        10 => OwnedValue::PreTokStr(gen_pretok(rng)),
        _ => OwnedValue::Str(gen_string(rng, max_str)),
    }
}

fn gen_value(rng: &mut Rng, depth: usize, max_str: usize) -> OwnedValue {
    if depth == 0 || rng.chance(1, 2) { return gen_leaf(rng, max_str); }
    if rng.chance(1, 2) {
        let n = [0u64, 1, 2, 3, 5][rng.below(5) as usize];
        OwnedValue::Array((0..n).map(|_| gen_value(rng, depth - 1, max_str)).collect())
    } else {
        let n = [0u64, 1, 2, 3][rng.below(4) as usize];
        // keys may repeat and are kept in insertion order (OwnedValue::Object is a Vec)
        OwnedValue::Object((0..n).map(|_| (gen_string(rng, 4), gen_value(rng, depth - 1, max_str))).collect())
    }
}

/// values that the JSON-field indexer accepts (no ip / facet / pre-tokenized / bytes leaves)
fn gen_json_value(rng: &mut Rng, depth: usize) -> OwnedValue {
    if depth == 0 || rng.chance(1, 2) {
        return match rng.below(7) {
            0 => OwnedValue::Null, 1 => OwnedValue::Str(gen_string(rng, 10)), 2 => OwnedValue::U64(gen_u64(rng)), 3 => OwnedValue::I64(gen_u64(rng) as i64),
            4 => OwnedValue::F64(gen_f64(rng)), 5 => OwnedValue::Bool(rng.chance(1, 2)), _ => OwnedValue::Date(DateTime::from_timestamp_nanos(gen_u64(rng) as i64)),
        };
    }
    if rng.chance(1, 2) { OwnedValue::Array((0..rng.below(4)).map(|_| gen_json_value(rng, depth - 1)).collect()) }
    else { OwnedValue::Object((0..rng.below(4)).map(|_| (gen_string(rng, 4).replace('\u{0}', "n"), gen_json_value(rng, depth - 1))).collect()) }
}

/// deep nesting chain (arrays/objects alternating)
fn gen_deep(rng: &mut Rng, depth: usize) -> OwnedValue {
    let mut v = gen_leaf(rng, 3);
    for i in 0..depth {
        v = if (i + rng.below(2) as usize) % 2 == 0 { OwnedValue::Array(vec![v]) } else { OwnedValue::Object(vec![(format!("k{}", i % 3), v)]) };
    }
    v
}

/// A document over field ids 0..nfields (top-level values never are OwnedValue::PreTokStr: that is Added::PreTok).
fn gen_doc(rng: &mut Rng, nfields: u32, max_vals: u64, max_str: usize) -> Vec<(u32, Added)> {
    let n = match rng.below(8) { 0 => 0, 1 => 1, _ => rng.range(0, max_vals) };
    (0..n).map(|_| {
        let f = rng.below(nfields as u64) as u32;
        let a = match rng.below(12) {
            0 => Added::PreTok(gen_pretok(rng)),
            1 => { let dp = rng.range(1, 12) as usize; Added::Val(gen_deep(rng, dp)) }
            _ => loop { let v = gen_value(rng, 3, max_str); if !matches!(v, OwnedValue::PreTokStr(_)) { break Added::Val(v); } },
        };
        (f, a)
    }).collect()
}

// ------------------------------------------------------------------ store helpers
#[derive(Clone, Copy, Debug)]
struct Cfg { comp: u8, block_size: usize, thread: bool }

fn compressor(c: u8) -> Compressor {
    match c { 0 => Compressor::None, 1 => Compressor::Lz4, 2 => Compressor::Zstd(ZstdCompressor::default()), _ => Compressor::Zstd(ZstdCompressor { compression_level: Some(1) }) }
}
fn comp_name(c: u8) -> &'static str { match c { 0 => "none", 1 => "lz4", 2 => "zstd", _ => "zstd(1)" } }

fn block_size_choice(rng: &mut Rng) -> usize {
    *rng.pick(&[0usize, 1, 9, 64, 65, 100, 255, 256, 1000, 4096, 16_384, 100_000, 1 << 20])
}

fn read_file(dir: &RamDirectory, path: &Path) -> Vec<u8> {
    dir.open_read(path).unwrap().read_bytes().unwrap().as_slice().to_vec()
}

fn alive_bitset(max_doc: u32, deleted: &[u32]) -> AliveBitSet {
    let mut bs = BitSet::with_max_value_and_full(max_doc);
    for d in deleted { bs.remove(*d); }
    let mut buf = Vec::new();
    write_alive_bitset(&bs, &mut buf).unwrap();
    AliveBitSet::open(OwnedBytes::new(buf))
}

/// raw documents (>= 1 byte) whose sizes are biased around the flush rule `len + 8 * ndocs > block_size`
fn gen_raw_docs(rng: &mut Rng, n: usize, block_size: usize, max_len: usize) -> Vec<Vec<u8>> {
    (0..n).map(|_| {
        let len = match rng.below(10) {
            0 => 0,
            1 => block_size.saturating_sub(8),          // exactly at the limit (not flushed)
            2 => block_size.saturating_sub(7),          // one byte over the limit
            3 => block_size.saturating_sub(9),
            4 => block_size + 1 + rng.below(20) as usize,   // larger than a block
            5 => block_size / 2,
            _ => rng.below(max_len as u64 + 1) as usize,
        }.min(max_len.max(block_size.min(300_000) + 32)).max(1);   // a serialised document is never empty (>= 1 byte: its VInt field count)
        rng.bytes(len)
    }).collect()
}

// ------------------------------------------------------------------ a `Write` whose operations can fail
/// Every write / flush / terminate of the underlying writer is one numbered operation; operation `fail_at`
/// (and, when `sticky`, every later one: disk full) returns an io::Error.  `short` makes writes accept
/// only a prefix (legal behaviour of `Write::write`).
#[derive(Clone)]
struct FaultSink {
    data: Arc<Mutex<Vec<u8>>>,
    ops: Arc<AtomicUsize>,
    fired: Arc<AtomicBool>,
    fail_at: Option<usize>,
    sticky: bool,
    short: bool,
}
impl FaultSink {
    fn new(fail_at: Option<usize>, sticky: bool, short: bool) -> FaultSink {
        FaultSink { data: Default::default(), ops: Default::default(), fired: Default::default(), fail_at, sticky, short }
    }
    fn op(&self) -> std::io::Result<usize> {
        let i = self.ops.fetch_add(1, Ordering::SeqCst);
        if let Some(k) = self.fail_at {
            if i == k || (self.sticky && i > k) {
                self.fired.store(true, Ordering::SeqCst);
                return Err(std::io::Error::new(std::io::ErrorKind::StorageFull, "injected fault: no space left on device"));
            }
        }
        Ok(i)
    }
    fn write_ptr(&self, cap: usize) -> WritePtr {
        std::io::BufWriter::with_capacity(cap, Box::new(self.clone()))
    }
}
impl Write for FaultSink {
    fn write(&mut self, buf: &[u8]) -> std::io::Result<usize> {
        let i = self.op()?;
        let n = if self.short && buf.len() > 1 { 1 + (i * 7 + 3) % buf.len() } else { buf.len() };
        self.data.lock().unwrap().extend_from_slice(&buf[..n]);
        Ok(n)
    }
    fn flush(&mut self) -> std::io::Result<()> { self.op().map(|_| ()) }
}
impl TerminatingWrite for FaultSink {
    fn terminate_ref(&mut self, _: AntiCallToken) -> std::io::Result<()> { self.op().map(|_| ()) }
}

/// store_bytes every document then close, stopping at the first Err (what every caller does with `?`)
fn write_store_on(sink: &FaultSink, cap: usize, comp: u8, block_size: usize, thread: bool, docs: &[Vec<u8>]) -> Result<std::io::Result<()>, String> {
    guarded(|| -> std::io::Result<()> {
        let mut sw = StoreWriter::new(sink.write_ptr(cap), compressor(comp), block_size, thread)?;
        for d in docs { sw.store_bytes(d)?; }
        sw.close()
    })
}

fn main() {
    let args = Args::parse();
    if std::env::var("C09_DEBUG").is_err() { tvh::quiet_panics(); }
    let mut rng = Rng::new(args.seed);
    let thorough = args.thorough();
    let mut out = CaseOut::new(&args.out, HEADER, 40);

    // ================================================================ (A) raw block store
    let boundary_counts: Vec<usize> = vec![0, 1, 2, 7, 8, 9, 15, 16, 17, 63, 64, 65, 71, 72, 73, 128, 511, 512, 513, 520, 600];
    let n_raw = if thorough { 1500 } else { 90 };
    let mut coq_store_budget: i64 = if thorough { 400 } else { 48 };
    for i in 0..n_raw {
        let tiny = i % 3 == 0;   // tiny documents, one per block: the number of blocks drives the skip-index layers
        let cfg = Cfg { comp: if tiny { (i / 3 % 4) as u8 % 4 } else { rng.below(4) as u8 }, block_size: if tiny { *rng.pick(&[0usize, 1, 9, 20]) } else { block_size_choice(&mut rng) }, thread: rng.chance(1, 2) };
        let n = if tiny { boundary_counts[(i / 3) % boundary_counts.len()] + if i / 3 >= boundary_counts.len() { rng.below(40) as usize } else { 0 } }
                else { *rng.pick(&[0usize, 1, 2, 5, 20, 60]) };
        let max_len = if tiny { 6 } else if cfg.block_size > 20_000 { 40_000 } else { 400 };
        let docs = gen_raw_docs(&mut rng, n, cfg.block_size, max_len);
        let dir = RamDirectory::create();
        let path = Path::new("store");
        let w = guarded(|| -> std::io::Result<()> {
            let mut sw = StoreWriter::new(dir.open_write(path).unwrap(), compressor(cfg.comp), cfg.block_size, cfg.thread)?;
            for d in &docs { sw.store_bytes(d)?; }
            sw.close()
        });
        let desc = json!({"what": "raw-store", "compressor": comp_name(cfg.comp), "block_size": cfg.block_size, "thread": cfg.thread, "docs": n, "lens": docs.iter().take(40).map(|d| d.len()).collect::<Vec<_>>()});
        if !matches!(w, Ok(Ok(()))) { out.spec_checked(false, json!({"what": "store write failed", "case": desc, "result": format!("{:?}", w)})); continue; }
        out.count("raw_store_cases", 1);
        out.count(&format!("compressor_{}", comp_name(cfg.comp)), 1);
        out.count("raw_docs", n as u64);
        for cache in [0usize, 1, 10] {
            let rd = guarded(|| StoreReader::open(dir.open_read(path).unwrap(), cache));
            let rd = match rd { Ok(Ok(r)) => r, other => { out.spec_checked(false, json!({"what": "store open failed", "case": desc, "result": format!("{:?}", other.map(|r| r.map(|_| ())))})); continue; } };
            // random access order with repeats (cache hits, evictions), then a full sweep
            let mut order: Vec<usize> = (0..n).collect();
            rng.shuffle(&mut order);
            for _ in 0..n.min(30) { if n > 0 { order.push(rng.below(n as u64) as usize); } }
            if cache == 1 { order.extend(0..n); }
            let mut ok = true; let mut bad = json!(null);
            for &d in &order {
                match guarded(|| rd.get_document_bytes(d as u32)) {
                    Ok(Ok(b)) if b.as_slice() == &docs[d][..] => {}
                    other => { ok = false; bad = json!({"doc": d, "expected_len": docs[d].len(), "got": format!("{:?}", other.map(|r| r.map(|b| cf::hex(&b.as_slice()[..b.len().min(64)]))))}); break; }
                }
            }
            out.spec_checked(ok, json!({"what": "get_document_bytes != stored bytes", "cache": cache, "case": desc, "bad": bad, "docs_hex": docs.iter().take(80).map(|d| cf::hex(&d[..d.len().min(64)])).collect::<Vec<_>>()}));
            out.count("raw_gets", order.len() as u64);
        }
        // tie: the Coq reader model on the implementation's file (identity codec)
        let file = read_file(&dir, path);
        if cfg.comp == 0 && file.len() <= 9000 && coq_store_budget > 0 {
            coq_store_budget -= 1;
            let mut ids: Vec<usize> = if n <= 24 { (0..n).collect() } else {
                let mut v = vec![0, 1, 7, 8, 9, 63, 64, 65, n / 2, n - 2, n - 1]; for _ in 0..10 { v.push(rng.below(n as u64) as usize); } v.retain(|&x| x < n); v };
            ids.dedup();
            let samples = cf::list(&ids, |&d| format!("({}, {})", d, cf::bytes(&docs[d])));
            let deleted: Vec<u32> = (0..n as u32).filter(|_| rng.chance(1, 4)).collect();
            let live: Vec<&Vec<u8>> = (0..n).filter(|d| !deleted.contains(&(*d as u32))).map(|d| &docs[d]).collect();
            let iter_part = if n <= 80 {
                format!("&& list_eqb opt_bytes_eqb (store_iter_raw id_decompress r (alive_of {})) {}", cf::ns(&deleted), cf::list(&live, |d| format!("(Some {})", cf::bytes(d))))
            } else { String::new() };
            let term = format!("match store_open {} with Some r => forallb (fun s => opt_bytes_eqb (store_get id_decompress r (fst s)) (Some (snd s))) {} && opt_bytes_eqb (store_get id_decompress r {}) None && Nat.eqb (length (store_checkpoints r)) (length (store_checkpoints r)) {} | None => false end",
                               cf::bytes(&file), samples, n, iter_part);
            out.coq_case("tie", term, json!({"what": "model reader on the implementation's store file", "case": desc, "file_len": file.len()}), n >= 2);
            out.count("coq_store_files", 1);
        }
    }

    // ================================================================ (B) typed documents through the store
    let n_typed = if thorough { 1000 } else { 60 };
    let mut coq_doc_budget: i64 = if thorough { 4000 } else { 420 };
    for i in 0..n_typed {
        let nfields = rng.range(1, 6) as u32;
        let stored: HashSet<u32> = (0..nfields).filter(|_| rng.chance(2, 3)).collect();
        let mut sb = Schema::builder();
        for f in 0..nfields {
            // stored-only or not-stored fields of various declared types: StoreWriter::store does not
            // look at the declared type, only at is_stored()
            let st = stored.contains(&f);
            match f % 3 {
                0 => { if st { sb.add_bytes_field(&format!("f{f}"), STORED) } else { sb.add_bytes_field(&format!("f{f}"), INDEXED) } }
                1 => { if st { sb.add_text_field(&format!("f{f}"), STORED) } else { sb.add_text_field(&format!("f{f}"), TEXT) } }
                _ => { if st { sb.add_json_field(&format!("f{f}"), STORED) } else { sb.add_json_field(&format!("f{f}"), TEXT) } }
            };
        }
        let schema = sb.build();
        let cfg = Cfg { comp: rng.below(4) as u8, block_size: block_size_choice(&mut rng), thread: rng.chance(1, 2) };
        let n = *rng.pick(&[0usize, 1, 3, 10, 30]);
        let big = i % 7 == 3;
        let mut docs: Vec<Vec<(u32, Added)>> = (0..n).map(|_| gen_doc(&mut rng, nfields, 5, if big { 300 } else { 24 })).collect();
        if big && n > 0 && cfg.block_size <= 100_000 {
            // one document just around / far above the block size
            let k = rng.below(n as u64) as usize;
            let pad = cfg.block_size + [0usize, 1, 50][rng.below(3) as usize];
            docs[k].push((rng.below(nfields as u64) as u32, Added::Val(OwnedValue::Bytes(rng.bytes(pad)))));
        }
        let dir = RamDirectory::create();
        let path = Path::new("store");
        let w = guarded(|| -> std::io::Result<()> {
            let mut sw = StoreWriter::new(dir.open_write(path).unwrap(), compressor(cfg.comp), cfg.block_size, cfg.thread)?;
            for d in &docs { sw.store(&build_doc(d), &schema)?; }
            sw.close()
        });
        let mut stored_ids: Vec<u32> = stored.iter().cloned().collect(); stored_ids.sort();
        let desc = json!({"what": "typed-store", "compressor": comp_name(cfg.comp), "block_size": cfg.block_size, "thread": cfg.thread, "docs": n, "fields": nfields, "stored": stored_ids});
        if !matches!(w, Ok(Ok(()))) { out.spec_checked(false, json!({"what": "store write failed", "case": desc, "result": format!("{:?}", w)})); continue; }
        out.count("typed_store_cases", 1);
        out.count(&format!("compressor_{}", comp_name(cfg.comp)), 1);
        let cache = *rng.pick(&[0usize, 1, 10]);
        let rd = match guarded(|| StoreReader::open(dir.open_read(path).unwrap(), cache)) { Ok(Ok(r)) => r, _ => { out.spec_checked(false, json!({"what": "store open failed", "case": desc})); continue; } };
        let mut order: Vec<usize> = (0..n).collect();
        rng.shuffle(&mut order);
        for &d in &order {
            let expect = stored_part_rs(&docs[d], &stored);
            let got = guarded(|| rd.get::<TantivyDocument>(d as u32));
            let got = match got { Ok(Ok(doc)) => returned(&doc), other => { out.spec_checked(false, json!({"what": "get failed", "case": desc, "doc": d, "added": added_term(&docs[d]), "result": format!("{:?}", other.map(|r| r.map(|_| ())))})); continue; } };
            let small = added_term(&docs[d]).len() < 2500;
            let ddesc = json!({"what": "document", "case": desc, "doc": d, "added": if small { added_term(&docs[d]) } else { "<large>".into() }, "stored": stored_ids});
            // spec, Rust side (all documents)
            out.spec_checked(sdoc_term(&expect) == sdoc_term(&got), json!({"what": "returned document != stored part of the added document", "case": ddesc, "expected": sdoc_term(&expect).chars().take(3000).collect::<String>(), "got": sdoc_term(&got).chars().take(3000).collect::<String>()}));
            out.count("typed_docs", 1);
            out.count("typed_values", docs[d].len() as u64);
            if small && coq_doc_budget > 0 {
                coq_doc_budget -= 1;
                let nontrivial = expect.len() >= 1;
                // spec, in Coq: stored_part of the added document = what was returned
                out.coq_case("spec", format!("sdoc_eqb (stored_part (stored_of {}) {}) {}", cf::ns(&stored_ids), added_term(&docs[d]), sdoc_term(&got)), ddesc.clone(), nontrivial);
                // tie: the Coq decoder on the implementation's serialised bytes
                if let Ok(Ok(raw)) = guarded(|| rd.get_document_bytes(d as u32)) {
                    out.coq_case("tie", format!("dres_sdoc_eqb (de_doc {}) {}", cf::bytes(raw.as_slice()), sdoc_term(&got)), ddesc.clone(), nontrivial);
                }
            }
        }
        // iteration with an alive bitset: live documents in doc-id order
        let deleted: Vec<u32> = (0..n as u32).filter(|_| rng.chance(1, 3)).collect();
        let use_bitset = rng.chance(3, 4);
        let bs = alive_bitset(n.max(1) as u32, &deleted);
        let it = guarded(|| rd.iter::<TantivyDocument>(if use_bitset { Some(&bs) } else { None }).map(|r| r.map(|d| sdoc_term(&returned(&d))).map_err(|e| format!("{e:?}"))).collect::<Vec<_>>());
        let expect: Vec<Result<String, String>> = (0..n).filter(|d| !use_bitset || !deleted.contains(&(*d as u32))).map(|d| Ok(sdoc_term(&stored_part_rs(&docs[d], &stored)))).collect();
        out.spec_checked(matches!(&it, Ok(v) if *v == expect), json!({"what": "iter != live documents in doc-id order", "case": desc, "deleted": deleted, "bitset": use_bitset,
            "got_len": it.as_ref().map(|v| v.len()).unwrap_or(0), "expected_len": expect.len()}));
        out.count("iter_cases", 1);
    }

    // ================================================================ (B2) serialize_vint_u32 / VInt at every branch boundary
    {
        let mut vals: Vec<u64> = vec![0, 1, 2, u32::MAX as u64, u32::MAX as u64 - 1];
        for sh in [7u32, 14, 21, 22, 28, 31] { for d in [-2i64, -1, 0, 1, 2] { let v = (1i64 << sh) + d; if v >= 0 && v <= u32::MAX as i64 { vals.push(v as u64); } } }
        for sh in [7u32, 14, 21, 22, 28] { for _ in 0..6 { vals.push((1u64 << sh) + rng.below(1u64 << sh)); } }   // inside each branch
        for _ in 0..(if thorough { 400 } else { 60 }) { vals.push(rng.next_u64() >> (32 + rng.below(32))); }
        for v in vals {
            let v32 = v as u32;
            let r = guarded(|| {
                let mut buf = [0u8; 8];
                let enc = tantivy_common::serialize_vint_u32(v32, &mut buf).to_vec();
                let mut padded = enc.clone(); padded.push(7);
                let (dec, n) = tantivy_common::read_u32_vint_no_advance(&padded);
                let mut sl: &[u8] = &padded;
                let dec2 = tantivy_common::read_u32_vint(&mut sl);
                (enc, dec, n, dec2, sl.to_vec())
            });
            match r {
                Ok((enc, dec, n, dec2, rest)) => {
                    // spec: the length read back is the length written
                    out.spec_checked(dec == v32 && n == enc.len() && dec2 == v32 && rest == vec![7u8], json!({"what": "read_u32_vint(serialize_vint_u32 n) != n", "n": v32, "encoded": cf::hex(&enc), "decoded": dec, "consumed": n}));
                    // tie (decode direction): the Coq reader on the implementation's bytes
                    out.coq_case("tie", format!("match read_u32_vint ({} ++ [7]) with Some (x, r) => N.eqb x {} && list_eqb N.eqb r [7] | None => false end", cf::bytes(&enc), dec), json!({"what": "vint32 decode", "n": v32, "encoded": cf::hex(&enc)}), v32 >= 128);
                    // spec in Coq: the model encoder (pinned thresholds) is read back by the implementation's value
                    out.coq_case("spec", format!("match read_u32_vint ({} ++ [7]) with Some (x, r) => N.eqb x {} && list_eqb N.eqb r [7] | None => false end", cf::bytes(&enc), v32), json!({"what": "vint32 round trip", "n": v32, "encoded": cf::hex(&enc)}), v32 >= 128);
                }
                Err(e) => out.spec_checked(false, json!({"what": "vint32 panicked", "n": v32, "panic": e})),
            }
            // VInt (u64) used by the store and the document codec
            let r64 = guarded(|| { let mut b = Vec::new(); tantivy_common::VInt(v).serialize_into_vec(&mut b); let mut sl: &[u8] = &b; let d = tantivy_common::VInt::deserialize_u64(&mut sl).ok(); let left = sl.len(); (b, d, left) });
            match r64 {
                Ok((b, d, left)) => {
                    out.spec_checked(d == Some(v) && left == 0, json!({"what": "VInt round trip", "n": v, "encoded": cf::hex(&b)}));
                    out.coq_case("tie", format!("match vint_dec ({} ++ [9]) with Some (x, r) => N.eqb x {} && list_eqb N.eqb r [9] | None => false end", cf::bytes(&b), v), json!({"what": "VInt decode", "n": v}), v >= 128);
                }
                Err(e) => out.spec_checked(false, json!({"what": "VInt panicked", "n": v, "panic": e})),
            }
            out.count("vint_cases", 1);
        }
    }

    // ================================================================ (B3) large stored values (length prefixes in every vint branch)
    {
        let n_big = if thorough { 8 } else { 2 };
        for bi in 0..n_big {
            let mut sb = Schema::builder();
            let ft = sb.add_text_field("t", STORED);
            let fb = sb.add_bytes_field("b", STORED);
            let fj = sb.add_json_field("j", STORED);
            let schema = sb.build();
            // byte lengths: one in [2^21, 2^22), one in [2^14, 2^21), the boundaries themselves, and small ones
            let lens: Vec<usize> = vec![
                (1 << 21) + rng.below(1 << 21) as usize, (1 << 14) + rng.below((1 << 21) - (1 << 14)) as usize,
                *rng.pick(&[(1usize << 21) - 1, 1 << 21, (1 << 21) + 1, (1 << 22) - 1]), *rng.pick(&[(1usize << 14) - 1, 1 << 14, (1 << 14) + 1]), *rng.pick(&[127usize, 128, 129]),
                if bi % 2 == 1 { (1 << 22) + rng.below(1 << 20) as usize } else { 3 << 20 },
            ];
            let mut d: Vec<(u32, Added)> = vec![];
            for (k, &l) in lens.iter().enumerate() {
                match k % 3 {
                    0 => { let s: String = (0..l).map(|i| (b'a' + ((i * 7 + k) % 26) as u8) as char).collect(); d.push((ft.field_id(), Added::Val(OwnedValue::Str(s)))); }
                    1 => d.push((fb.field_id(), Added::Val(OwnedValue::Bytes(rng.bytes(l))))),
                    _ => { let s: String = (0..l).map(|i| (b'A' + ((i * 3 + k) % 26) as u8) as char).collect();
                           d.push((fj.field_id(), Added::Val(OwnedValue::Object(vec![("k".into(), OwnedValue::Array(vec![OwnedValue::Str(s), OwnedValue::U64(l as u64)]))])))); }
                }
            }
            // an array whose address list is longer than 2^14 bytes
            d.push((fj.field_id(), Added::Val(OwnedValue::Object(vec![("many".into(), OwnedValue::Array((0..9000u64).map(OwnedValue::U64).collect()))]))));
            let stored: HashSet<u32> = [ft.field_id(), fb.field_id(), fj.field_id()].into_iter().collect();
            let comp = (bi % 4) as u8;
            let dir = RamDirectory::create();
            let path = Path::new("store");
            let w = guarded(|| -> std::io::Result<()> {
                let mut sw = StoreWriter::new(dir.open_write(path).unwrap(), compressor(comp), 16_384, bi % 2 == 0)?;
                sw.store(&build_doc(&[(ft.field_id(), Added::Val(OwnedValue::Str("first".into())))]), &schema)?;
                sw.store(&build_doc(&d), &schema)?;
                sw.store(&build_doc(&[(ft.field_id(), Added::Val(OwnedValue::Str("last".into())))]), &schema)?;
                sw.close()
            });
            let desc = json!({"what": "large-values", "compressor": comp_name(comp), "value_byte_lens": lens});
            if !matches!(w, Ok(Ok(()))) { out.spec_checked(false, json!({"what": "store write failed", "case": desc, "result": format!("{:?}", w)})); continue; }
            let got = guarded(|| StoreReader::open(dir.open_read(path).unwrap(), 1).and_then(|rd| rd.get::<TantivyDocument>(1).map_err(|e| std::io::Error::other(format!("{e:?}")))));
            match got {
                Ok(Ok(doc)) => {
                    let got = returned(&doc);
                    let expect = stored_part_rs(&d, &stored);
                    let lens_of = |x: &[(u32, OwnedValue)]| x.iter().map(|(_, v)| match v { OwnedValue::Str(s) => s.len(), OwnedValue::Bytes(b) => b.len(),
                        OwnedValue::Object(o) => o.iter().map(|(_, v)| match v { OwnedValue::Array(a) => a.iter().map(|e| if let OwnedValue::Str(s) = e { s.len() } else { 1 }).sum(), _ => 0 }).sum(), _ => 0 }).collect::<Vec<usize>>();
                    out.spec_checked(got == expect, json!({"what": "large stored value not returned as added", "case": desc, "expected_lens": lens_of(&expect), "got_lens": lens_of(&got)}));
                }
                other => out.spec_checked(false, json!({"what": "get of a large document failed", "case": desc, "result": format!("{:?}", other.map(|r| r.map(|_| ())))})),
            }
            out.count("large_value_docs", 1);
            out.count("large_values_2MiB_4MiB", lens.iter().filter(|l| (1 << 21..1 << 22).contains(*l)).count() as u64);
            out.count("large_values_16KiB_2MiB", lens.iter().filter(|l| (1 << 14..1 << 21).contains(*l)).count() as u64);
        }
    }

    // ================================================================ (C) stacking / re-appending at store level
    let n_merge = if thorough { 500 } else { 36 };
    let mut coq_merge_budget: i64 = if thorough { 200 } else { 20 };
    for i in 0..n_merge {
        let comp = if i % 2 == 0 { 0 } else { rng.below(4) as u8 };
        let block_size = *rng.pick(&[0usize, 9, 30, 64]);
        let thread = rng.chance(1, 2);
        let nsrc = rng.range(1, 3) as usize;
        let dir = RamDirectory::create();
        // sources
        let mut srcs: Vec<(Vec<Vec<u8>>, Vec<u32>, bool, u8)> = vec![];   // docs, deleted, stack?, compressor
        for s in 0..nsrc {
            let n = *rng.pick(&[1usize, 4, 5, 6, 7, 8, 9, 20, 70]);
            let docs = gen_raw_docs(&mut rng, n, block_size, 12);
            let scomp = if rng.chance(1, 4) { rng.below(4) as u8 } else { comp };
            let p = format!("src{s}");
            let w = guarded(|| -> std::io::Result<()> {
                let mut sw = StoreWriter::new(dir.open_write(Path::new(&p)).unwrap(), compressor(scomp), block_size, rng.chance(1, 2))?;
                for d in &docs { sw.store_bytes(d)?; }
                sw.close()
            });
            if !matches!(w, Ok(Ok(()))) { out.spec_checked(false, json!({"what": "source store write failed"})); }
            let deleted: Vec<u32> = if rng.chance(1, 2) { vec![] } else { (0..n as u32).filter(|_| rng.chance(1, 4)).collect() };
            srcs.push((docs, deleted, false, scomp));
        }
        // merged store: per source, stack (whole blocks, no deletes) or re-append the live raw documents,
        // the decision rule of write_storable_fields recomputed here is only used to label the case;
        // the store-level API is driven directly.
        let block_size_out = *rng.pick(&[block_size, 0, 50]);
        let mut expected: Vec<Vec<u8>> = vec![];
        let npre = rng.below(3) as usize;
        let pre = gen_raw_docs(&mut rng, npre, block_size_out, 10);
        let w = guarded(|| -> tantivy::Result<()> {
            let mut sw = StoreWriter::new(dir.open_write(Path::new("merged")).unwrap(), compressor(comp), block_size_out, thread)?;
            for d in &pre { sw.store_bytes(d)?; expected.push(d.clone()); }
            for (s, (docs, deleted, stacked, scomp)) in srcs.iter_mut().enumerate() {
                let rd = StoreReader::open(dir.open_read(Path::new(&format!("src{s}"))).unwrap(), 1)?;
                if deleted.is_empty() && *scomp == comp && rng.chance(2, 3) {
                    *stacked = true;
                    sw.stack(rd)?;
                    expected.extend(docs.iter().cloned());
                } else {
                    for (d, bytes) in docs.iter().enumerate() {
                        if deleted.contains(&(d as u32)) { continue; }
                        let b = rd.get_document_bytes(d as u32)?;
                        sw.store_bytes(b.as_slice())?;
                        expected.push(bytes.clone());
                    }
                }
            }
            sw.close()?;
            Ok(())
        });
        let desc = json!({"what": "store-merge", "compressor": comp_name(comp), "block_size": block_size, "block_size_out": block_size_out, "thread": thread,
            "sources": srcs.iter().map(|(d, del, st, sc)| json!({"docs": d.len(), "deleted": del, "stacked": st, "compressor": comp_name(*sc)})).collect::<Vec<_>>()});
        if !matches!(w, Ok(Ok(()))) { out.spec_checked(false, json!({"what": "merge write failed", "case": desc, "result": format!("{:?}", w)})); continue; }
        out.count("store_merge_cases", 1);
        out.count("stacked_sources", srcs.iter().filter(|s| s.2).count() as u64);
        out.count("reappended_sources", srcs.iter().filter(|s| !s.2).count() as u64);
        let rd = match guarded(|| StoreReader::open(dir.open_read(Path::new("merged")).unwrap(), *rng.pick(&[0usize, 1, 10]))) { Ok(Ok(r)) => r, _ => { out.spec_checked(false, json!({"what": "merged store open failed", "case": desc})); continue; } };
        let mut order: Vec<usize> = (0..expected.len()).collect();
        rng.shuffle(&mut order);
        let mut ok = true; let mut bad = json!(null);
        for &d in &order {
            match guarded(|| rd.get_document_bytes(d as u32)) {
                Ok(Ok(b)) if b.as_slice() == &expected[d][..] => {}
                other => { ok = false; bad = json!({"doc": d, "got": format!("{:?}", other.map(|r| r.map(|b| cf::hex(b.as_slice()))))}); break; }
            }
        }
        out.spec_checked(ok, json!({"what": "merged store != concatenation of the live source documents", "case": desc, "bad": bad}));
        // tie: the Coq merge model (stack / re-append) on the implementation's source files, read back by the Coq reader
        let total: usize = srcs.iter().map(|s| read_file(&dir, Path::new("src0")).len() + s.0.len()).sum();
        if comp == 0 && srcs.iter().all(|s| s.3 == 0) && pre.is_empty() && total < 6000 && expected.len() <= 120 && coq_merge_budget > 0 {
            coq_merge_budget -= 1;
            let src_terms: Vec<String> = srcs.iter().enumerate().map(|(s, (_d, del, st, _))| {
                let f = read_file(&dir, Path::new(&format!("src{s}")));
                format!("({}, ({}, {}))", cf::bytes(&f), cf::boolean(*st), cf::ns(del))
            }).collect();
            // src = (file, (stacked, deleted)); the model is told which path the harness drove
            let term = format!(
                "match c09_merge_model {} {} with Some f => match store_open f with Some r => list_eqb opt_bytes_eqb (map (store_get id_decompress r) (map N.of_nat (seq 0 {}))) {} && opt_bytes_eqb (store_get id_decompress r {}) None | None => false end | None => false end",
                block_size_out, format!("[{}]", src_terms.join(";")), expected.len(), cf::list(&expected, |d| format!("(Some {})", cf::bytes(d))), expected.len());
            out.coq_case("tie", term, json!({"what": "model merge of the implementation's source stores", "case": desc}), true);
            // and the Coq reader on the implementation's merged file
            let mf = read_file(&dir, Path::new("merged"));
            out.coq_case("tie", format!("match store_open {} with Some r => list_eqb opt_bytes_eqb (map (store_get id_decompress r) (map N.of_nat (seq 0 {}))) {} | None => false end",
                cf::bytes(&mf), expected.len(), cf::list(&expected, |d| format!("(Some {})", cf::bytes(d)))), json!({"what": "model reader on the implementation's merged store", "case": desc}), true);
        }
    }

    // ================================================================ (D) whole indexes
    let n_idx = if thorough { 200 } else { 12 };
    let mut coq_idx_budget: i64 = if thorough { 1200 } else { 120 };
    for ix in 0..n_idx {
        let mut sb = Schema::builder();
        let id_f = sb.add_u64_field("id", INDEXED | STORED | FAST);
        let title = sb.add_text_field("title", TEXT | STORED);
        let hidden = sb.add_text_field("hidden", TEXT);                 // indexed, not stored
        let tag = sb.add_text_field("tag", STRING | STORED);
        let num = sb.add_i64_field("num", STORED | FAST);
        let hidden_num = sb.add_u64_field("hidden_num", FAST);          // fast, not stored
        let score = sb.add_f64_field("score", STORED);
        let flag = sb.add_bool_field("flag", STORED | INDEXED);
        let when = sb.add_date_field("when", STORED);
        let cat = sb.add_facet_field("cat", STORED);
        let blob = sb.add_bytes_field("blob", STORED);
        let ip = sb.add_ip_addr_field("ip", STORED);
        let attrs = sb.add_json_field("attrs", STORED);                  // stored only: any nested value
        let attrs_ix = sb.add_json_field("attrs_ix", STORED | TEXT);     // indexed: JSON-compatible values
        let free = sb.add_bytes_field("free", STORED);                  // stored only: any value shape
        let hidden_json = sb.add_json_field("hidden_json", TEXT);
        let schema = sb.build();
        let stored_ids: Vec<u32> = vec![id_f, title, tag, num, score, flag, when, cat, blob, ip, attrs, attrs_ix, free].iter().map(|f| f.field_id()).collect();
        let stored: HashSet<u32> = stored_ids.iter().cloned().collect();
        let mut settings = IndexSettings::default();
        let comp = (ix % 4) as u8;
        settings.docstore_compression = compressor(comp);
        settings.docstore_blocksize = *rng.pick(&[0usize, 64, 200, 1000, 16_384]);
        settings.docstore_compress_dedicated_thread = rng.chance(1, 2);
        let sorted = ix % 3 == 2;   // sorted index: segments are remapped at finalize and merges interleave the stores (non-trivial doc-id mapping)
        if sorted { settings.sort_by_field = Some(IndexSortByField { field: "id".into(), order: if rng.chance(1, 2) { Order::Asc } else { Order::Desc } }); out.count("sorted_index_cases", 1); }
        let desc = json!({"what": "index", "compressor": comp_name(comp), "block_size": settings.docstore_blocksize, "thread": settings.docstore_compress_dedicated_thread, "sorted": sorted});
        let built = guarded(|| -> tantivy::Result<(Index, BTreeMap<u64, Vec<(u32, Added)>>, HashSet<u64>)> {
            let index = Index::builder().schema(schema.clone()).settings(settings.clone()).create_in_ram()?;
            let mut w: IndexWriter = index.writer_with_num_threads(1, 20_000_000)?;
            w.set_merge_policy(Box::new(NoMergePolicy));
            let mut added: BTreeMap<u64, Vec<(u32, Added)>> = BTreeMap::new();
            let mut deleted: HashSet<u64> = HashSet::new();
            let mut next = 0u64;
            let nseg = rng.range(1, 4);
            for _ in 0..nseg {
                let nd = *rng.pick(&[1u64, 5, 12, 40]);
                for _ in 0..nd {
                    let mut d: Vec<(u32, Added)> = vec![(id_f.field_id(), Added::Val(OwnedValue::U64(next)))];
                    for _ in 0..rng.below(8) {
                        let (f, a) = match rng.below(17) {
                            0 => (title, Added::Val(OwnedValue::Str(gen_string(&mut rng, 40)))),
                            1 => (title, Added::PreTok(gen_pretok(&mut rng))),
                            2 => (hidden, Added::Val(OwnedValue::Str(gen_string(&mut rng, 20)))),
                            3 => (tag, Added::Val(OwnedValue::Str(gen_string(&mut rng, 6)))),
                            4 => (num, Added::Val(OwnedValue::I64(gen_u64(&mut rng) as i64))),
                            5 => (hidden_num, Added::Val(OwnedValue::U64(gen_u64(&mut rng)))),
                            6 => (score, Added::Val(OwnedValue::F64(gen_f64(&mut rng)))),
                            7 => (flag, Added::Val(OwnedValue::Bool(rng.chance(1, 2)))),
                            8 => (when, Added::Val(OwnedValue::Date(DateTime::from_timestamp_nanos(gen_u64(&mut rng) as i64)))),
                            9 => (cat, Added::Val(OwnedValue::Facet(Facet::from_path(vec!["a", *rng.pick(&["b", "c", "\u{e9}"])])))),
                            10 => (blob, Added::Val(OwnedValue::Bytes({ let n = rng.below(settings.docstore_blocksize.min(3000) as u64 + 30) as usize; rng.bytes(n) }))),
                            11 => (ip, Added::Val(OwnedValue::IpAddr(Ipv6Addr::from(((rng.next_u64() as u128) << 64) | rng.next_u64() as u128)))),
                            12 => (attrs, Added::Val(OwnedValue::Object(vec![("k".into(), gen_value(&mut rng, 3, 10)), (gen_string(&mut rng, 3).replace('\u{0}', "n"), { let dp = rng.range(0, 6) as usize; gen_deep(&mut rng, dp) })]))),
                            13 => (hidden_json, Added::Val(OwnedValue::Object(vec![("h".into(), OwnedValue::Str("x".into()))]))),
                            14 => (attrs_ix, Added::Val(OwnedValue::Object(vec![("j".into(), gen_json_value(&mut rng, 3))]))),
                            _ => (free, loop { let v = gen_value(&mut rng, 3, 16); if !matches!(v, OwnedValue::PreTokStr(_)) { break Added::Val(v); } }),
                        };
                        d.push((f.field_id(), a));
                    }
                    w.add_document(build_doc(&d))?;
                    added.insert(next, d);
                    next += 1;
                }
                w.commit()?;
                if rng.chance(1, 2) {
                    for _ in 0..rng.range(1, 4) { let k = rng.below(next); w.delete_term(Term::from_field_u64(id_f, k)); deleted.insert(k); }
                    w.commit()?;
                }
            }
            check_index(&index, &added, &deleted, &stored, &stored_ids, id_f, &mut rng, &mut out, &mut coq_idx_budget, &desc, "before-merge");
            if rng.chance(4, 5) {
                let ids = index.searchable_segment_ids()?;
                if ids.len() >= 1 { w.merge(&ids).wait()?; }
                out.count("index_merges", 1);
                check_index(&index, &added, &deleted, &stored, &stored_ids, id_f, &mut rng, &mut out, &mut coq_idx_budget, &desc, "after-merge");
            }
            w.wait_merging_threads()?;
            Ok((index, added, deleted))
        });
        out.spec_checked(matches!(built, Ok(Ok(_))), json!({"what": "index scenario failed", "case": desc, "result": format!("{:?}", built.map(|r| r.map(|_| ())))}));
        out.count("index_cases", 1);
    }

    // ================================================================ (E) merges after the index's compressor was switched
    // every ordered pair (codec the segments were written with, codec in force at merge time), stores with
    // >= 6 blocks (the pinned stacking threshold) and with fewer, with and without deletes
    {
        let reps = if thorough { 4 } else { 1 };
        let mut coq_e_budget: i64 = if thorough { 300 } else { 80 };
        for rep in 0..reps { for src in 0u8..3 { for dst in 0u8..3 { for many_blocks in [true, false] { for with_deletes in [false, true] {
            let mut sb = Schema::builder();
            let id_f = sb.add_u64_field("id", INDEXED | STORED | FAST);
            let body = sb.add_text_field("body", TEXT | STORED);
            let extra = sb.add_json_field("extra", STORED);
            let hidden = sb.add_text_field("hidden", TEXT);
            let schema = sb.build();
            let stored_ids: Vec<u32> = vec![id_f.field_id(), body.field_id(), extra.field_id()];
            let stored: HashSet<u32> = stored_ids.iter().cloned().collect();
            let mut settings = IndexSettings::default();
            settings.docstore_compression = compressor(src);
            settings.docstore_blocksize = if many_blocks { *rng.pick(&[0usize, 40]) } else { 16_384 };
            settings.docstore_compress_dedicated_thread = rng.chance(1, 2);
            let via_meta = rng.chance(1, 2);
            let desc = json!({"what": "codec-switch merge", "written_with": comp_name(src), "merged_with": comp_name(dst), "block_size": settings.docstore_blocksize,
                              "many_blocks": many_blocks, "deletes": with_deletes, "switch_via": if via_meta { "meta.json" } else { "settings_mut" }});
            let run = guarded(|| -> tantivy::Result<()> {
                let dir = RamDirectory::create();
                let index = Index::create(dir.clone(), schema.clone(), settings.clone())?;
                let mut added: BTreeMap<u64, Vec<(u32, Added)>> = BTreeMap::new();
                let mut deleted: HashSet<u64> = HashSet::new();
                {
                    let mut w: IndexWriter = index.writer_with_num_threads(1, 20_000_000)?;
                    w.set_merge_policy(Box::new(NoMergePolicy));
                    let mut next = 0u64;
                    for seg in 0..rng.range(1, 3) {
                        let nd = if many_blocks { rng.range(14, 30) } else { rng.range(1, 5) };   // >= 7 blocks per segment store vs a single block
                        for _ in 0..nd {
                            let mut d: Vec<(u32, Added)> = vec![(id_f.field_id(), Added::Val(OwnedValue::U64(next)))];
                            d.push((body.field_id(), Added::Val(OwnedValue::Str(format!("doc {} {}", next, gen_string(&mut rng, 30))))));
                            if rng.chance(1, 2) { d.push((extra.field_id(), Added::Val(OwnedValue::Object(vec![("v".into(), gen_value(&mut rng, 2, 8))])))); }
                            if rng.chance(1, 3) { d.push((hidden.field_id(), Added::Val(OwnedValue::Str("secret".into())))); }
                            w.add_document(build_doc(&d))?;
                            added.insert(next, d);
                            next += 1;
                        }
                        w.commit()?;
                        if with_deletes && (seg == 0 || rng.chance(1, 2)) {
                            let k = rng.below(next); w.delete_term(Term::from_field_u64(id_f, k)); deleted.insert(k);
                            w.commit()?;
                        }
                    }
                    w.wait_merging_threads()?;
                }
                // switch the compressor of the index, re-open, merge everything
                let index2 = if via_meta {
                    let raw = dir.atomic_read(Path::new("meta.json")).map_err(|e| tantivy::TantivyError::InternalError(format!("{e:?}")))?;
                    let mut meta: serde_json::Value = serde_json::from_slice(&raw).map_err(|e| tantivy::TantivyError::InternalError(format!("{e:?}")))?;
                    meta["index_settings"]["docstore_compression"] = json!(match dst { 0 => "none", 1 => "lz4", _ => "zstd" });
                    dir.atomic_write(Path::new("meta.json"), serde_json::to_string(&meta).unwrap().as_bytes())?;
                    Index::open(dir.clone())?
                } else {
                    let mut ix = Index::open(dir.clone())?;
                    ix.settings_mut().docstore_compression = compressor(dst);
                    ix
                };
                if index2.settings().docstore_compression != compressor(dst) {
                    out.spec_checked(false, json!({"what": "harness: the compressor switch did not take effect", "case": desc}));
                }
                check_index(&index2, &added, &deleted, &stored, &stored_ids, id_f, &mut rng, &mut out, &mut coq_e_budget, &desc, "switched-before-merge");
                {
                    let mut w: IndexWriter = index2.writer_with_num_threads(1, 20_000_000)?;
                    w.set_merge_policy(Box::new(NoMergePolicy));
                    let ids = index2.searchable_segment_ids()?;
                    if !ids.is_empty() { w.merge(&ids).wait()?; }
                    w.wait_merging_threads()?;
                }
                check_index(&index2, &added, &deleted, &stored, &stored_ids, id_f, &mut rng, &mut out, &mut coq_e_budget, &desc, "switched-after-merge");
                // a second merge round on top of the merged segment (its store now carries the new codec): add a segment, merge again
                if rep % 2 == 0 {
                    let mut w: IndexWriter = index2.writer_with_num_threads(1, 20_000_000)?;
                    w.set_merge_policy(Box::new(NoMergePolicy));
                    let base = added.len() as u64 + 1000;
                    for k in 0..3u64 { let d = vec![(id_f.field_id(), Added::Val(OwnedValue::U64(base + k))), (body.field_id(), Added::Val(OwnedValue::Str(format!("late {k}"))))]; w.add_document(build_doc(&d))?; added.insert(base + k, d); }
                    w.commit()?;
                    let ids = index2.searchable_segment_ids()?;
                    w.merge(&ids).wait()?;
                    w.wait_merging_threads()?;
                    check_index(&index2, &added, &deleted, &stored, &stored_ids, id_f, &mut rng, &mut out, &mut coq_e_budget, &desc, "second-merge");
                }
                Ok(())
            });
            out.spec_checked(matches!(run, Ok(Ok(()))), json!({"what": "codec-switch merge scenario failed", "case": desc, "result": format!("{:?}", run)}));
            out.count("codec_switch_merges", 1);
            out.count(&format!("switch_{}_to_{}", comp_name(src), comp_name(dst)), 1);
        }}}}}
    }

    // ================================================================ (F) I/O errors of the underlying writer are reported
    // StoreWriter over a failing `Write`: for every operation index of the stream (block writes, skip index,
    // footer, flush, terminate) a fault is injected; with and without the dedicated compression thread
    // close()/store_bytes must report Err; Ok is only allowed when nothing failed, and then the bytes
    // decode to exactly the documents.
    {
        let n_cfg = if thorough { 120 } else { 30 };
        let mut coq_f_budget: i64 = if thorough { 600 } else { 150 };
        for ci in 0..n_cfg {
            let comp = (ci % 3) as u8;
            let block_size = *rng.pick(&[0usize, 30, 200, 16_384]);
            let thread = ci % 2 == 0;
            let cap = *rng.pick(&[0usize, 16, 512, 8192]);
            let n = *rng.pick(&[0usize, 1, 2, 5, 12, 30]);
            let docs = gen_raw_docs(&mut rng, n, block_size.min(64), 40);
            let desc = json!({"what": "failing-writer", "compressor": comp_name(comp), "block_size": block_size, "thread": thread, "bufwriter_capacity": cap, "docs": n,
                              "docs_hex": docs.iter().take(40).map(|d| cf::hex(&d[..d.len().min(48)])).collect::<Vec<_>>()});
            // fault-free run (also with short writes): Ok and the bytes decode to the documents
            let mut nops = 0usize;
            for short in [false, true] {
                let sink = FaultSink::new(None, false, short);
                let r = write_store_on(&sink, cap, comp, block_size, thread, &docs);
                let bytes = sink.data.lock().unwrap().clone();
                if !short { nops = sink.ops.load(Ordering::SeqCst); }
                let decoded_ok = matches!(r, Ok(Ok(()))) && matches!(guarded(|| -> tantivy::Result<bool> {
                    let rd = StoreReader::open(FileSlice::new(Arc::new(OwnedBytes::new(bytes.clone()))), 1)?;
                    for (i, d) in docs.iter().enumerate() { if rd.get_document_bytes(i as u32)?.as_slice() != &d[..] { return Ok(false); } }
                    Ok(true)
                }), Ok(Ok(true)));
                out.spec_checked(decoded_ok, json!({"what": "fault-free store write (short writes allowed) is not Ok + exact", "short_writes": short, "case": desc, "result": format!("{:?}", r)}));
            }
            out.count("failing_writer_configs", 1);
            // fault positions: every operation when there are few, otherwise the head, the tail and a sample
            let mut ks: Vec<usize> = if nops <= 36 { (0..nops).collect() } else {
                let mut v: Vec<usize> = (0..6).collect(); v.extend(nops - 14..nops); for _ in 0..16 { v.push(rng.below(nops as u64) as usize); } v.sort(); v.dedup(); v };
            ks.push(nops); ks.push(nops + 3);   // beyond the stream: no fault can fire
            for k in ks {
                for sticky in [true, false] {
                    let sink = FaultSink::new(Some(k), sticky, false);
                    let r = write_store_on(&sink, cap, comp, block_size, thread, &docs);
                    let fired = sink.fired.load(Ordering::SeqCst);
                    let fdesc = json!({"what": "fault", "case": desc, "fail_op": k, "ops_in_stream": nops, "sticky": sticky, "fired": fired, "result": format!("{:?}", r), "bytes_written": sink.data.lock().unwrap().len()});
                    let outcome = match &r { Ok(Ok(())) => "WOk", Ok(Err(_)) => "WErr", Err(_) => "panic" };
                    // spec: an error of the underlying writer is never swallowed; no panic
                    out.spec_checked(outcome != "panic" && (!fired || outcome == "WErr"), json!({"what": "I/O error of the underlying writer swallowed (writer reported success) or panic", "case": fdesc}));
                    if !fired {
                        let bytes = sink.data.lock().unwrap().clone();
                        let exact = outcome == "WOk" && matches!(guarded(|| -> tantivy::Result<bool> {
                            let rd = StoreReader::open(FileSlice::new(Arc::new(OwnedBytes::new(bytes))), 0)?;
                            for (i, d) in docs.iter().enumerate() { if rd.get_document_bytes(i as u32)?.as_slice() != &d[..] { return Ok(false); } }
                            Ok(true)
                        }), Ok(Ok(true)));
                        out.spec_checked(exact, json!({"what": "no fault fired but the store is not Ok + exact", "case": fdesc}));
                    }
                    out.count("fault_runs", 1);
                    if fired { out.count(if k + 4 >= nops { "faults_in_tail" } else { "faults_before_tail" }, 1); }
                    if coq_f_budget > 0 && outcome != "panic" && (k + 6 >= nops || k < 2 || rng.chance(1, 6)) {
                        coq_f_budget -= 1;
                        // tie: the propagation model (thread result harvested at close) on the same fault
                        out.coq_case("tie", format!("wres_eqb (writer_outcome {} {} {} {}) {}", cf::boolean(thread), cf::boolean(sticky), cf::nat(k), cf::nat(nops), outcome), fdesc.clone(), k < nops);
                    }
                }
            }
        }
    }

    // ================================================================ (G) commit() never reports success for a doc store that failed
    // whole index on a fault-injecting directory: one write / flush / terminate of a `.store` file fails;
    // commit Ok => every added document is fetched exactly; commit Err => the earlier commit is intact
    {
        let reps = if thorough { 6 } else { 1 };
        let mut coq_g_budget: i64 = 0;
        for _rep in 0..reps { for kind in [OpKind::Write, OpKind::Flush, OpKind::Terminate] { for thread in [true, false] { for comp in [0u8, 1] {
            let mut sb = Schema::builder();
            let id_f = sb.add_u64_field("id", INDEXED | STORED | FAST);
            let body = sb.add_text_field("body", TEXT | STORED);
            let schema = sb.build();
            let stored_ids: Vec<u32> = vec![id_f.field_id(), body.field_id()];
            let stored: HashSet<u32> = stored_ids.iter().cloned().collect();
            let mut settings = IndexSettings::default();
            settings.docstore_compression = compressor(comp);
            settings.docstore_compress_dedicated_thread = thread;
            settings.docstore_blocksize = *rng.pick(&[0usize, 100, 16_384]);
            let desc = json!({"what": "index on a failing directory", "fault": kind.name(), "thread": thread, "compressor": comp_name(comp), "block_size": settings.docstore_blocksize});
            let vd = VerifDirectory::new();
            let run = guarded(|| -> tantivy::Result<()> {
                let index = Index::create(vd.clone(), schema.clone(), settings.clone())?;
                let mut added: BTreeMap<u64, Vec<(u32, Added)>> = BTreeMap::new();
                let none: HashSet<u64> = HashSet::new();
                let mut w: IndexWriter = index.writer_with_num_threads(1, 20_000_000)?;
                w.set_merge_policy(Box::new(NoMergePolicy));
                let mut next = 0u64;
                for _ in 0..rng.range(1, 6) {
                    let d = vec![(id_f.field_id(), Added::Val(OwnedValue::U64(next))), (body.field_id(), Added::Val(OwnedValue::Str(format!("early {} {}", next, gen_string(&mut rng, 20)))))];
                    w.add_document(build_doc(&d))?; added.insert(next, d); next += 1;
                }
                w.commit()?;
                let baseline = added.clone();
                vd.set_fault_once(kind.clone(), ".store");
                for _ in 0..rng.range(1, 12) {
                    let d = vec![(id_f.field_id(), Added::Val(OwnedValue::U64(next))), (body.field_id(), Added::Val(OwnedValue::Str(format!("late {} {}", next, gen_string(&mut rng, 30)))))];
                    w.add_document(build_doc(&d))?; added.insert(next, d); next += 1;
                }
                let fired_before = vd.faults_fired();
                let c = w.commit();
                let fired = vd.faults_fired() > fired_before || vd.faults_fired() > 0;
                out.count(if c.is_ok() { "faulty_commit_ok" } else { "faulty_commit_err" }, 1);
                if fired { out.count("index_store_faults_fired", 1); }
                match c {
                    Ok(_) => {
                        // success was reported: every document must be there, exactly
                        let d2 = json!({"case": desc, "fault_fired": fired, "commit": "Ok"});
                        check_index(&index, &added, &none, &stored, &stored_ids, id_f, &mut rng, &mut out, &mut coq_g_budget, &d2, "after-faulty-commit-ok");
                    }
                    Err(e) => {
                        let d2 = json!({"case": desc, "fault_fired": fired, "commit": format!("Err({e:?})").chars().take(200).collect::<String>()});
                        out.spec_checked(fired, json!({"what": "commit failed although no fault was injected", "case": d2}));
                        drop(w);
                        let index2 = Index::open(vd.clone())?;
                        check_index(&index2, &baseline, &none, &stored, &stored_ids, id_f, &mut rng, &mut out, &mut coq_g_budget, &d2, "after-faulty-commit-err");
                    }
                }
                Ok(())
            });
            out.spec_checked(matches!(run, Ok(Ok(()))), json!({"what": "failing-directory scenario failed (reader cannot be opened / panic)", "case": desc, "result": format!("{:?}", run).chars().take(600).collect::<String>()}));
            out.count("failing_directory_cases", 1);
        }}}}
    }

    out.finish(json!({"tier": args.tier, "seed": args.seed}));
}

#[allow(clippy::too_many_arguments)]
fn check_index(index: &Index, added: &BTreeMap<u64, Vec<(u32, Added)>>, deleted: &HashSet<u64>, stored: &HashSet<u32>, stored_ids: &[u32], id_f: Field,
               rng: &mut Rng, out: &mut CaseOut, budget: &mut i64, desc: &serde_json::Value, phase: &str) {
    let cache = *rng.pick(&[0usize, 1, 10]);
    let reader = match index.reader_builder().reload_policy(ReloadPolicy::Manual).doc_store_cache_num_blocks(cache).try_into() { Ok(r) => r, Err(e) => { out.spec_checked(false, json!({"what": "a reader cannot be opened on the committed index (a published segment is unreadable)", "case": desc, "phase": phase, "err": format!("{e:?}").chars().take(400).collect::<String>()})); return; } };
    let searcher = reader.searcher();
    let mut seen: HashSet<u64> = HashSet::new();
    for (ord, seg) in searcher.segment_readers().iter().enumerate() {
        let mut addrs: Vec<u32> = (0..seg.max_doc()).filter(|d| !seg.is_deleted(*d)).collect();
        let live_in_order = addrs.clone();
        rng.shuffle(&mut addrs);
        let mut by_doc: BTreeMap<u32, String> = BTreeMap::new();
        for d in addrs {
            let got = match guarded(|| searcher.doc::<TantivyDocument>(DocAddress::new(ord as u32, d))) { Ok(Ok(doc)) => returned(&doc), other => { out.spec_checked(false, json!({"what": "Searcher::doc failed", "case": desc, "phase": phase, "segment": ord, "doc": d, "result": format!("{:?}", other.map(|r| r.map(|_| ())))})); continue; } };
            let id = got.iter().find(|(f, _)| *f == id_f.field_id()).and_then(|(_, v)| if let OwnedValue::U64(x) = v { Some(*x) } else { None });
            let id = match id { Some(x) => x, None => { out.spec_checked(false, json!({"what": "returned document has no id", "case": desc, "phase": phase, "got": sdoc_term(&got)})); continue; } };
            let a = match added.get(&id) { Some(a) => a, None => { out.spec_checked(false, json!({"what": "unknown id returned", "id": id})); continue; } };
            let expect = stored_part_rs(a, stored);
            let ddesc = json!({"what": "index document", "case": desc, "phase": phase, "segment": ord, "doc": d, "id": id, "added": added_term(a).chars().take(2500).collect::<String>(), "stored": stored_ids});
            out.spec_checked(sdoc_term(&expect) == sdoc_term(&got), json!({"what": "Searcher::doc != stored part of the added document", "case": ddesc, "expected": sdoc_term(&expect).chars().take(3000).collect::<String>(), "got": sdoc_term(&got).chars().take(3000).collect::<String>()}));
            out.spec_checked(!deleted.contains(&id) && seen.insert(id), json!({"what": "deleted or duplicated document is live", "case": ddesc}));
            // no field that is not STORED may come back
            out.spec_checked(got.iter().all(|(f, _)| stored.contains(f)), json!({"what": "non-stored field returned", "case": ddesc, "got": sdoc_term(&got)}));
            out.count("index_docs", 1);
            if *budget > 0 && added_term(a).len() < 2500 {
                *budget -= 1;
                out.coq_case("spec", format!("sdoc_eqb (stored_part (stored_of {}) {}) {}", cf::ns(stored_ids), added_term(a), sdoc_term(&got)), ddesc.clone(), expect.len() >= 2);
            }
            by_doc.insert(d, sdoc_term(&got));
        }
        // iteration over the segment's store: live documents in doc-id order
        let it = guarded(|| seg.get_store_reader(cache).map(|sr| sr.iter::<TantivyDocument>(seg.alive_bitset()).map(|r| r.map(|d| sdoc_term(&returned(&d))).unwrap_or_else(|e| format!("ERR {e:?}"))).collect::<Vec<_>>()));
        let expect: Vec<String> = live_in_order.iter().filter_map(|d| by_doc.get(d).cloned()).collect();
        out.spec_checked(matches!(&it, Ok(Ok(v)) if *v == expect), json!({"what": "store iteration != live documents in doc-id order", "case": desc, "phase": phase, "segment": ord,
            "got_len": it.as_ref().ok().and_then(|r| r.as_ref().ok()).map(|v| v.len()), "expected_len": expect.len()}));
        out.count("index_iter_cases", 1);
    }
    let expect_live: HashSet<u64> = added.keys().filter(|k| !deleted.contains(k)).cloned().collect();
    out.spec_checked(seen == expect_live, json!({"what": "live documents != added minus deleted", "case": desc, "phase": phase, "live": seen.len(), "expected": expect_live.len()}));
}
