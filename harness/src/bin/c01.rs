//! C01 correspondence: storage traces of real writers through the proved commit discipline
//! (coq/Storage/Crash.v `monitor`), and materialised crash images recovered by the real code.
use std::collections::BTreeSet;

use serde_json::json;
use tvh::e1::{self, Cfg, CrashSim, Op, PathIds};
use tvh::out::CaseOut;
use tvh::rng::Rng;
use tvh::vdir::{OpKind, VerifDirectory};
use tvh::Args;

const HEADER: &str = "From TV Require Import Base.Prelude Storage.Crash.";

fn main() {
    let args = Args::parse();
    tvh::quiet_panics();
    let mut rng = Rng::new(args.seed);
    let thorough = args.thorough();
    let mut out = CaseOut::new(&args.out, HEADER, 12);
    let n_hist = if thorough { 400 } else { 36 };
    let mut next_id = 0u64;
    for h in 0..n_hist {
        let len = rng.range(6, if thorough { 40 } else { 24 }) as usize;
        let ops = e1::gen_history(&mut rng, len, &mut next_id);
        let cfg = Cfg { threads: 1 + (h % 3), merge_policy: (h % 2) as u8, stop_on_error: false };
        let vd = VerifDirectory::new();
        let res = e1::run_history(&vd, &ops, &cfg, false);
        let desc = json!({"history": ops.iter().map(|o| o.to_json()).collect::<Vec<_>>(), "threads": cfg.threads, "merge_policy": cfg.merge_policy});
        if let Some(p) = &res.panicked {
            out.spec_checked(false, json!({"what": "panic while running a fault-free history", "panic": p, "case": desc}));
            continue;
        }
        for a in res.api.iter().filter(|a| !a.ok && a.what != "merge") {
            out.spec_checked(false, json!({"what": "API call failed without any injected fault", "call": a.what, "err": a.err, "case": desc}));
        }
        let log = vd.log();
        let mut ids = PathIds::new();
        let (evs, _seqs) = e1::to_events(&log, &mut ids);
        let n_commits = res.commits.len();
        let nontrivial = n_commits >= 2 && ops.iter().any(|o| matches!(o, Op::DelTerm(_))) && ops.iter().any(|o| matches!(o, Op::MergeAll | Op::Rollback));
        // tie: the trace the code produced is accepted by the proved discipline
        out.coq_case("tie", format!("monitor {}", e1::trace_term(&evs)),
                     json!({"what": "commit discipline on real trace", "events": evs.len(), "commits": n_commits, "case": desc}), nontrivial);
        out.count("histories", 1);
        out.count("events", evs.len() as u64);
        out.count("commits", n_commits as u64);
        // harness self-check: the files we parse out of meta.json are the files the code lists
        if let Some(index) = &res.index {
            if let (Some(meta), Ok(metas)) = (vd.raw("meta.json"), index.searchable_segment_metas()) {
                let mut listed: Vec<String> = metas.iter().flat_map(|m| m.list_files()).map(|p| p.to_string_lossy().to_string()).filter(|p| vd.raw(p).is_some()).collect();
                listed.sort();
                let parsed = e1::meta_files(&meta).map(|x| x.0).unwrap_or_default();
                if parsed != listed {
                    out.coq_case("tie", "false".into(), json!({"what": "meta.json file list differs from SegmentMeta::list_files", "parsed": parsed, "listed": listed}), false);
                }
            }
            // final content = last commit
            match e1::read_ids(index) {
                Ok(ids) => out.spec_checked(ids == res.committed, json!({"what": "final content differs from the last commit", "got": ids.len(), "want": res.committed.len(), "case": desc})),
                Err(e) => out.spec_checked(false, json!({"what": "cannot read final index", "err": e, "case": desc})),
            }
        }
        // spec: crash at sampled points x outcomes, recovered by the real code
        let mut points: BTreeSet<usize> = BTreeSet::new();
        for (i, e) in log.iter().enumerate() {
            let interesting = (e.kind == OpKind::Marker && (e.path.starts_with("commit_ret") || e.path == "merge_ret"))
                || (e.kind == OpKind::AtomicWrite && e.path == "meta.json") || e.kind == OpKind::Delete;
            if interesting { for d in 0..3usize { if rng.chance(if thorough { 2 } else { 1 }, 3) { points.insert((i + d).min(log.len())); } } }
        }
        for _ in 0..(if thorough { 12 } else { 3 }) { points.insert(rng.below(log.len() as u64 + 1) as usize); }
        for k in points {
            let sim = CrashSim::at(&log, k);
            let np = sim.num_pending();
            let mut choices: Vec<Vec<bool>> = vec![vec![false; np], vec![true; np]];
            for _ in 0..(if thorough { 3 } else { 1 }) { choices.push((0..np).map(|_| rng.chance(1, 2)).collect()); }
            // targeted outcomes: only the renames survive / only the unlinks survive / everything but the creations
            let kinds = sim.pending_kinds();
            if kinds.contains(&'A') {
                choices.push(kinds.iter().map(|k| *k == 'A').collect());
                choices.push(kinds.iter().map(|k| *k != 'L').collect());
            }
            if kinds.contains(&'U') { choices.push(kinds.iter().map(|k| *k == 'U').collect()); }
            // in-order crashes: a prefix of the pending operations survives
            if np > 1 { let cut = 1 + rng.below(np as u64 - 1) as usize; choices.push((0..np).map(|i| i < cut).collect()); }
            choices.sort();
            choices.dedup();
            let returned: Vec<usize> = res.commits.iter().enumerate().filter(|(_, c)| c.ret_seq <= k).map(|(i, _)| i).collect();
            let started: Vec<usize> = res.commits.iter().enumerate().filter(|(_, c)| c.call_seq <= k).map(|(i, _)| i).collect();
            let mut allowed: Vec<BTreeSet<u64>> = vec![];
            match returned.last() {
                None => { allowed.push(BTreeSet::new()); for i in &started { allowed.push(res.commits[*i].content.clone()); } }
                Some(r) => { for i in started.iter().filter(|i| **i >= *r) { allowed.push(res.commits[*i].content.clone()); } }
            }
            for keep in choices {
                let img = sim.image(&keep, &mut rng);
                let rec = e1::recover(&img);
                out.count("crash_images", 1);
                let cd = json!({"crash_after_log_entries": k, "kept_pending_ops": keep, "pending": np, "commits_returned": returned.len(), "commits_started": started.len(), "case": desc});
                if !rec.opened {
                    out.spec_checked(returned.is_empty(), json!({"what": "crash image cannot be opened although a commit had returned", "err": rec.error, "crash": cd}));
                    continue;
                }
                out.spec_checked(rec.checksum_clean, json!({"what": "recovered index references a damaged or incomplete file", "err": rec.error, "crash": cd}));
                match &rec.ids {
                    None => out.spec_checked(false, json!({"what": "recovered index cannot be searched", "err": rec.error, "crash": cd})),
                    Some(ids) => out.spec_checked(allowed.iter().any(|a| a == ids),
                        json!({"what": "recovered documents are not those of the last returned commit or a later one", "recovered": ids.len(), "allowed_sizes": allowed.iter().map(|a| a.len()).collect::<Vec<_>>(), "crash": cd})),
                }
                out.spec_checked(rec.resumed, json!({"what": "recovered index does not accept a new writer / commit / garbage collection", "err": rec.resume_error, "crash": cd}));
            }
        }
    }
    out.finish(json!({"tier": args.tier, "seed": args.seed}));
}
