//! scratch: probe tantivy_query_grammar on given strings (args) and print Debug ASTs
use tantivy_query_grammar::{parse_query, parse_query_lenient};
fn main() {
    tvh::quiet_panics();
    for s in std::env::args().skip(1) {
        let s = s.replace("\\t", "\t").replace("\\n", "\n");
        let strict = tvh::guarded(|| parse_query(&s));
        let len = tvh::guarded(|| parse_query_lenient(&s));
        println!("{:?}\n  strict : {:?}\n  lenient: {:?}", s, strict.map(|r| r.map(|a| format!("{a:?}")).map_err(|_| "Err")), len.map(|(a, e)| (format!("{a:?}"), e)));
    }
}
