//! C14 correspondence: aggregation results of the real collectors vs the Coq model / `direct`.
//!
//! For generated corpora (missing / multi-valued numeric and text fast fields, negative values,
//! values on bucket boundaries, high-cardinality terms), request trees up to depth 3 (built as JSON
//! and parsed by tantivy), a filtering query, and partitions of the corpus into 1-6 segments
//! and into separately searched indexes:
//!   spec : AggregationCollector JSON  vs  `direct` evaluated in Coq from corpus + request
//!   tie  : model collect_seg / merge_fruits / fin  vs  the same JSON
//!   DistributedAggregationCollector fruits merged in permuted / regrouped orders and through
//!   postcard round trips, then into_final_result: equal to the base JSON (or, when they differ
//!   only in what the request leaves unspecified, accepted by the Coq relation `match_top`).
use serde_json::{json, Map, Value};
use tantivy::aggregation::agg_req::Aggregations;
use tantivy::aggregation::intermediate_agg_result::IntermediateAggregationResults;
use tantivy::aggregation::{AggContextParams, AggregationCollector, AggregationLimitsGuard, DistributedAggregationCollector};
use tantivy::query::{AllQuery, Query, TermQuery};
use tantivy::schema::{Field, IndexRecordOption, Schema, FAST, STRING};
use tantivy::DateTime;
use tantivy::{Index, IndexWriter, TantivyDocument, Term};
use tvh::out::CaseOut;
use tvh::rng::Rng;
use tvh::{guarded, Args};

const HEADER: &str = "From TV Require Import Base.Prelude Agg.Intermediate Agg.Metrics Agg.Buckets Agg.Tree Agg.Ext Generated.Constants.\nFrom Coq Require Import QArith.\nLocal Close Scope Q_scope.";

// ------------------------------------------------------------------------------------------------
// corpus
// field ids (shared with the Coq documents): 0 i64 multi, 1 u64, 2 text, 3 i64 sparse, 4 f64 (integral), 5 grp
const NUM_FIELDS: [usize; 4] = [0, 1, 3, 4];
const FIELD_NAMES: [&str; 6] = ["i0", "u1", "s2", "i3", "f4", "grp"];

#[derive(Clone, Debug, PartialEq)]
enum Val {
    I(i64),
    S(String),
}

#[derive(Clone, Debug)]
struct Doc {
    vals: Vec<Vec<Val>>, // per field id
}

fn gen_values(rng: &mut Rng, fid: usize, profile: u64, pool: &[String]) -> Vec<Val> {
    let n = match fid {
        3 => *rng.pick(&[0usize, 0, 0, 1, 1, 2]),
        5 => 1,
        _ => *rng.pick(&[0usize, 1, 1, 1, 1, 1, 2, 2, 3]),
    };
    (0..n)
        .map(|_| match fid {
            0 | 3 => {
                let v = match profile % 3 {
                    0 => rng.range(0, 40) as i64 - 15,
                    1 => (rng.range(0, 12) as i64 - 4) * 5, // on bucket boundaries of 5 / 10
                    _ => rng.range(0, 2000) as i64 - 1000,
                };
                Val::I(v)
            }
            1 => Val::I(match profile % 3 { 0 => rng.range(0, 30) as i64, 1 => rng.range(0, 8) as i64 * 10, _ => rng.range(0, 5000) as i64 }),
            4 => Val::I(rng.range(0, 24) as i64 - 8),
            2 => Val::S(rng.pick(pool).clone()),
            _ => Val::S(rng.pick(&["a", "b", "c"]).to_string()),
        })
        .collect()
}

fn gen_corpus(rng: &mut Rng, n: usize, profile: u64) -> Vec<Doc> {
    let pool_size = match profile % 4 { 0 => 3, 1 => 8, 2 => 25, _ => 60 };
    let pool: Vec<String> = (0..pool_size)
        .map(|i| {
            let len = 1 + (i % 3);
            let mut s = String::new();
            let mut x = i * 7 + 3;
            for _ in 0..len { s.push((b'a' + (x % 26) as u8) as char); x = x / 26 + i + 1; }
            if i % 5 == 4 { s.push('é'); }
            s
        })
        .collect();
    (0..n).map(|_| Doc { vals: (0..6).map(|f| gen_values(rng, f, profile, &pool)).collect() }).collect()
}

struct Fields {
    f: [Field; 6],
}

fn schema() -> (Schema, Fields) {
    let mut sb = Schema::builder();
    let i0 = sb.add_i64_field("i0", FAST);
    let u1 = sb.add_u64_field("u1", FAST);
    let s2 = sb.add_text_field("s2", STRING | FAST);
    let i3 = sb.add_i64_field("i3", FAST);
    let f4 = sb.add_f64_field("f4", FAST);
    let grp = sb.add_text_field("grp", STRING | FAST);
    (sb.build(), Fields { f: [i0, u1, s2, i3, f4, grp] })
}

fn to_tantivy(d: &Doc, fl: &Fields) -> TantivyDocument {
    let mut t = TantivyDocument::default();
    for (fid, vs) in d.vals.iter().enumerate() {
        for v in vs {
            match (fid, v) {
                (0, Val::I(x)) | (3, Val::I(x)) => t.add_i64(fl.f[fid], *x),
                (1, Val::I(x)) => t.add_u64(fl.f[fid], *x as u64),
                (4, Val::I(x)) => t.add_f64(fl.f[fid], *x as f64),
                (_, Val::S(s)) => t.add_text(fl.f[fid], s),
                _ => unreachable!(),
            }
        }
    }
    t
}

/// one index whose segments are exactly `parts` (in this order)
fn build_index(parts: &[Vec<Doc>]) -> tantivy::Result<Index> {
    let (schema, fl) = schema();
    let index = Index::create_in_ram(schema);
    let mut w: IndexWriter = index.writer_with_num_threads(1, 20_000_000)?;
    w.set_merge_policy(Box::new(tantivy::merge_policy::NoMergePolicy));
    for p in parts {
        if p.is_empty() { continue; }
        for d in p { w.add_document(to_tantivy(d, &fl))?; }
        w.commit()?;
    }
    w.wait_merging_threads()?;
    Ok(index)
}

// ------------------------------------------------------------------------------------------------
// requests
#[derive(Clone, Copy, Debug, PartialEq)]
enum MKind { Count, Sum, Min, Max, Avg, Stats }

#[derive(Clone, Debug)]
enum TOrd { Count(bool), Key(bool), Sub(usize, usize, bool) } // bool = desc

#[derive(Clone, Debug)]
enum Req {
    Metric { kind: MKind, field: usize, missing: Option<i64> },
    Range { field: usize, cuts: Vec<i64>, style: u64, subs: Vec<Req> },
    Histo { field: usize, interval: (i64, i64), offset: (i64, i64), mdc: u64, hard: Option<(i64, i64)>, ext: Option<(i64, i64)>, subs: Vec<Req> },
    Terms { field: usize, size: u32, seg_size: Option<u32>, mdc: u64, order: TOrd, missing: Option<Val>, subs: Vec<Req> },
    Filter { pred: Option<String>, subs: Vec<Req> }, // Some(g): grp:g ; None: all documents
}

fn gen_metric(rng: &mut Rng) -> Req {
    let kind = *rng.pick(&[MKind::Count, MKind::Sum, MKind::Min, MKind::Max, MKind::Avg, MKind::Stats]);
    let field = *rng.pick(&NUM_FIELDS);
    let missing = if rng.chance(1, 4) { Some(if field == 1 { rng.range(0, 50) as i64 } else { rng.range(0, 60) as i64 - 30 }) } else { None };
    Req::Metric { kind, field, missing }
}

fn gen_subs(rng: &mut Rng, depth: u32, wide: bool) -> Vec<Req> {
    if depth == 0 { return vec![]; }
    let n = *rng.pick(&[0usize, 1, 1, 2]);
    (0..n).map(|_| gen_req(rng, depth - 1, wide)).collect()
}

/// `wide`: the corpus has values spread over thousands (keep gap-filled histograms small)
fn gen_req(rng: &mut Rng, depth: u32, wide: bool) -> Req {
    let k = if depth == 0 { rng.below(10) } else { rng.below(14) };
    match k {
        0..=2 => gen_metric(rng),
        3 | 4 | 10 => {
            let field = *rng.pick(&NUM_FIELDS);
            let n = rng.range(1, 4) as usize;
            let lo: i64 = if field == 1 { 1 } else { -12 };
            let mut cuts: Vec<i64> = (0..n).map(|_| lo + rng.range(0, 8) as i64 * 5 + *rng.pick(&[0i64, 0, 0, 1, 3])).collect();
            cuts.sort();
            cuts.dedup();
            Req::Range { field, cuts, style: rng.below(4), subs: gen_subs(rng, depth, wide) }
        }
        5 | 6 | 11 => {
            let field = *rng.pick(&NUM_FIELDS);
            let interval = *rng.pick(&[(1i64, 1i64), (2, 1), (3, 1), (5, 1), (10, 1), (7, 1), (1, 2), (5, 2), (25, 1), (400, 1)]);
            let offset = match rng.below(4) {
                0 => (rng.range(0, 3) as i64, 1),
                1 => (1, 2),
                _ => (0, 1),
            };
            // keep 0 <= offset < interval
            let offset = if (offset.0 * interval.1) < (interval.0 * offset.1) { offset } else { (0, 1) };
            let mdc = *rng.pick(&[0u64, 0, 0, 1, 1, 2, 3]);
            let interval = if wide && mdc == 0 && interval.0 < 25 * interval.1 { *rng.pick(&[(25i64, 1i64), (400, 1), (100, 1)]) } else { interval };
            let offset = if (offset.0 * interval.1) < (interval.0 * offset.1) { offset } else { (0, 1) };
            let lo: i64 = if field == 1 { 0 } else { -10 };
            let hard = if rng.chance(1, 4) { let a = lo + rng.range(0, 15) as i64; Some((a, a + rng.range(0, 30) as i64)) } else { None };
            let ext = if mdc == 0 && rng.chance(1, 4) {
                match hard {
                    Some((a, b)) => { let x = a + rng.range(0, (b - a) as u64) as i64; Some((x, x + rng.range(0, (b - x) as u64) as i64)) }
                    None => { let a = lo + rng.range(0, 20) as i64; Some((a, a + rng.range(0, 40) as i64)) }
                }
            } else { None };
            Req::Histo { field, interval, offset, mdc, hard, ext, subs: gen_subs(rng, depth, wide) }
        }
        7 | 8 | 12 => {
            let field = *rng.pick(&[0usize, 1, 2, 2, 3, 4, 5]);
            let size = *rng.pick(&[1u32, 2, 3, 5, 10, 100]);
            let seg_size = if size >= 10 && rng.chance(1, 2) { None } else { Some(5000) };
            let mdc = *rng.pick(&[1u64, 1, 1, 2, 3]);
            let subs = gen_subs(rng, depth, wide);
            let metric_subs: Vec<usize> = subs.iter().enumerate().filter(|(_, s)| matches!(s, Req::Metric { .. })).map(|(i, _)| i).collect();
            let order = match rng.below(6) {
                0 | 1 => TOrd::Count(true),
                2 => TOrd::Count(false),
                3 => TOrd::Key(false),
                4 => TOrd::Key(true),
                _ => {
                    if let Some(&i) = metric_subs.first() {
                        let j = match &subs[i] { Req::Metric { kind: MKind::Stats, .. } => rng.below(5) as usize, _ => 0 };
                        TOrd::Sub(i, j, rng.chance(1, 2))
                    } else { TOrd::Key(false) }
                }
            };
            let missing = if rng.chance(1, 4) {
                Some(match field { 2 | 5 => Val::S("zz_missing".into()), 1 => Val::I(7777), _ => Val::I(-7777) })
            } else { None };
            Req::Terms { field, size, seg_size, mdc, order, missing, subs }
        }
        _ => Req::Filter { pred: if rng.chance(3, 4) { Some(rng.pick(&["a", "b", "c"]).to_string()) } else { None }, subs: gen_subs(rng, depth, wide) },
    }
}

/// corpus for key-ordered terms with a per-segment cut: every field single-valued and full (never in class F141),
/// many distinct terms per segment (numeric terms, u1 >= 8 000 000 so that the top-level collector uses hash-map storage)
fn gen_keycut_corpus(rng: &mut Rng, n: usize) -> Vec<Doc> {
    let pool: Vec<String> = (0..150).map(|i| format!("t{:03}{}", i, if i % 7 == 0 { "é" } else { "" })).collect();
    (0..n).map(|_| Doc { vals: vec![
        vec![Val::I(rng.range(0, 4000) as i64 - 2000)],
        vec![Val::I(8_000_000 + rng.range(0, 3000) as i64)],
        vec![Val::S(rng.pick(&pool).clone())],
        vec![Val::I(rng.range(0, 20) as i64 - 10)],
        vec![Val::I(rng.range(0, 24) as i64 - 8)],
        vec![Val::S(rng.pick(&["a", "b", "c"]).to_string())],
    ] }).collect()
}

/// terms ordered by _key with a small size and the DEFAULT segment_size (10 x size), top-level or below a bucket parent.
/// For key order the result is exact even when segments cut their lists.
fn gen_keycut_req(rng: &mut Rng) -> Req {
    let size = rng.range(1, 3) as u32;
    let subs = if rng.chance(1, 2) { vec![Req::Metric { kind: *rng.pick(&[MKind::Count, MKind::Sum, MKind::Max]), field: 4, missing: None }] } else { vec![] };
    let inner = Req::Terms { field: *rng.pick(&[0usize, 1, 2, 0, 1]), size, seg_size: None, mdc: 1, order: TOrd::Key(rng.chance(1, 2)), missing: None, subs };
    match rng.below(5) {
        0 | 1 => inner,
        2 => Req::Range { field: 3, cuts: vec![0], style: 0, subs: vec![inner] },
        3 => Req::Histo { field: 3, interval: (10, 1), offset: (0, 1), mdc: 1, hard: None, ext: None, subs: vec![inner] },
        _ => Req::Terms { field: 5, size: 10, seg_size: Some(5000), mdc: 1, order: TOrd::Key(false), missing: None, subs: vec![inner] },
    }
}

/// corpus for "batches of one document" and "column absent in a segment": the metric fields i0, u1, f4 are always
/// multi-valued, the parent fields are single-valued (never class F141): s2 unique per document (singleton term
/// buckets), i3 zero or one value, grp one value
fn gen_sb_corpus(rng: &mut Rng, n: usize) -> Vec<Doc> {
    (0..n).map(|i| Doc { vals: vec![
        (0..rng.range(2, 3)).map(|_| Val::I(rng.range(0, 40) as i64 - 15)).collect(),
        (0..rng.range(1, 3)).map(|_| Val::I(rng.range(0, 30) as i64)).collect(),
        vec![Val::S(format!("u{:03}", i))],
        if rng.chance(1, 2) { vec![Val::I(rng.range(0, 20) as i64 - 10)] } else { vec![] },
        (0..2).map(|_| Val::I(rng.range(0, 24) as i64 - 8)).collect(),
        vec![Val::S(rng.pick(&["a", "b", "c"]).to_string())],
    ] }).collect()
}

fn gen_sb_req(rng: &mut Rng) -> Vec<Req> {
    let metric = |rng: &mut Rng| Req::Metric { kind: *rng.pick(&[MKind::Count, MKind::Sum, MKind::Min, MKind::Max, MKind::Avg, MKind::Stats]), field: *rng.pick(&[0usize, 1, 4]), missing: None };
    // a metric with a (negative / positive) `missing` over the sparse field: a segment may lack the column altogether
    let sparse = |rng: &mut Rng| Req::Metric { kind: *rng.pick(&[MKind::Sum, MKind::Min, MKind::Stats, MKind::Avg, MKind::Max]), field: 3, missing: Some(rng.range(0, 60) as i64 - 40) };
    let subs = |rng: &mut Rng| -> Vec<Req> { let mut v = vec![metric(rng)]; if rng.chance(1, 2) { v.push(metric(rng)); } if rng.chance(1, 3) { v.push(sparse(rng)); } v };
    let parent = match rng.below(6) {
        0 | 1 => Req::Terms { field: 2, size: 100, seg_size: Some(5000), mdc: 1, order: TOrd::Key(false), missing: None, subs: subs(rng) },
        2 => Req::Terms { field: 5, size: 10, seg_size: Some(5000), mdc: 1, order: TOrd::Key(false), missing: None, subs: subs(rng) },
        3 => Req::Filter { pred: Some(rng.pick(&["a", "b", "c"]).to_string()), subs: subs(rng) },
        4 => Req::Range { field: 3, cuts: vec![-3, 4], style: 0, subs: subs(rng) },
        _ => Req::Histo { field: 3, interval: (5, 1), offset: (0, 1), mdc: 1, hard: None, ext: None, subs: subs(rng) },
    };
    let mut rs = vec![metric(rng), parent];
    if rng.chance(1, 2) { rs.push(sparse(rng)); }
    rs
}

fn q_json(q: (i64, i64)) -> Value { json!(q.0 as f64 / q.1 as f64) }

fn subs_json(subs: &[Req]) -> Value {
    let mut m = Map::new();
    for (i, s) in subs.iter().enumerate() { m.insert(format!("a{i}"), req_json(s)); }
    Value::Object(m)
}

const STATS_PROPS: [&str; 5] = ["count", "min", "max", "sum", "avg"];

fn req_json(r: &Req) -> Value {
    let mut node = Map::new();
    let subs: &[Req] = match r {
        Req::Metric { kind, field, missing } => {
            let name = match kind { MKind::Count => "value_count", MKind::Sum => "sum", MKind::Min => "min", MKind::Max => "max", MKind::Avg => "avg", MKind::Stats => "stats" };
            let mut b = Map::new();
            b.insert("field".into(), json!(FIELD_NAMES[*field]));
            if let Some(m) = missing { b.insert("missing".into(), json!(*m as f64)); }
            node.insert(name.into(), Value::Object(b));
            &[]
        }
        Req::Range { field, cuts, style, subs } => {
            let n = cuts.len();
            let mut ranges: Vec<Value> = vec![];
            match style % 4 {
                1 if n >= 2 => { for i in 0..n - 1 { ranges.push(json!({"from": cuts[i] as f64, "to": cuts[i + 1] as f64})); } }
                2 => {
                    let mut i = 0;
                    while i < n {
                        if i + 1 < n { ranges.push(json!({"from": cuts[i] as f64, "to": cuts[i + 1] as f64})); } else { ranges.push(json!({"from": cuts[i] as f64})); }
                        i += 2;
                    }
                }
                s => {
                    ranges.push(json!({"to": cuts[0] as f64}));
                    for i in 0..n - 1 { ranges.push(json!({"from": cuts[i] as f64, "to": cuts[i + 1] as f64})); }
                    ranges.push(json!({"from": cuts[n - 1] as f64}));
                    if s == 3 { ranges.reverse(); }
                }
            }
            node.insert("range".into(), json!({"field": FIELD_NAMES[*field], "ranges": ranges}));
            subs
        }
        Req::Histo { field, interval, offset, mdc, hard, ext, subs } => {
            let mut b = Map::new();
            b.insert("field".into(), json!(FIELD_NAMES[*field]));
            b.insert("interval".into(), q_json(*interval));
            if offset.0 != 0 { b.insert("offset".into(), q_json(*offset)); }
            if *mdc != 0 { b.insert("min_doc_count".into(), json!(mdc)); }
            if let Some((a, c)) = hard { b.insert("hard_bounds".into(), json!({"min": *a as f64, "max": *c as f64})); }
            if let Some((a, c)) = ext { b.insert("extended_bounds".into(), json!({"min": *a as f64, "max": *c as f64})); }
            node.insert("histogram".into(), Value::Object(b));
            subs
        }
        Req::Terms { field, size, seg_size, mdc, order, missing, subs } => {
            let mut b = Map::new();
            b.insert("field".into(), json!(FIELD_NAMES[*field]));
            b.insert("size".into(), json!(size));
            if let Some(s) = seg_size { b.insert("segment_size".into(), json!(s)); }
            if *mdc != 1 { b.insert("min_doc_count".into(), json!(mdc)); }
            let dir = |d: &bool| if *d { "desc" } else { "asc" };
            match order {
                TOrd::Count(true) => {}
                TOrd::Count(d) => { b.insert("order".into(), json!({"_count": dir(d)})); }
                TOrd::Key(d) => { b.insert("order".into(), json!({"_key": dir(d)})); }
                TOrd::Sub(i, j, d) => {
                    let target = match &subs[*i] { Req::Metric { kind: MKind::Stats, .. } => format!("a{}.{}", i, STATS_PROPS[*j]), _ => format!("a{i}") };
                    let mut o = Map::new();
                    o.insert(target, json!(dir(d)));
                    b.insert("order".into(), Value::Object(o));
                }
            }
            if seg_size.is_some() { b.insert("show_term_doc_count_error".into(), json!(true)); }
            match missing { Some(Val::I(x)) => { b.insert("missing".into(), json!(x)); } Some(Val::S(s)) => { b.insert("missing".into(), json!(s)); } None => {} }
            node.insert("terms".into(), Value::Object(b));
            subs
        }
        Req::Filter { pred, subs } => {
            node.insert("filter".into(), json!(match pred { Some(g) => format!("grp:{g}"), None => "*".to_string() }));
            subs
        }
    };
    if !subs.is_empty() { node.insert("aggs".into(), subs_json(subs)); }
    Value::Object(node)
}

// ---- Gallina printers
fn zs(x: i64) -> String { if x < 0 { format!("({})%Z", x) } else { format!("{}%Z", x) } }
fn qs(q: (i64, i64)) -> String { if q.0 < 0 { format!("(({}) # {})%Q", q.0, q.1) } else { format!("({} # {})%Q", q.0, q.1) } }
fn list<T>(xs: &[T], f: impl Fn(&T) -> String) -> String { format!("[{}]", xs.iter().map(f).collect::<Vec<_>>().join("; ")) }
fn opt<T>(o: &Option<T>, f: impl Fn(&T) -> String) -> String { match o { Some(x) => format!("(Some {})", f(x)), None => "None".into() } }
fn key_coq(v: &Val) -> String {
    match v { Val::I(x) => format!("KZ {}", zs(*x)), Val::S(s) => format!("KS {}", list(s.as_bytes(), |b| format!("{}%N", b))) }
}

fn req_coq(r: &Req) -> String {
    match r {
        Req::Metric { kind, field, missing } => format!("RMetric {} {}%N {}",
            match kind { MKind::Count => "MCount", MKind::Sum => "MSum", MKind::Min => "MMin", MKind::Max => "MMax", MKind::Avg => "MAvg", MKind::Stats => "MStats" },
            field, opt(missing, |m| zs(*m))),
        Req::Range { field, cuts, subs, .. } => format!("RBucket (BRange {}%N {}) {}", field, list(cuts, |c| zs(*c)), list(subs, |s| req_coq(s))),
        Req::Histo { field, interval, offset, mdc, hard, ext, subs } => {
            let b = |o: &Option<(i64, i64)>| opt(o, |(a, c)| format!("({}, {})", qs((*a, 1)), qs((*c, 1))));
            format!("RBucket (BHisto {}%N (mkH {} {} {}%N {} {})) {}", field, qs(*interval), qs(*offset), mdc, b(hard), b(ext), list(subs, |s| req_coq(s)))
        }
        Req::Terms { field, size, mdc, order, missing, subs, .. } => {
            let o = match order {
                TOrd::Count(d) => format!("TCount {}", d),
                TOrd::Key(d) => format!("TKey {}", d),
                TOrd::Sub(i, j, d) => format!("TSub {}%nat {}%nat {}", i, j, d),
            };
            format!("RBucket (BTerms {}%N (mkT {}%N {}%N ({}) {})) {}", field, size, mdc, o, opt(missing, |m| format!("({})", key_coq(m))), list(subs, |s| req_coq(s)))
        }
        Req::Filter { pred, subs } => format!("RBucket (BFilter {}) {}",
            match pred { Some(g) => format!("(FHas 5%N ({}))", key_coq(&Val::S(g.clone()))), None => "FAll".into() }, list(subs, |s| req_coq(s))),
    }
}

fn doc_coq(d: &Doc) -> String {
    let fields: Vec<String> = d.vals.iter().enumerate().filter(|(_, vs)| !vs.is_empty())
        .map(|(fid, vs)| format!("({}%N, {})", fid, list(vs, |v| key_coq(v)))).collect();
    format!("[{}]", fields.join("; "))
}

// ---- observations
fn q_of_f64(v: f64) -> Option<String> {
    if !v.is_finite() { return None; }
    if v == v.trunc() && v.abs() < 9.0e15 { return Some(qs((v as i64, 1))); }
    let bits = v.to_bits();
    let sign = if bits >> 63 == 1 { -1i128 } else { 1 };
    let exp = ((bits >> 52) & 0x7ff) as i32;
    let frac = (bits & ((1u64 << 52) - 1)) as i128;
    let (mut m, mut e) = if exp == 0 { (frac, -1074) } else { (frac | (1i128 << 52), exp - 1075) };
    while m % 2 == 0 && e < 0 { m /= 2; e += 1; }
    if e >= 0 || e < -120 { return None; }
    let den: u128 = 1u128 << (-e);
    let num = sign * m;
    Some(if num < 0 { format!("(({}) # {})%Q", num, den) } else { format!("({} # {})%Q", num, den) })
}

fn oq(v: &Value) -> Result<String, String> {
    match v {
        Value::Null => Ok("None".into()),
        Value::Number(n) => q_of_f64(n.as_f64().ok_or("nan")?).map(|s| format!("(Some {})", s)).ok_or_else(|| format!("unrepresentable number {n}")),
        _ => Err(format!("not a number: {v}")),
    }
}

fn okey(v: &Value) -> Result<String, String> {
    match v {
        Value::Number(n) => Ok(format!("OKQ {}", q_of_f64(n.as_f64().ok_or("nan")?).ok_or("unrepresentable key")?)),
        Value::String(s) => Ok(format!("OKS {}", list(s.as_bytes(), |b| format!("{}%N", b)))),
        _ => Err(format!("bad key {v}")),
    }
}

fn obs_subs(subs: &[Req], obj: &Map<String, Value>) -> Result<String, String> {
    let mut out = vec![];
    for (i, s) in subs.iter().enumerate() {
        out.push(obs_of(s, obj.get(&format!("a{i}")).ok_or_else(|| format!("missing result a{i}"))?)?);
    }
    Ok(format!("[{}]", out.join("; ")))
}

fn obs_of(r: &Req, v: &Value) -> Result<String, String> {
    let obj = v.as_object().ok_or_else(|| format!("result not an object: {v}"))?;
    let get = |k: &str| obj.get(k).ok_or_else(|| format!("missing {k} in {v}"));
    let onat = |v: Option<&Value>| -> String { match v.and_then(|x| x.as_u64()) { Some(n) => format!("(Some {}%N)", n), None => "None".into() } };
    match r {
        Req::Metric { kind: MKind::Stats, .. } => Ok(format!("OM [{}; {}; {}; {}; {}]", oq(get("count")?)?, oq(get("min")?)?, oq(get("max")?)?, oq(get("sum")?)?, oq(get("avg")?)?)),
        Req::Metric { .. } => Ok(format!("OM [{}]", oq(get("value")?)?)),
        Req::Filter { subs, .. } => {
            let cnt = get("doc_count")?.as_u64().ok_or("doc_count")?;
            Ok(format!("OB [(OKQ (0 # 1)%Q, {}%N, {})] None None", cnt, obs_subs(subs, obj)?))
        }
        Req::Range { subs, .. } | Req::Histo { subs, .. } | Req::Terms { subs, .. } => {
            let buckets = get("buckets")?.as_array().ok_or("buckets not an array")?;
            let mut out = vec![];
            for b in buckets {
                let bo = b.as_object().ok_or("bucket not an object")?;
                let cnt = bo.get("doc_count").and_then(|x| x.as_u64()).ok_or("doc_count")?;
                let k = match r {
                    Req::Range { .. } => format!("OKR {} {}", oq(bo.get("from").unwrap_or(&Value::Null))?, oq(bo.get("to").unwrap_or(&Value::Null))?),
                    _ => okey(bo.get("key").ok_or("key")?)?,
                };
                out.push(format!("({}, {}%N, {})", k, cnt, obs_subs(subs, bo)?));
            }
            Ok(format!("OB [{}] {} {}", out.join("; "), onat(obj.get("sum_other_doc_count")), onat(obj.get("doc_count_error_upper_bound"))))
        }
    }
}

fn obs_top(rs: &[Req], v: &Value) -> Result<String, String> {
    let obj = v.as_object().ok_or("top-level result not an object")?;
    let mut out = vec![];
    for (i, r) in rs.iter().enumerate() { out.push(format!("({})", obs_of(r, obj.get(&format!("a{i}")).ok_or("missing top-level result")?)?)); }
    Ok(format!("[{}]", out.join("; ")))
}

/// AggregationResults::get_bucket_count evaluated on the implementation's own (unlimited) result
fn count_buckets(r: &Req, v: &Value) -> u64 {
    let subs_count = |subs: &[Req], obj: &Value| -> u64 { subs.iter().enumerate().map(|(i, s)| obj.get(format!("a{i}")).map_or(0, |x| count_buckets(s, x))).sum() };
    match r {
        Req::Metric { .. } => 0,
        Req::Filter { subs, .. } => subs_count(subs, v),
        Req::Range { subs, .. } | Req::Histo { subs, .. } | Req::Terms { subs, .. } =>
            v.get("buckets").and_then(|b| b.as_array()).map_or(0, |bs| bs.iter().map(|b| 1 + subs_count(subs, b)).sum()),
    }
}

// ---- mirror of the Coq classifier f141 (routing only; Coq re-evaluates the class on every reported case)
fn floor_div(a: i128, b: i128) -> i128 { a.div_euclid(b) }
fn cls(r: &Req, d: &Doc) -> Vec<Val> {
    let nums = |f: usize| -> Vec<i64> { d.vals[f].iter().filter_map(|v| if let Val::I(x) = v { Some(*x) } else { None }).collect() };
    match r {
        Req::Metric { .. } => vec![],
        Req::Range { field, cuts, .. } => nums(*field).iter().map(|v| Val::I(cuts.iter().filter(|c| **c <= *v).count() as i64)).collect(),
        Req::Histo { field, interval, offset, hard, .. } => nums(*field).iter()
            .filter(|v| hard.map_or(true, |(a, b)| a <= **v && **v <= b))
            .map(|v| {
                // floor((v - on/od) / (inn/ind)) = floor((v*od - on) * ind / (od * inn))
                let (inn, ind, on, od) = (interval.0 as i128, interval.1 as i128, offset.0 as i128, offset.1 as i128);
                Val::I(floor_div((*v as i128 * od - on) * ind, od * inn) as i64)
            }).collect(),
        Req::Terms { field, missing, .. } => {
            let vs = &d.vals[*field];
            if vs.is_empty() { missing.iter().cloned().collect() } else { let mut o: Vec<Val> = vec![]; for v in vs { if !o.contains(v) { o.push(v.clone()); } } o }
        }
        Req::Filter { pred, .. } => if pred.as_ref().map_or(true, |g| d.vals[5].contains(&Val::S(g.clone()))) { vec![Val::I(0)] } else { vec![] },
    }
}
fn in_f141(r: &Req, docs: &[&Doc]) -> bool {
    let subs: &[Req] = match r { Req::Metric { .. } => return false, Req::Range { subs, .. } | Req::Histo { subs, .. } | Req::Terms { subs, .. } | Req::Filter { subs, .. } => subs };
    if subs.is_empty() { return false; }
    let per_value = matches!(r, Req::Range { .. } | Req::Histo { .. });
    let mut keys: Vec<Val> = vec![];
    for d in docs {
        let ks = cls(r, d);
        for (i, k) in ks.iter().enumerate() {
            if per_value && ks[..i].contains(k) { return true; }
            if !keys.contains(k) { keys.push(k.clone()); }
        }
    }
    for k in &keys {
        let mut dk: Vec<&Doc> = vec![];
        for d in docs { for k2 in cls(r, d) { if &k2 == k { dk.push(*d); } } }
        if subs.iter().any(|s| in_f141(s, &dk)) { return true; }
    }
    false
}

fn depth(r: &Req) -> u32 {
    match r {
        Req::Metric { .. } => 1,
        Req::Range { subs, .. } | Req::Histo { subs, .. } | Req::Terms { subs, .. } | Req::Filter { subs, .. } => 1 + subs.iter().map(depth).max().unwrap_or(0),
    }
}

// ------------------------------------------------------------------------------------------------
fn ctx() -> AggContextParams { AggContextParams::default() }

fn run_final(index: &Index, q: &dyn Query, aggs: &Aggregations) -> Result<Value, String> { run_final_ctx(index, q, aggs, ctx()) }

fn run_final_ctx(index: &Index, q: &dyn Query, aggs: &Aggregations, ctx: AggContextParams) -> Result<Value, String> {
    let r = guarded(|| -> tantivy::Result<Value> {
        let searcher = index.reader()?.searcher();
        let res = searcher.search(q, &AggregationCollector::from_aggs(aggs.clone(), ctx))?;
        Ok(serde_json::to_value(&res).unwrap())
    });
    match r { Ok(Ok(v)) => Ok(v), Ok(Err(e)) => Err(format!("error: {e}")), Err(p) => Err(format!("panic: {p}")) }
}

fn run_fruit(index: &Index, q: &dyn Query, aggs: &Aggregations) -> Result<IntermediateAggregationResults, String> {
    let r = guarded(|| -> tantivy::Result<IntermediateAggregationResults> {
        let searcher = index.reader()?.searcher();
        searcher.search(q, &DistributedAggregationCollector::from_aggs(aggs.clone(), ctx()))
    });
    match r { Ok(Ok(v)) => Ok(v), Ok(Err(e)) => Err(format!("error: {e}")), Err(p) => Err(format!("panic: {p}")) }
}

fn roundtrip(f: &IntermediateAggregationResults) -> Result<IntermediateAggregationResults, String> {
    let bytes = postcard::to_allocvec(f).map_err(|e| format!("postcard ser: {e}"))?;
    postcard::from_bytes(&bytes).map_err(|e| format!("postcard de: {e}"))
}

/// merge `fruits` along a shape: 0 left fold, 1 right-to-left fold, 2 balanced tree, 3 random tree
fn merge_shape(mut fruits: Vec<IntermediateAggregationResults>, shape: u64, rt: bool, rng: &mut Rng) -> Result<IntermediateAggregationResults, String> {
    let step = |mut a: IntermediateAggregationResults, b: IntermediateAggregationResults| -> Result<IntermediateAggregationResults, String> {
        let b = if rt { roundtrip(&b)? } else { b };
        match guarded(|| a.merge_fruits(b).map(|_| a)) { Ok(Ok(a)) => Ok(a), Ok(Err(e)) => Err(format!("merge error: {e}")), Err(p) => Err(format!("merge panic: {p}")) }
    };
    if fruits.is_empty() { return Ok(IntermediateAggregationResults::default()); }
    // empty intermediate results (an index without segments, `default()` as the accumulator of a fold) may stand
    // anywhere in the merge tree: as the first accumulator and at a random inner position
    if rng.chance(2, 3) { fruits.insert(0, IntermediateAggregationResults::default()); }
    if rng.chance(1, 3) { let i = rng.below(fruits.len() as u64 + 1) as usize; fruits.insert(i, IntermediateAggregationResults::default()); }
    match shape % 4 {
        0 => { let mut it = fruits.into_iter(); let mut acc = it.next().unwrap(); for f in it { acc = step(acc, f)?; } Ok(acc) }
        1 => { let mut acc = fruits.pop().unwrap(); while let Some(f) = fruits.pop() { acc = step(f, acc)?; } Ok(acc) }
        2 => {
            while fruits.len() > 1 {
                let mut next = vec![];
                let mut it = fruits.into_iter();
                while let Some(a) = it.next() { match it.next() { Some(b) => next.push(step(a, b)?), None => next.push(a) } }
                fruits = next;
            }
            Ok(fruits.pop().unwrap())
        }
        _ => {
            while fruits.len() > 1 {
                let i = rng.below(fruits.len() as u64) as usize;
                let a = fruits.swap_remove(i);
                let j = rng.below(fruits.len() as u64) as usize;
                let b = fruits.swap_remove(j);
                let m = if rng.chance(1, 2) { step(a, b)? } else { step(b, a)? };
                fruits.push(if rt { roundtrip(&m)? } else { m });
            }
            Ok(fruits.pop().unwrap())
        }
    }
}

/// canonical JSON for equality between runs: object keys sorted (serde_json Map is a BTreeMap here)
fn canon(v: &Value) -> String { serde_json::to_string(v).unwrap() }

// ------------------------------------------------------------------------------------------------
// Fractional histograms (decided on the implementation side): full columns t (text), k (u64), x (f64) with
// fractional values; interval / offset that are not sums of powers of two.  Bucket identity is exact f64 equality,
// so (1) every non-empty bucket key must equal the documented formula floor((v - offset) / interval) * interval + offset
// evaluated independently in f64, with the exact doc count, and (2) one segment, several segments and every
// distributed merge order must give identical keys and counts.  Shapes: terms(t|k) > histogram(x) leaf (the fused
// terms x histogram collector), histogram(x) alone and range(k) > histogram(x) (the general collector).
fn frac_index(parts: &[Vec<(String, u64, f64)>]) -> tantivy::Result<Index> {
    let mut sb = Schema::builder();
    let t = sb.add_text_field("t", STRING | FAST);
    let k = sb.add_u64_field("k", FAST);
    let x = sb.add_f64_field("x", FAST);
    let index = Index::create_in_ram(sb.build());
    let mut w: IndexWriter = index.writer_with_num_threads(1, 20_000_000)?;
    w.set_merge_policy(Box::new(tantivy::merge_policy::NoMergePolicy));
    for p in parts {
        if p.is_empty() { continue; }
        for (ts, kv, xv) in p {
            let mut d = TantivyDocument::default();
            d.add_text(t, ts); d.add_u64(k, *kv); d.add_f64(x, *xv);
            w.add_document(d)?;
        }
        w.commit()?;
    }
    w.wait_merging_threads()?;
    Ok(index)
}

fn hist_key(v: f64, interval: f64, offset: f64) -> f64 {
    let pos = ((v - offset) / interval).floor() as i64;
    let key = pos as f64 * interval + offset;
    if key == 0.0 { 0.0 } else { key }
}

/// non-empty histogram buckets of a result node as (key bits, count)
fn hist_nonempty(v: &Value) -> Result<Vec<(u64, u64)>, String> {
    let mut out = vec![];
    for b in v.get("buckets").and_then(|b| b.as_array()).ok_or("histogram buckets")? {
        let key = b.get("key").and_then(|k| k.as_f64()).ok_or("histogram key")?;
        let cnt = b.get("doc_count").and_then(|c| c.as_u64()).ok_or("doc_count")?;
        if cnt > 0 { out.push(((if key == 0.0 { 0.0 } else { key }).to_bits(), cnt)); }
    }
    out.sort();
    Ok(out)
}

fn frac_stream(out: &mut CaseOut, rng: &mut Rng, thorough: bool) {
    use std::collections::BTreeMap;
    let n = if thorough { 150 } else { 22 };
    for ci in 0..n {
        let (interval, offset): (f64, f64) = *rng.pick(&[(0.1, 0.0), (0.3, 0.0), (2.5, 0.7), (0.1, 0.03), (0.7, 0.2), (0.3, 0.1), (1.1, 0.0), (0.25, 0.0), (0.05, 0.01)]);
        let lo: f64 = *rng.pick(&[0.5, 1.7, -2.3, 10.0, 0.9, 100.3]);
        let step: f64 = *rng.pick(&[0.1, 0.05, 0.3, 1.0 / 3.0, 0.7]);
        let n_terms = rng.range(2, 6);
        let n_docs = rng.range(3, 60) as usize;
        let docs: Vec<(String, u64, f64)> = (0..n_docs).map(|_| {
            let m = rng.range(0, 40) as f64;
            (format!("t{}", rng.below(n_terms)), rng.below(n_terms), match ci % 3 { 0 => lo + m * step, 1 => (lo * 10.0 + m) / 10.0, _ => lo + m * step + 0.01 })
        }).collect();
        let mut partitions: Vec<Vec<Vec<(String, u64, f64)>>> = vec![vec![docs.clone()]];
        for _ in 0..3 {
            let k = rng.range(2, 5) as usize;
            let mut parts = vec![vec![]; k];
            for d in &docs { parts[rng.below(k as u64) as usize].push(d.clone()); }
            parts.retain(|p: &Vec<(String, u64, f64)>| !p.is_empty());
            partitions.push(parts);
        }
        let indexes: Vec<Index> = partitions.iter().map(|p| frac_index(p).expect("index build")).collect();
        let split: Vec<Index> = partitions.last().unwrap().iter().map(|p| frac_index(std::slice::from_ref(p)).expect("index build")).collect();
        for mdc in [1u64, 0] {
            let hist = json!({"histogram": {"field": "x", "interval": interval, "offset": offset, "min_doc_count": mdc}});
            let shapes: Vec<(&str, Value)> = vec![
                ("terms(t)>histogram", json!({"a0": {"terms": {"field": "t", "size": 100, "order": {"_key": "asc"}}, "aggs": {"a0": hist.clone()}}})),
                ("terms(k)>histogram", json!({"a0": {"terms": {"field": "k", "size": 100, "order": {"_key": "asc"}}, "aggs": {"a0": hist.clone()}}})),
                ("histogram", json!({"a0": hist.clone()})),
                ("range(k)>histogram", json!({"a0": {"range": {"field": "k", "ranges": [{"to": 2.0}, {"from": 2.0}]}, "aggs": {"a0": hist.clone()}}})),
            ];
            for (shape, rjson) in shapes {
                let aggs: Aggregations = serde_json::from_value(rjson.clone()).expect("fractional request");
                let desc = json!({"what": "fractional histogram", "shape": shape, "request": rjson, "docs": docs, "interval": interval, "offset": offset});
                out.count("fractional_histogram_requests", 1);
                let base = match run_final(&indexes[0], &AllQuery, &aggs) {
                    Ok(v) => v,
                    Err(e) => { out.spec_checked(false, json!({"what": "aggregation failed on a valid request", "error": e, "case": desc})); continue; }
                };
                // (1) oracle: the documented formula evaluated independently in f64
                let group_of = |d: &(String, u64, f64)| -> String { match shape { "terms(t)>histogram" => d.0.clone(), "terms(k)>histogram" => d.1.to_string(), "histogram" => String::new(), _ => if d.1 < 2 { "lo".into() } else { "hi".into() } } };
                let mut expect: BTreeMap<String, BTreeMap<u64, u64>> = BTreeMap::new();
                for d in &docs { *expect.entry(group_of(d)).or_default().entry(hist_key(d.2, interval, offset).to_bits()).or_default() += 1; }
                let mut got: BTreeMap<String, Vec<(u64, u64)>> = BTreeMap::new();
                let mut shape_err: Option<String> = None;
                if shape == "histogram" {
                    match hist_nonempty(&base["a0"]) { Ok(h) => { got.insert(String::new(), h); } Err(e) => shape_err = Some(e) }
                } else {
                    for b in base["a0"]["buckets"].as_array().cloned().unwrap_or_default() {
                        if b["doc_count"].as_u64() == Some(0) { continue; }
                        let name = match shape { "range(k)>histogram" => if b.get("from").is_some() { "hi".to_string() } else { "lo".to_string() },
                                                 _ => match &b["key"] { Value::String(s) => s.clone(), other => other.to_string() } };
                        match hist_nonempty(&b["a0"]) { Ok(h) => { got.insert(name, h); } Err(e) => shape_err = Some(e) }
                    }
                }
                let expect_v: BTreeMap<String, Vec<(u64, u64)>> = expect.into_iter().map(|(k, m)| (k, m.into_iter().collect())).collect();
                let show = |m: &BTreeMap<String, Vec<(u64, u64)>>| -> Value { json!(m.iter().map(|(k, v)| (k.clone(), v.iter().map(|(b, c)| (f64::from_bits(*b), *c)).collect::<Vec<_>>())).collect::<BTreeMap<_, _>>()) };
                out.spec_checked(shape_err.is_none() && got == expect_v,
                    json!({"what": "histogram bucket keys / doc counts differ from floor((v - offset) / interval) * interval + offset evaluated in f64", "case": desc,
                           "expected": show(&expect_v), "impl": show(&got), "impl_json": base, "shape_error": shape_err}));
                // (2) exact equality of keys and counts over partitions and merge orders
                let base_c = canon(&base);
                for (parts, ix) in partitions.iter().zip(indexes.iter()).skip(1) {
                    match run_final(ix, &AllQuery, &aggs) {
                        Ok(v) => out.spec_checked(canon(&v) == base_c, json!({"what": "fractional histogram: result depends on the partition into segments", "segments": parts.len(), "case": desc, "one_segment": base, "impl": v})),
                        Err(e) => out.spec_checked(false, json!({"what": "aggregation failed on a partition", "error": e, "case": desc})),
                    }
                    out.count("fractional_partition_runs", 1);
                }
                let fruits: Vec<IntermediateAggregationResults> = match split.iter().map(|ix| run_fruit(ix, &AllQuery, &aggs)).collect::<Result<Vec<_>, _>>() {
                    Ok(f) => f,
                    Err(e) => { out.spec_checked(false, json!({"what": "distributed collection failed", "error": e, "case": desc})); continue; }
                };
                for oi in 0..3u64 {
                    let mut fs = fruits.clone();
                    if oi > 0 { rng.shuffle(&mut fs); }
                    let merged = match merge_shape(fs, oi + 1, oi % 2 == 1, rng) { Ok(m) => m, Err(e) => { out.spec_checked(false, json!({"what": "merge_fruits failed", "error": e, "case": desc})); continue; } };
                    match guarded(|| merged.into_final_result(aggs.clone(), AggregationLimitsGuard::default())) {
                        Ok(Ok(res)) => { let v = serde_json::to_value(&res).unwrap();
                                         out.spec_checked(canon(&v) == base_c, json!({"what": "fractional histogram: distributed merge differs from the single-segment result", "order": oi, "case": desc, "one_segment": base, "impl": v})); }
                        Ok(Err(e)) => out.spec_checked(false, json!({"what": "into_final_result failed", "error": e.to_string(), "case": desc})),
                        Err(p) => out.spec_checked(false, json!({"what": "into_final_result panicked", "error": p, "case": desc})),
                    }
                    out.count("fractional_merge_orders", 1);
                }
            }
        }
    }
}

// ------------------------------------------------------------------------------------------------
// Extended scenarios, decided against oracles computed here (group-by of the corpus / documented formula) and
// classified by coq/Agg/Ext.v when the implementation fails:
//   metrics with `missing`, range and cardinality over a dynamic JSON path that some segments do not carry (F142, F143),
//   composite with a terms / date_histogram(fixed_interval) source, instants before 1970 (F144),
//   terms(min_doc_count 0) > composite under every merge order (F145).
#[derive(Clone, Debug)]
struct XDoc { grp: String, tags: Vec<String>, n: i64, dt_ms: i64, jv: Option<i64>, jc: Option<String> }

fn xindex(parts: &[Vec<XDoc>]) -> tantivy::Result<Index> {
    let mut sb = Schema::builder();
    let grp = sb.add_text_field("grp", STRING | FAST);
    let tag = sb.add_text_field("tag", STRING | FAST);
    let n = sb.add_i64_field("n", FAST);
    let dt = sb.add_date_field("dt", FAST);
    let j = sb.add_json_field("j", FAST);
    let index = Index::create_in_ram(sb.build());
    let mut w: IndexWriter = index.writer_with_num_threads(1, 20_000_000)?;
    w.set_merge_policy(Box::new(tantivy::merge_policy::NoMergePolicy));
    for p in parts {
        if p.is_empty() { continue; }
        for d in p {
            let mut t = TantivyDocument::default();
            t.add_text(grp, &d.grp);
            for s in &d.tags { t.add_text(tag, s); }
            t.add_i64(n, d.n);
            t.add_date(dt, DateTime::from_timestamp_millis(d.dt_ms));
            let mut o = Map::new();
            o.insert("o".into(), json!(1));
            if let Some(v) = d.jv { o.insert("v".into(), json!(v)); }
            if let Some(c) = &d.jc { o.insert("c".into(), json!(c)); }
            let obj: std::collections::BTreeMap<String, tantivy::schema::OwnedValue> = serde_json::from_value(Value::Object(o)).unwrap();
            t.add_object(j, obj);
            w.add_document(t)?;
        }
        w.commit()?;
    }
    w.wait_merging_threads()?;
    Ok(index)
}

fn qf(v: f64) -> String { q_of_f64(v).unwrap_or_else(|| "(0 # 1)%Q".into()) }

/// every way the request is evaluated: (label, partition index or usize::MAX for a distributed merge, result)
fn xruns(indexes: &[Index], split: &[Index], empty: &Index, q: &dyn Query, aggs: &Aggregations, rng: &mut Rng) -> Vec<(String, usize, Result<Value, String>)> {
    let mut runs = vec![];
    for (pi, ix) in indexes.iter().enumerate() { runs.push((format!("partition {pi}"), pi, run_final(ix, q, aggs))); }
    let fruits: Result<Vec<IntermediateAggregationResults>, String> = split.iter().map(|ix| run_fruit(ix, q, aggs)).collect();
    match fruits {
        Err(e) => runs.push(("distributed collection".into(), usize::MAX, Err(e))),
        Ok(mut fruits) => {
            if let Ok(f) = run_fruit(empty, q, aggs) { let at = rng.below(fruits.len() as u64 + 1) as usize; fruits.insert(at, f); }
            for oi in 0..4u64 {
                let mut fs = fruits.clone();
                if oi > 0 { rng.shuffle(&mut fs); }
                let r = merge_shape(fs, oi, oi % 2 == 1, rng).and_then(|m| match guarded(|| m.into_final_result(aggs.clone(), AggregationLimitsGuard::default())) {
                    Ok(Ok(res)) => Ok(serde_json::to_value(&res).unwrap()), Ok(Err(e)) => Err(format!("error: {e}")), Err(p) => Err(format!("panic: {p}")) });
                runs.push((format!("distributed merge order {oi}"), usize::MAX, r));
            }
        }
    }
    runs
}

fn ext_stream(out: &mut CaseOut, rng: &mut Rng, thorough: bool) {
    use std::collections::BTreeMap;
    let n_corpora = if thorough { 120 } else { 16 };
    let tags = ["ta", "tb", "tc", "td", "te", "tf"];
    let empty = xindex(&[]).expect("index build");
    for ci in 0..n_corpora {
        let n_docs = rng.range(2, 24) as usize;
        let jv_share = *rng.pick(&[1u64, 2, 3]);
        let docs: Vec<XDoc> = (0..n_docs).map(|_| XDoc {
            grp: rng.pick(&["a", "a", "b"]).to_string(),
            tags: { let k = rng.range(1, 2); let mut v: Vec<String> = vec![]; for _ in 0..k { let t = rng.pick(&tags).to_string(); if !v.contains(&t) { v.push(t); } } v },
            n: rng.range(0, 4) as i64 - 1,
            dt_ms: match rng.below(4) { 0 => (rng.range(0, 8) as i64 - 4) * 21_600_000, _ => rng.range(0, 6 * 86_400_000) as i64 - 3 * 86_400_000 },
            jv: if rng.below(4) < jv_share { Some(rng.range(0, 30) as i64 - 12) } else { None },
            jc: if rng.chance(1, 2) { Some(rng.pick(&["red", "green", "blue"]).to_string()) } else { None },
        }).collect();
        let filter_g: Option<&str> = if ci % 2 == 0 { None } else { Some("a") };
        let matching = |d: &XDoc| filter_g.map_or(true, |g| d.grp == g);
        // partitions: one segment; random 2..5 parts; documents carrying j.v / j.c apart from the others
        let mut partitions: Vec<Vec<Vec<XDoc>>> = vec![vec![docs.clone()]];
        for _ in 0..2 {
            let k = rng.range(2, 5) as usize;
            let mut parts = vec![vec![]; k];
            for d in &docs { parts[rng.below(k as u64) as usize].push(d.clone()); }
            parts.retain(|p: &Vec<XDoc>| !p.is_empty());
            partitions.push(parts);
        }
        let (with, without): (Vec<XDoc>, Vec<XDoc>) = docs.iter().cloned().partition(|d| d.jv.is_some() || d.jc.is_some());
        let mut by_col = vec![with, without];
        by_col.retain(|p| !p.is_empty());
        partitions.push(by_col);
        let indexes: Vec<Index> = partitions.iter().map(|p| xindex(p).expect("index build")).collect();
        let split: Vec<Index> = partitions[1].iter().map(|p| xindex(std::slice::from_ref(p)).expect("index build")).collect();
        let gschema = indexes[0].schema();
        let query: Box<dyn Query> = match filter_g {
            None => Box::new(AllQuery),
            Some(g) => Box::new(TermQuery::new(Term::from_field_text(gschema.get_field("grp").unwrap(), g), IndexRecordOption::Basic)),
        };
        let md: Vec<&XDoc> = docs.iter().filter(|d| matching(d)).collect();
        let part_of = |pi: usize| -> &Vec<Vec<XDoc>> { if pi == usize::MAX { &partitions[1] } else { &partitions[pi] } };
        let has_col = |parts: &Vec<Vec<XDoc>>, f: &dyn Fn(&XDoc) -> bool| -> String { list(parts, |p| list(p, |d| format!("{}", f(d)))) };

        // one scenario = request + oracle (a canonical projection of the result) + classifier
        let scenario = |out: &mut CaseOut, rng: &mut Rng, name: &str, rjson: Value, project: &dyn Fn(&Value) -> Result<Value, String>, expected: Value,
                            known: &str, class_term: &dyn Fn(&Vec<Vec<XDoc>>) -> String| {
            let aggs: Aggregations = match serde_json::from_value(rjson.clone()) { Ok(a) => a, Err(e) => { out.spec_checked(false, json!({"what": "harness: request JSON rejected", "error": e.to_string(), "request": rjson})); return; } };
            out.count(&format!("ext_{name}"), 1);
            let runs = xruns(&indexes, &split, &empty, query.as_ref(), &aggs, rng);
            let mut first_bad: Option<(String, usize, Value)> = None;
            for (label, pi, r) in runs {
                let got = match &r { Ok(v) => project(v).unwrap_or_else(|e| json!({"shape error": e, "impl": v})), Err(e) => json!({"failed": e}) };
                if got != expected && first_bad.is_none() { first_bad = Some((label, pi, got)); }
            }
            let desc = json!({"what": name, "request": rjson, "query": filter_g, "docs": format!("{:?}", docs), "expected": expected});
            match first_bad {
                None => out.spec_checked(true, json!({})),
                Some((label, pi, got)) => {
                    let mut d = desc; d["run"] = json!(label); d["impl"] = got; d["partition"] = json!(format!("{:?}", part_of(pi)));
                    if known.is_empty() { out.spec_checked(false, d); }
                    else { out.count(&format!("ext_{name}_known_{known}"), 1); out.coq_case(&format!("known:{known}"), class_term(part_of(pi)), d, true); }
                }
            }
        };

        // ---- metric with `missing` over j.v
        for _ in 0..2 {
            let kind = *rng.pick(&["sum", "min", "max", "value_count", "stats"]);
            let m: f64 = *rng.pick(&[-20.0, -1.5, 2.5, 7.0, 0.0, -3.0]);
            let vals: Vec<f64> = md.iter().map(|d| d.jv.map_or(m, |v| v as f64)).collect();
            let (cnt, sum) = (vals.len() as f64, vals.iter().sum::<f64>());
            let (mn, mx) = (vals.iter().cloned().fold(f64::INFINITY, f64::min), vals.iter().cloned().fold(f64::NEG_INFINITY, f64::max));
            let opt = |x: f64| if vals.is_empty() { Value::Null } else { json!(x) };
            let expected = match kind { "sum" => json!(sum), "min" => opt(mn), "max" => opt(mx), "value_count" => json!(cnt), _ => json!([cnt, sum, opt(mn), opt(mx)]) };
            let project = move |v: &Value| -> Result<Value, String> { let a = v.get("a0").ok_or("a0")?; Ok(if kind == "stats" { json!([a["count"].as_f64(), a["sum"].as_f64(), a["min"].clone(), a["max"].clone()]) } else { a["value"].clone() }) };
            // normalise numbers: compare as f64
            let norm = |v: Value| -> Value { match v { Value::Array(a) => Value::Array(a.into_iter().map(|x| x.as_f64().map_or(Value::Null, |f| json!(f))).collect()), x => x.as_f64().map_or(Value::Null, |f| json!(f)) } };
            let expected = norm(expected);
            scenario(out, rng, "metric_missing_json", json!({"a0": {kind: {"field": "j.v", "missing": m}}}), &move |v| project(v).map(norm), expected,
                     "F142", &|parts| format!("f142 (XMetricMissing {}) {}", qf(m), has_col(parts, &|d| d.jv.is_some())));
        }
        // ---- range over j.v with negative bounds
        {
            let mut cuts: Vec<i64> = (0..rng.range(1, 3)).map(|_| rng.range(0, 30) as i64 - 14).collect();
            cuts.sort(); cuts.dedup();
            let mut ranges = vec![json!({"to": cuts[0] as f64})];
            for i in 0..cuts.len() - 1 { ranges.push(json!({"from": cuts[i] as f64, "to": cuts[i + 1] as f64})); }
            ranges.push(json!({"from": cuts[cuts.len() - 1] as f64}));
            let vals: Vec<i64> = md.iter().filter_map(|d| d.jv).collect();
            let mut expected = vec![];
            for i in 0..=cuts.len() {
                let lo = if i == 0 { None } else { Some(cuts[i - 1]) };
                let hi = if i == cuts.len() { None } else { Some(cuts[i]) };
                let c = vals.iter().filter(|v| lo.map_or(true, |l| **v >= l) && hi.map_or(true, |h| **v < h)).count();
                expected.push(json!([lo.map(|x| x as f64), hi.map(|x| x as f64), c]));
            }
            let project = |v: &Value| -> Result<Value, String> { Ok(Value::Array(v["a0"]["buckets"].as_array().ok_or("buckets")?.iter().map(|b| json!([b.get("from").and_then(|x| x.as_f64()), b.get("to").and_then(|x| x.as_f64()), b["doc_count"].as_u64()])).collect())) };
            let cuts2 = cuts.clone();
            scenario(out, rng, "range_json", json!({"a0": {"range": {"field": "j.v", "ranges": ranges}}}), &project, Value::Array(expected),
                     "F142", &|parts| format!("f142 (XRange {}) {}", list(&cuts2, |c| qf(*c as f64)), has_col(parts, &|d| d.jv.is_some())));
        }
        // ---- cardinality with a string `missing` over j.c
        {
            let mut set: Vec<String> = vec![];
            for d in &md { let v = d.jc.clone().unwrap_or_else(|| "none".into()); if !set.contains(&v) { set.push(v); } }
            let project = |v: &Value| -> Result<Value, String> { Ok(json!(v["a0"]["value"].as_f64())) };
            scenario(out, rng, "cardinality_missing_json", json!({"a0": {"cardinality": {"field": "j.c", "missing": "none"}}}), &project, json!(set.len() as f64),
                     "F143", &|parts| format!("f143 {}", has_col(parts, &|d| d.jc.is_some())));
        }
        // ---- composite: one source, size above the number of buckets (one page)
        {
            let interval_ms: i64 = *rng.pick(&[86_400_000i64, 21_600_000, 3_600_000 * 12]);
            let iv = match interval_ms { 86_400_000 => "1d", 21_600_000 => "6h", _ => "12h" };
            let mut exp: BTreeMap<i64, u64> = BTreeMap::new();
            for d in &md { *exp.entry(d.dt_ms.div_euclid(interval_ms) * interval_ms).or_default() += 1; }
            let expected = Value::Array(exp.iter().map(|(k, c)| json!([k, c])).collect());
            let project = |v: &Value| -> Result<Value, String> { Ok(Value::Array(v["a0"]["buckets"].as_array().ok_or("buckets")?.iter().map(|b| json!([b["key"]["h"].as_i64(), b["doc_count"].as_u64()])).collect())) };
            let instants: Vec<i64> = md.iter().map(|d| d.dt_ms).collect();
            scenario(out, rng, "composite_date_histogram", json!({"a0": {"composite": {"sources": [{"h": {"date_histogram": {"field": "dt", "fixed_interval": iv}}}], "size": 200}}}), &project, expected,
                     "F144", &|_parts| format!("f144 {} {}", zs(interval_ms), list(&instants, |t| zs(*t))));
            let mut exp: BTreeMap<i64, u64> = BTreeMap::new();
            for d in &md { *exp.entry(d.n).or_default() += 1; }
            let expected = Value::Array(exp.iter().map(|(k, c)| json!([k, c])).collect());
            let project = |v: &Value| -> Result<Value, String> { Ok(Value::Array(v["a0"]["buckets"].as_array().ok_or("buckets")?.iter().map(|b| json!([b["key"]["n"].as_i64(), b["doc_count"].as_u64()])).collect())) };
            scenario(out, rng, "composite_terms", json!({"a0": {"composite": {"sources": [{"n": {"terms": {"field": "n"}}}], "size": 200}}}), &project, expected, "", &|_| String::new());
        }
        // ---- terms(min_doc_count 0) > composite
        {
            let mut all_tags: Vec<String> = vec![];
            for d in &docs { for t in &d.tags { if !all_tags.contains(t) { all_tags.push(t.clone()); } } }
            all_tags.sort();
            let expected = Value::Array(all_tags.iter().map(|t| {
                let ds: Vec<&&XDoc> = md.iter().filter(|d| d.tags.contains(t)).collect();
                let mut exp: BTreeMap<i64, u64> = BTreeMap::new();
                for d in &ds { *exp.entry(d.n).or_default() += 1; }
                json!([t, ds.len(), exp.iter().map(|(k, c)| json!([k, c])).collect::<Vec<_>>()])
            }).collect());
            let project = |v: &Value| -> Result<Value, String> { Ok(Value::Array(v["a0"]["buckets"].as_array().ok_or("buckets")?.iter().map(|b|
                json!([b["key"], b["doc_count"].as_u64(), b["a0"]["buckets"].as_array().map(|bs| bs.iter().map(|c| json!([c["key"]["n"].as_i64(), c["doc_count"].as_u64()])).collect::<Vec<_>>())])).collect())) };
            scenario(out, rng, "terms_mdc0_composite", json!({"a0": {"terms": {"field": "tag", "min_doc_count": 0, "size": 100, "order": {"_key": "asc"}},
                                                              "aggs": {"a0": {"composite": {"sources": [{"n": {"terms": {"field": "n"}}}], "size": 200}}}}}), &project, expected,
                     "F145", &|parts| format!("f145 {}", list(parts, |p| list(p, |d| format!("({}, {})", list(&d.tags, |t| key_coq(&Val::S(t.clone()))), matching(d))))));
        }
    }
}

/// histogram > top_hits over segments that flush the sub-aggregation buffer more than once (F146)
fn top_hits_stream(out: &mut CaseOut, rng: &mut Rng, thorough: bool) {
    let empty = xindex(&[]).expect("index build");
    for _ in 0..(if thorough { 8 } else { 2 }) {
        let k = rng.range(5, 50) as i64;
        let head = 2048 * rng.range(1, 2) as usize;
        let tail = rng.range(1, 300) as usize;
        let low = rng.range(1, k as u64) as i64;
        let mut docs: Vec<XDoc> = vec![];
        for i in 0..head + tail {
            let n = if i < head { (i as i64 * 7) % k } else { rng.below(low as u64) as i64 };
            docs.push(XDoc { grp: "a".into(), tags: vec!["t".into()], n, dt_ms: 0, jv: None, jc: None });
        }
        let mut partitions: Vec<Vec<Vec<XDoc>>> = vec![vec![docs.clone()]];
        partitions.push(vec![docs[..1024].to_vec(), docs[1024..2040].to_vec(), docs[2040..].to_vec()]);
        let cut = rng.range(100, 1900) as usize;
        partitions.push(vec![docs[..cut].to_vec(), docs[cut..].to_vec()]);
        let indexes: Vec<Index> = partitions.iter().map(|p| xindex(p).expect("index build")).collect();
        let split: Vec<Index> = partitions[1].iter().map(|p| xindex(std::slice::from_ref(p)).expect("index build")).collect();
        let size = rng.range(1, 2);
        let rjson = json!({"a0": {"histogram": {"field": "n", "interval": 1.0, "min_doc_count": 1}, "aggs": {"a0": {"top_hits": {"size": size, "sort": [{"n": "desc"}], "docvalue_fields": ["n"]}}}}});
        let aggs: Aggregations = match serde_json::from_value(rjson.clone()) { Ok(a) => a, Err(e) => { out.spec_checked(false, json!({"what": "harness: request JSON rejected", "error": e.to_string(), "request": rjson})); continue; } };
        let mut counts: std::collections::BTreeMap<i64, u64> = Default::default();
        for d in &docs { *counts.entry(d.n).or_default() += 1; }
        let expected = Value::Array(counts.iter().map(|(n, c)| json!([*n as f64, c, (*c).min(size), *n])).collect());
        let project = |v: &Value| -> Value { Value::Array(v["a0"]["buckets"].as_array().cloned().unwrap_or_default().iter().map(|b| {
            let hits = b["a0"]["hits"].as_array().cloned().unwrap_or_default();
            json!([b["key"].as_f64(), b["doc_count"].as_u64(), hits.len(), hits.first().map(|h| h["docvalue_fields"]["n"][0].clone()).unwrap_or(json!(b["key"].as_f64().map(|x| x as i64)))])
        }).collect()) };
        out.count("ext_histogram_top_hits", 1);
        let mut first_bad: Option<(String, usize, Value)> = None;
        for (label, pi, r) in xruns(&indexes, &split, &empty, &AllQuery, &aggs, rng) {
            let got = match &r { Ok(v) => project(v), Err(e) => json!({"failed": e}) };
            if got != expected && first_bad.is_none() { first_bad = Some((label, pi, got)); }
        }
        match first_bad {
            None => out.spec_checked(true, json!({})),
            Some((label, pi, got)) => {
                let parts = if pi == usize::MAX { &partitions[1] } else { &partitions[pi] };
                // bucket ids by first appearance, per segment, in collection order
                let ids = list(parts, |p| { let mut seen: Vec<i64> = vec![]; let mut idv: Vec<usize> = vec![];
                    for d in p { let i = match seen.iter().position(|x| *x == d.n) { Some(i) => i, None => { seen.push(d.n); seen.len() - 1 } }; idv.push(i); }
                    list(&idv, |i| format!("{}%N", i)) });
                let missing_hits = got.as_array().map_or(0, |a| a.iter().filter(|b| b[2] == json!(0)).count());
                out.count("ext_histogram_top_hits_known_F146", 1);
                out.coq_case("known:F146", format!("f146 AGG_FLUSH_THRESHOLD {}", ids),
                             json!({"what": "histogram > top_hits loses hits", "request": rjson, "run": label, "segments": parts.iter().map(|p| p.len()).collect::<Vec<_>>(),
                                    "docs": format!("{} documents: n = (i*7) mod {} for i < {}, then {} documents with n < {}", docs.len(), k, head, tail, low), "buckets_without_hits": missing_hits}), true);
            }
        }
    }
}

fn main() {
    let args = Args::parse();
    tvh::quiet_panics();
    let mut rng = Rng::new(args.seed);
    let thorough = args.thorough();
    let mut out = CaseOut::new(&args.out, HEADER, 24);

    let n_corpora = if thorough { 420 } else { 30 };
    let reqs_per_corpus = if thorough { 8 } else { 6 };
    let mut tie_dependent = 0u64;

    let n_keycut = if thorough { 60 } else { 6 };
    let n_sb = if thorough { 60 } else { 10 };
    let (_, fl0) = schema();
    let empty_index = Index::create_in_ram(schema().0);   // an index without any segment
    let _ = fl0;
    for ci in 0..n_corpora + n_keycut + n_sb {
        let keycut = ci >= n_corpora && ci < n_corpora + n_keycut;
        let sb = ci >= n_corpora + n_keycut;
        let profile = rng.below(12);
        let n_docs = match ci % 6 { 0 => rng.range(1, 4) as usize, 1 => rng.range(5, 12) as usize, _ => rng.range(10, if thorough { 60 } else { 36 }) as usize };
        let corpus = if keycut { let n = rng.range(90, 130) as usize; gen_keycut_corpus(&mut rng, n) }
                     else if sb { let n = *rng.pick(&[1usize, 2, 3, 5, 6, 6, 65, 66, 129]); gen_sb_corpus(&mut rng, n) }
                     else { gen_corpus(&mut rng, n_docs, profile) };
        // filtering query: all documents or grp == g
        let filter_g: Option<&str> = if keycut || sb { None } else { match ci % 3 { 0 => None, 1 => Some("a"), _ => Some("b") } };
        let matching = |d: &Doc| filter_g.map_or(true, |g| d.vals[5] == vec![Val::S(g.to_string())]);
        let (_, fl) = schema();
        let query: Box<dyn Query> = match filter_g {
            None => Box::new(AllQuery),
            Some(g) => Box::new(TermQuery::new(Term::from_field_text(fl.f[5], g), IndexRecordOption::Basic)),
        };
        // partitions: 1 segment, and random assignments into 2..6 parts
        let n_part = if thorough { 5 } else { 3 };
        let mut partitions: Vec<Vec<Vec<Doc>>> = vec![vec![corpus.clone()]];
        for pi in 0..n_part {
            let k = if pi == 0 || keycut { 2 } else { rng.range(2, 6) as usize };
            let mut parts: Vec<Vec<Doc>> = vec![vec![]; k];
            for d in &corpus { parts[rng.below(k as u64) as usize].push(d.clone()); }
            parts.retain(|p| !p.is_empty());
            partitions.push(parts);
        }
        if sb {
            // directed partitions: (1) segments of exactly one document (every document alone when <= 6 documents, else one
            // document split off: 64k + 1 documents remain in a segment for 65 / 129), (2) the documents without a value of
            // the sparse field in a segment of their own (the column is absent there)
            partitions.truncate(1);
            let singles: Vec<Vec<Doc>> = if corpus.len() <= 6 { corpus.iter().map(|d| vec![d.clone()]).collect() }
                                         else { vec![corpus[..1].to_vec(), corpus[1..].to_vec()] };
            partitions.push(singles);
            let (with, without): (Vec<Doc>, Vec<Doc>) = corpus.iter().cloned().partition(|d| !d.vals[3].is_empty());
            let mut by_col: Vec<Vec<Doc>> = vec![with, without];
            by_col.retain(|p| !p.is_empty());
            partitions.push(by_col);
        }
        let indexes: Vec<Index> = partitions.iter().map(|p| build_index(p).expect("index build")).collect();
        for (p, ix) in partitions.iter().zip(indexes.iter()) {
            let nseg = ix.searchable_segments().map(|s| s.len()).unwrap_or(0);
            out.spec_checked(nseg == p.len(), json!({"what": "harness: segment count differs from partition", "segments": nseg, "parts": p.len()}));
            out.count(&format!("segments_{}", p.len()), 1);
        }
        // separately searched indexes: the parts of the last partition, one index each
        let split_parts = partitions.last().unwrap().clone();
        let split_indexes: Vec<Index> = split_parts.iter().map(|p| build_index(std::slice::from_ref(p)).expect("index build")).collect();

        for _ in 0..(if keycut || sb { 3 } else { reqs_per_corpus }) {
            let n_top = *rng.pick(&[1usize, 1, 2, 3]);
            let rs: Vec<Req> = if keycut { out.count("key_ordered_terms_with_segment_cut", 1); vec![gen_keycut_req(&mut rng)] }
                               else if sb { out.count("single_document_batches_and_absent_columns", 1); gen_sb_req(&mut rng) }
                               else { (0..n_top).map(|_| gen_req(&mut rng, 2, profile % 3 == 2)).collect() };
            let rjson = subs_json(&rs);
            let aggs: Aggregations = match serde_json::from_value(rjson.clone()) {
                Ok(a) => a,
                Err(e) => { out.spec_checked(false, json!({"what": "harness: request JSON rejected", "error": e.to_string(), "request": rjson})); continue; }
            };
            let max_depth = rs.iter().map(depth).max().unwrap_or(0);
            out.count(&format!("request_depth_{}", max_depth), 1);
            let rs_coq = list(&rs, |r| req_coq(r));
            let docs_matching: Vec<&Doc> = corpus.iter().filter(|d| matching(d)).collect();
            let docs_coq = list(&docs_matching, |d| doc_coq(d));
            let desc = json!({"request": rjson, "docs": docs_matching.len(), "corpus": corpus.len(), "query": filter_g, "profile": profile, "coq_request": rs_coq, "coq_docs": docs_coq});
            let nontrivial = docs_matching.len() >= 2 && max_depth >= 2;
            let in_class = rs.iter().any(|r| in_f141(r, &docs_matching));
            if in_class {
                // known class F141: do not compare with `direct`; look for the symptom (the result depends on the partition)
                out.count("f141_class_inputs", 1);
                let mut seen: Vec<(String, Value, usize)> = vec![];
                for (parts, ix) in partitions.iter().zip(indexes.iter()) {
                    match run_final(ix, query.as_ref(), &aggs) {
                        Ok(v) => { let c = canon(&v); if !seen.iter().any(|(c2, _, _)| *c2 == c) { seen.push((c, v, parts.len())); } }
                        Err(e) => out.spec_checked(false, json!({"what": "aggregation failed on a valid request", "error": e, "case": desc})),
                    }
                }
                if seen.len() >= 2 {
                    out.count("f141_partition_dependent", 1);
                    out.coq_case("known:F141", format!("(let rs := {} in f141_top floor_pos rs {})", rs_coq, docs_coq),
                                 json!({"what": "result depends on the partition into segments", "case": desc,
                                        "segments_a": seen[0].2, "result_a": seen[0].1, "segments_b": seen[1].2, "result_b": seen[1].1}), true);
                }
                continue;
            }

            // ---- base: one segment
            let base = match run_final(&indexes[0], query.as_ref(), &aggs) {
                Ok(v) => v,
                Err(e) => { out.spec_checked(false, json!({"what": "aggregation failed on a valid request", "error": e, "case": desc})); continue; }
            };
            let base_c = canon(&base);
            let spec_case = |out: &mut CaseOut, v: &Value, what: &str, nontrivial: bool| {
                match obs_top(&rs, v) {
                    Ok(o) => { out.coq_case("spec", format!("(let rs := {} in match_top rs (direct_top floor_pos rs {}) {})", rs_coq, docs_coq, o),
                                            json!({"what": what, "case": desc, "impl": v}), nontrivial); }
                    Err(e) => out.spec_checked(false, json!({"what": "result JSON does not have the shape of the request", "error": e, "case": desc, "impl": v})),
                }
            };
            spec_case(&mut out, &base, "AggregationCollector (1 segment) vs direct", nontrivial);
            out.count("requests", 1);

            // ---- every partition into segments
            for (pi, (parts, ix)) in partitions.iter().zip(indexes.iter()).enumerate().skip(1) {
                let v = match run_final(ix, query.as_ref(), &aggs) {
                    Ok(v) => v,
                    Err(e) => { out.spec_checked(false, json!({"what": "aggregation failed on a partition", "error": e, "parts": parts.len(), "case": desc})); continue; }
                };
                out.count("partition_runs", 1);
                if pi == 1 {
                    // tie: model collect / merge_fruits / fin on this partition vs the implementation
                    let parts_coq = list(parts, |p| { let m: Vec<&Doc> = p.iter().filter(|d| matching(d)).collect(); list(&m, |d| doc_coq(d)) });
                    match obs_top(&rs, &v) {
                        Ok(o) => { out.coq_case("tie", format!("(let rs := {} in match_top rs (fin_top floor_pos rs (merge_fruits (map (collect_seg floor_pos rs) {}))) {})", rs_coq, parts_coq, o),
                                                json!({"what": "model collect/merge/finalize vs implementation", "parts": parts.len(), "case": desc, "impl": v}), nontrivial && parts.len() >= 2); }
                        Err(e) => out.spec_checked(false, json!({"what": "result JSON does not have the shape of the request", "error": e, "case": desc, "impl": v})),
                    }
                }
                if canon(&v) == base_c { out.spec_checked(true, json!({})); }
                else { tie_dependent += 1; spec_case(&mut out, &v, &format!("AggregationCollector ({} segments) vs direct", parts.len()), nontrivial); }
            }

            // ---- bucket limit: more buckets than the limit is an error, never a shortened result
            if rng.chance(1, 2) {
                let count: u64 = rs.iter().enumerate().map(|(i, r)| base.get(format!("a{i}")).map_or(0, |v| count_buckets(r, v))).sum();
                for limit in [count.saturating_sub(1), count, count + 1] {
                    let lctx = AggContextParams::new(AggregationLimitsGuard::new(None, Some(limit as u32)), Default::default());
                    let res = run_final_ctx(&indexes[0], query.as_ref(), &aggs, lctx);
                    out.count("bucket_limit_runs", 1);
                    match res {
                        Ok(v) => out.spec_checked(count <= limit && canon(&v) == base_c,
                                                  json!({"what": "bucket limit: result returned although it has more buckets than the limit, or it differs from the unlimited result", "limit": limit, "buckets": count, "case": desc, "impl": v})),
                        Err(e) => { out.count("bucket_limit_errors", 1);
                                    // a filter bucket checks the limit on its own sub-tree (FilterBucketResult: nested into_final_result), and it does so for
                                    // every bucket of its parent BEFORE the parent's size cut: an error although the final result fits is possible there.
                                    // The property only forbids the opposite (a shortened result instead of an error).
                                    fn has_filter(r: &Req) -> bool { match r { Req::Filter { .. } => true, Req::Metric { .. } => false,
                                        Req::Range { subs, .. } | Req::Histo { subs, .. } | Req::Terms { subs, .. } => subs.iter().any(has_filter) } }
                                    let conservative = count <= limit && rs.iter().any(has_filter);
                                    if conservative { out.count("bucket_limit_conservative_errors_below_filter", 1); }
                                    out.spec_checked((count > limit || conservative) && e.contains("imit"), json!({"what": "bucket limit: error although the result fits the limit", "limit": limit, "buckets": count, "error": e, "case": desc})) }
                    }
                }
            }

            // ---- separately searched indexes, merged in permuted / regrouped orders, postcard round trips
            let mut fruits = vec![];
            let mut ok = true;
            for ix in &split_indexes {
                match run_fruit(ix, query.as_ref(), &aggs) {
                    Ok(f) => fruits.push(f),
                    Err(e) => { ok = false; out.spec_checked(false, json!({"what": "distributed collection failed", "error": e, "case": desc})); break; }
                }
            }
            if !ok { continue; }
            // one of the separately searched indexes has no segment at all
            match run_fruit(&empty_index, query.as_ref(), &aggs) {
                Ok(f) => { let at = rng.below(fruits.len() as u64 + 1) as usize; fruits.insert(at, f); out.count("empty_index_fruits", 1); }
                Err(e) => out.spec_checked(false, json!({"what": "distributed collection failed on an index without segments", "error": e, "case": desc})),
            }
            // a round trip is the identity
            for f in &fruits {
                let same = roundtrip(f).map(|g| &g == f).unwrap_or(false);
                out.spec_checked(same, json!({"what": "postcard round trip changes an intermediate result", "case": desc}));
            }
            let n_orders = if thorough { 6 } else { 4 };
            for oi in 0..n_orders {
                let mut fs = fruits.clone();
                if oi > 0 { rng.shuffle(&mut fs); }
                let rt = oi % 2 == 1;
                let merged = match merge_shape(fs, oi as u64, rt, &mut rng) {
                    Ok(m) => m,
                    Err(e) => { out.spec_checked(false, json!({"what": "merge_fruits failed", "error": e, "order": oi, "case": desc})); continue; }
                };
                let fin = guarded(|| merged.into_final_result(aggs.clone(), AggregationLimitsGuard::default()));
                out.count("distributed_merge_orders", 1);
                match fin {
                    Ok(Ok(res)) => {
                        let v = serde_json::to_value(&res).unwrap();
                        if canon(&v) == base_c { out.spec_checked(true, json!({})); }
                        else { tie_dependent += 1; spec_case(&mut out, &v, &format!("distributed merge order {} (round trip {}) vs direct", oi, rt), nontrivial); }
                    }
                    Ok(Err(e)) => out.spec_checked(false, json!({"what": "into_final_result failed", "error": e.to_string(), "case": desc})),
                    Err(p) => out.spec_checked(false, json!({"what": "into_final_result panicked", "error": p, "case": desc})),
                }
            }
        }
    }
    // ---- dynamic columns, cardinality, composite (oracles on this side, classifiers in coq/Agg/Ext.v)
    ext_stream(&mut out, &mut rng, thorough);
    top_hits_stream(&mut out, &mut rng, thorough);

    // ---- fractional intervals / offsets / values (fused terms x histogram path and the general path)
    frac_stream(&mut out, &mut rng, thorough);

    // ---- terms whose segments cut their term lists (segment_size small): the partial statement
    let n_cut = if thorough { 120 } else { 30 };
    for ci in 0..n_cut {
        let n_docs = rng.range(8, 40) as usize;
        let corpus = gen_corpus(&mut rng, n_docs, 3 + 4 * (ci % 3)); // pools of 60 strings / wide numbers
        let k = rng.range(2, 5) as usize;
        let mut parts: Vec<Vec<Doc>> = vec![vec![]; k];
        for d in &corpus { parts[rng.below(k as u64) as usize].push(d.clone()); }
        parts.retain(|p| !p.is_empty());
        let ix = build_index(&parts).expect("index build");
        let size = rng.range(1, 3) as u32;
        let r = Req::Terms { field: *rng.pick(&[2usize, 2, 0, 1]), size, seg_size: Some(size + rng.range(0, 3) as u32), mdc: 1, order: TOrd::Count(true), missing: None, subs: vec![] };
        let rs = vec![r.clone()];
        let aggs: Aggregations = serde_json::from_value(subs_json(&rs)).expect("terms request");
        let docs: Vec<&Doc> = corpus.iter().collect();
        let desc = json!({"request": subs_json(&rs), "docs": docs.len(), "segments": parts.len(), "coq_request": list(&rs, |r| req_coq(r)), "coq_docs": list(&docs, |d| doc_coq(d))});
        match run_final(&ix, &AllQuery, &aggs) {
            Ok(v) => match obs_of(&r, &v["a0"]) {
                Ok(o) => { out.coq_case("spec", format!("match_partial floor_pos ({}) {} ({})", req_coq(&r), list(&docs, |d| doc_coq(d)), o),
                                        json!({"what": "terms with per-segment cut: counts within doc_count_error_upper_bound, nothing lost", "case": desc, "impl": v}), parts.len() >= 2);
                           out.count("terms_segment_cut_cases", 1); }
                Err(e) => out.spec_checked(false, json!({"what": "result JSON does not have the shape of the request", "error": e, "case": desc, "impl": v})),
            },
            Err(e) => out.spec_checked(false, json!({"what": "aggregation failed on a valid request", "error": e, "case": desc})),
        }
    }

    // ---- corpus witness of F141 (findings/C14-duplicate-doc-push.md), replayed on the implementation
    {
        let a = Doc { vals: vec![vec![Val::I(1), Val::I(2)], vec![], vec![Val::S("x".into())], vec![], vec![], vec![Val::S("a".into())]] };
        let b = Doc { vals: vec![vec![], vec![], vec![Val::S("y".into()), Val::S("z".into())], vec![], vec![], vec![Val::S("a".into())]] };
        let rs = vec![Req::Range { field: 0, cuts: vec![0], style: 0, subs: vec![Req::Terms { field: 2, size: 10, seg_size: Some(5000), mdc: 1, order: TOrd::Key(false), missing: None, subs: vec![] }] }];
        let aggs: Aggregations = serde_json::from_value(subs_json(&rs)).expect("witness request");
        let one = build_index(&[vec![a.clone(), b.clone()]]).expect("index");
        let two = build_index(&[vec![a.clone()], vec![b.clone()]]).expect("index");
        let (r1, r2) = (run_final(&one, &AllQuery, &aggs), run_final(&two, &AllQuery, &aggs));
        match (r1, r2) {
            (Ok(v1), Ok(v2)) => {
                if canon(&v1) != canon(&v2) {
                    out.coq_case("known:F141", format!("(let rs := {} in f141_top floor_pos rs {})", list(&rs, |r| req_coq(r)), list(&[&a, &b], |d| doc_coq(d))),
                                 json!({"what": "corpus witness: range over a two-valued field above terms; one segment vs two segments", "one_segment": v1, "two_segments": v2}), true);
                } else {
                    // repaired: the witness must then agree with `direct`
                    match obs_top(&rs, &v1) {
                        Ok(o) => { out.coq_case("spec", format!("(let rs := {} in match_top rs (direct_top floor_pos rs {}) {})", list(&rs, |r| req_coq(r)), list(&[&a, &b], |d| doc_coq(d)), o),
                                                json!({"what": "F141 witness vs direct", "impl": v1}), true); }
                        Err(e) => out.spec_checked(false, json!({"what": "witness result shape", "error": e})),
                    }
                }
            }
            (e1, e2) => out.spec_checked(false, json!({"what": "witness run failed", "one": format!("{:?}", e1.err()), "two": format!("{:?}", e2.err())})),
        }
    }
    out.count("results_differing_from_single_segment_json", tie_dependent);
    out.finish(json!({"tier": args.tier, "seed": args.seed}));
}
