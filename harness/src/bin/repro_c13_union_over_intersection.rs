//! Replay of the Coq witness `union_over_intersection_refuted` (coq/DocSet/UnionWitness.v) on the implementation:
//! `+a +((+x +y) z)` -- a BufferedUnionScorer whose child is an Intersection, driven through seek_danger by the
//! enclosing Intersection, delivers a document that is in no child of the union.
//! Leaves are sorted vectors driven by the default methods of the DocSet trait.
use std::sync::Arc;

use tantivy::collector::DocSetCollector;
use tantivy::query::{BooleanQuery, EnableScoring, Explanation, Occur, Query, Scorer, Weight};
use tantivy::schema::{Schema, INDEXED};
use tantivy::{doc, DocId, DocSet, Index, IndexWriter, Score, SegmentReader, TERMINATED};

#[derive(Clone)]
struct VecDs { docs: Arc<Vec<u32>>, cursor: usize }
impl DocSet for VecDs {
    fn advance(&mut self) -> DocId {
        self.cursor += 1;
        if self.cursor >= self.docs.len() { self.cursor = self.docs.len(); return TERMINATED; }
        self.docs[self.cursor]
    }
    fn doc(&self) -> DocId { if self.cursor == self.docs.len() { TERMINATED } else { self.docs[self.cursor] } }
    fn size_hint(&self) -> u32 { self.docs.len() as u32 }
}
impl Scorer for VecDs { fn score(&mut self) -> Score { 1.0 } }
#[derive(Clone, Debug)]
struct VecQuery { docs: Arc<Vec<u32>> }
struct VecWeight { docs: Arc<Vec<u32>> }
impl Query for VecQuery {
    fn weight(&self, _e: EnableScoring<'_>) -> tantivy::Result<Box<dyn Weight>> { Ok(Box::new(VecWeight { docs: self.docs.clone() })) }
}
impl Weight for VecWeight {
    fn scorer(&self, _r: &SegmentReader, _boost: Score) -> tantivy::Result<Box<dyn Scorer>> {
        Ok(Box::new(VecDs { docs: self.docs.clone(), cursor: 0 }))
    }
    fn explain(&self, _r: &SegmentReader, _d: DocId) -> tantivy::Result<Explanation> { Ok(Explanation::new("leaf", 1.0)) }
}
fn leaf(v: &[u32]) -> Box<dyn Query> { Box::new(VecQuery { docs: Arc::new(v.to_vec()) }) }

fn main() {
    let mut sb = Schema::builder();
    let f = sb.add_u64_field("n", INDEXED);
    let index = Index::create_in_ram(sb.build());
    let mut w: IndexWriter = index.writer_with_num_threads(1, 30_000_000).unwrap();
    for d in 0..60_000u32 { w.add_document(doc!(f => d as u64)).unwrap(); }
    w.commit().unwrap();
    let searcher = index.reader().unwrap().searcher();
    assert_eq!(searcher.segment_readers().len(), 1);

    let a = [1u32, 10000, 10005];
    let x = [1u32, 9000, 10005];
    let y = [1u32, 9000, 50000, 50001];
    let z = [2u32, 10000];
    let expected: Vec<u32> = vec![1, 10000]; // a /\ ((x /\ y) \/ z)

    let xy: Box<dyn Query> = Box::new(BooleanQuery::new(vec![(Occur::Must, leaf(&x)), (Occur::Must, leaf(&y))]));
    let un: Box<dyn Query> = Box::new(BooleanQuery::new(vec![(Occur::Should, xy), (Occur::Should, leaf(&z))]));
    let q = BooleanQuery::new(vec![(Occur::Must, leaf(&a)), (Occur::Must, un)]);

    let mut bad = false;
    for scoring in [false, true] {
        let weight = if scoring { q.weight(EnableScoring::enabled_from_searcher(&searcher)) } else { q.weight(EnableScoring::disabled_from_searcher(&searcher)) }.unwrap();
        let mut sc = weight.scorer(searcher.segment_reader(0), 1.0).unwrap();
        let mut got = vec![];
        let mut d = sc.doc();
        while d != TERMINATED { got.push(d); d = sc.advance(); }
        println!("scoring={scoring}: advance walk = {got:?}   expected {expected:?}");
        if got != expected { bad = true; }
    }
    let hits = searcher.search(&q, &DocSetCollector).unwrap();
    let mut ids: Vec<u32> = hits.iter().map(|a| a.doc_id).collect();
    ids.sort();
    println!("search(DocSetCollector) = {ids:?}   expected {expected:?}");
    if ids != expected { bad = true; }
    std::process::exit(if bad { 1 } else { 0 });
}
