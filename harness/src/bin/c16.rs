//! C16 correspondence: the query grammar and QueryParser.
//!  (a) generated concrete queries (abstract query + layout) printed to text -> strict/lenient grammar
//!      entry points; the UserInputAst is rendered by a structural visitor and compared in Coq with
//!      parse_ref (tie) and with norm_top of the generating query (spec);
//!  (b) QueryParser::parse_query on a typed schema -> Count on a generated corpus vs the boolean
//!      semantics of the generating query evaluated in Coq (spec);
//!  (c) long operator chains (aggregate_infallible_expressions is private: reached by parsing);
//!  (d) totality stream: random UTF-8, mutations, unbalanced quotes/brackets, deep nesting, long inputs
//!      into both grammar entry points and both QueryParser entry points.
use std::fmt::Write as _;

use serde_json::json;
use tantivy::collector::Count;
use tantivy::query::QueryParser;
use tantivy::schema::{IndexRecordOption, Schema, TextFieldIndexing, TextOptions, FAST, INDEXED, STORED, STRING, TEXT};
use tantivy::tokenizer::{LowerCaser, SimpleTokenizer, StopWordFilter, TextAnalyzer};
use tantivy::{doc, Index};
use tantivy_query_grammar::{parse_query, parse_query_lenient, Delimiter, Occur, UserInputAst, UserInputBound, UserInputLeaf};
use tvh::coqfmt as cf;
use tvh::out::CaseOut;
use tvh::rng::Rng;
use tvh::{guarded, Args};

const HEADER: &str = "From TV Require Import Base.Prelude Text.BinOpFold Text.Grammar Text.Logical Text.GrammarProofs Generated.Constants.";

// ------------------------------------------------------------------ Gallina printers
fn cstr(s: &str) -> String {
    let v: Vec<u32> = s.chars().map(|c| c as u32).collect();
    cf::ns(&v)
}
fn copt<T>(o: &Option<T>, f: impl Fn(&T) -> String) -> String {
    match o { Some(x) => format!("(Some {})", f(x)), None => "None".into() }
}
fn coccur(o: &Option<Occur>) -> String {
    match o { None => "None".into(), Some(Occur::Must) => "(Some Must)".into(), Some(Occur::Should) => "(Some Should)".into(), Some(Occur::MustNot) => "(Some MustNot)".into() }
}
fn cbound(b: &UserInputBound) -> String {
    match b { UserInputBound::Inclusive(s) => format!("(BIncl {})", cstr(s)), UserInputBound::Exclusive(s) => format!("(BExcl {})", cstr(s)), UserInputBound::Unbounded => "BUnb".into() }
}
/// f64 written by Display -> (mantissa, number of fraction digits); None if not a short plain decimal
fn boost_pair(b: f64) -> Option<(u128, u32)> {
    if !b.is_finite() || b < 0.0 { return None; }
    let s = format!("{}", b);
    let (ip, fp) = match s.split_once('.') { Some((a, b)) => (a.to_string(), b.to_string()), None => (s.clone(), String::new()) };
    if ip.len() + fp.len() > 30 || !ip.chars().all(|c| c.is_ascii_digit()) || !fp.chars().all(|c| c.is_ascii_digit()) { return None; }
    let fp = fp.trim_end_matches('0').to_string();
    let m: u128 = format!("{}{}", ip, fp).parse().ok()?;
    Some((m, fp.len() as u32))
}
/// structural rendering of a UserInputAst as a Gallina term of type `uast`; None if a boost cannot be rendered
fn cast(a: &UserInputAst) -> Option<String> {
    Some(match a {
        UserInputAst::Clause(cs) => {
            let mut parts = vec![];
            for (o, x) in cs { parts.push(format!("({}, {})", coccur(o), cast(x)?)); }
            format!("(Clause [{}])", parts.join(";"))
        }
        UserInputAst::Boost(x, b) => { let (m, e) = boost_pair(b.into_inner())?; format!("(Boost {} ({}, {}))", cast(x)?, m, e) }
        UserInputAst::Leaf(l) => format!("(Leaf {})", match &**l {
            UserInputLeaf::Literal(l) => format!("(LLit {} {} {} {} {})", copt(&l.field_name, |s| cstr(s)), cstr(&l.phrase),
                match l.delimiter { Delimiter::None => "DNone", Delimiter::SingleQuotes => "DSingle", Delimiter::DoubleQuotes => "DDouble" }, l.slop, cf::boolean(l.prefix)),
            UserInputLeaf::All => "LAll".into(),
            UserInputLeaf::Range { field, lower, upper } => format!("(LRange {} {} {})", copt(field, |s| cstr(s)), cbound(lower), cbound(upper)),
            UserInputLeaf::Set { field, elements } => format!("(LSet {} {})", copt(field, |s| cstr(s)), cf::list(elements, |s| cstr(s))),
            UserInputLeaf::Exists { field } => format!("(LExists {})", cstr(field)),
            UserInputLeaf::Regex { field, pattern } => format!("(LRegex {} {})", copt(field, |s| cstr(s)), cstr(pattern)),
        }),
    })
}

// ------------------------------------------------------------------ concrete queries (mirror of Grammar.v cq)
#[derive(Clone, Debug)]
enum SElem { Word(String), Quoted(bool, String) } // bool: double quotes
#[derive(Clone, Debug)]
enum Slop { None, Slop(String), Prefix }
#[derive(Clone, Debug)]
enum CLeaf {
    Word(String),
    Neg(String, Option<String>),
    Phrase(bool, String, Slop),
    Range(bool, String, Option<String>, String, String, Option<String>, String, bool),
    Cmp(u8, String, String),
    Set(String, Vec<(String, SElem)>),
    Exists,
}
#[derive(Clone, Debug)]
enum Cq {
    Lit(Option<(String, String)>, CLeaf),
    All,
    Paren(Box<Cq>),
    Group(String, String, String, Box<Cq>),
    Boost(Box<Cq>, String, Option<String>),
    Not(String, Box<Cq>),
    Seq(String, Option<Occur>, Box<Cq>, Vec<(String, Option<bool>, String, Option<Occur>, Cq)>, String), // Some(true)=AND
}
fn occ_str(o: &Option<Occur>) -> &'static str { match o { Some(Occur::Must) => "+", Some(Occur::MustNot) => "-", _ => "" } }
fn q(d: bool) -> char { if d { '"' } else { '\'' } }
impl SElem {
    fn text(&self) -> String { match self { SElem::Word(w) => w.clone(), SElem::Quoted(d, b) => format!("{}{}{}", q(*d), b, q(*d)) } }
    fn coq(&self) -> String { match self { SElem::Word(w) => format!("(SEWord {})", cstr(w)), SElem::Quoted(d, b) => format!("(SEQuoted {} {})", if *d { "QD" } else { "QS" }, cstr(b)) } }
}
impl CLeaf {
    fn text(&self) -> String {
        match self {
            CLeaf::Word(w) => w.clone(),
            CLeaf::Neg(i, f) => format!("-{}{}", i, f.as_ref().map(|f| format!(".{f}")).unwrap_or_default()),
            CLeaf::Phrase(d, b, sp) => format!("{}{}{}{}", q(*d), b, q(*d), match sp { Slop::None => String::new(), Slop::Slop(n) => format!("~{n}"), Slop::Prefix => "*".into() }),
            CLeaf::Range(li, w1, lo, w2, w3, hi, w4, hi_i) => format!("{}{}{}{}TO{}{}{}{}", if *li { '[' } else { '{' }, w1, lo.clone().unwrap_or("*".into()), w2, w3, hi.clone().unwrap_or("*".into()), w4, if *hi_i { ']' } else { '}' }),
            CLeaf::Cmp(op, w, v) => format!("{}{}{}", [">=", "<=", "<", ">"][*op as usize], w, v),
            CLeaf::Set(w1, es) => { let mut s = format!("IN{}[", w1); for (w, e) in es { s.push_str(w); s.push_str(&e.text()); } s.push(']'); s }
            CLeaf::Exists => "*".into(),
        }
    }
    fn coq(&self) -> String {
        let ob = |o: &Option<String>| copt(o, |s| cstr(s));
        match self {
            CLeaf::Word(w) => format!("(CWord {})", cstr(w)),
            CLeaf::Neg(i, f) => format!("(CNeg {} {})", cstr(i), ob(f)),
            CLeaf::Phrase(d, b, sp) => format!("(CPhrase {} {} {})", if *d { "QD" } else { "QS" }, cstr(b), match sp { Slop::None => "SNone".into(), Slop::Slop(n) => format!("(SSlop {})", cstr(n)), Slop::Prefix => "SPrefix".to_string() }),
            CLeaf::Range(li, w1, lo, w2, w3, hi, w4, hi_i) => format!("(CRange {} {} {} {} {} {} {} {})", cf::boolean(*li), cstr(w1), ob(lo), cstr(w2), cstr(w3), ob(hi), cstr(w4), cf::boolean(*hi_i)),
            CLeaf::Cmp(op, w, v) => format!("(CCmp {} {} {})", ["CGe", "CLe", "CLt", "CGt"][*op as usize], cstr(w), cstr(v)),
            CLeaf::Set(w1, es) => format!("(CSet {} {})", cstr(w1), cf::list(es, |(w, e)| format!("({}, {})", cstr(w), e.coq()))),
            CLeaf::Exists => "CExists".into(),
        }
    }
}
impl Cq {
    fn text(&self) -> String {
        match self {
            Cq::Lit(f, l) => format!("{}{}", f.as_ref().map(|(n, w)| format!("{n}:{w}")).unwrap_or_default(), l.text()),
            Cq::All => "*".into(),
            Cq::Paren(x) => format!("({})", x.text()),
            Cq::Group(f, w1, w2, x) => format!("{f}:{w1}({w2}{})", x.text()),
            Cq::Boost(x, i, f) => format!("{}^{}{}", x.text(), i, f.as_ref().map(|f| format!(".{f}")).unwrap_or_default()),
            Cq::Not(w, x) => format!("NOT{}{}", w, x.text()),
            Cq::Seq(lead, o1, x1, rest, trail) => {
                let mut s = format!("{}{}{}", lead, occ_str(o1), x1.text());
                for (sep, op, w, o, x) in rest {
                    let _ = write!(s, "{}{}{}{}{}", sep, match op { Some(true) => "AND ", Some(false) => "OR ", None => "" }, w, occ_str(o), x.text());
                }
                s.push_str(trail);
                s
            }
        }
    }
    fn coq(&self) -> String {
        match self {
            Cq::Lit(f, l) => format!("(CLit {} {})", copt(f, |(n, w)| format!("({}, {})", cstr(n), cstr(w))), l.coq()),
            Cq::All => "CAllQ".into(),
            Cq::Paren(x) => format!("(CParen {})", x.coq()),
            Cq::Group(f, w1, w2, x) => format!("(CGroup {} {} {} {})", cstr(f), cstr(w1), cstr(w2), x.coq()),
            Cq::Boost(x, i, f) => format!("(CBoost {} {} {})", x.coq(), cstr(i), copt(f, |s| cstr(s))),
            Cq::Not(w, x) => format!("(CNot {} {})", cstr(w), x.coq()),
            Cq::Seq(lead, o1, x1, rest, trail) => format!("(CSeq {} {} {} {} {})", cstr(lead), coccur(o1), x1.coq(),
                cf::list(rest, |(sep, op, w, o, x)| format!("({}, {}, {}, {}, {})", cstr(sep), match op { Some(true) => "Some And", Some(false) => "Some Or", None => "None" }, cstr(w), coccur(o), x.coq())), cstr(trail)),
        }
    }
    fn depth(&self) -> usize {
        match self {
            Cq::Lit(..) | Cq::All => 1,
            Cq::Paren(x) | Cq::Group(_, _, _, x) | Cq::Boost(x, _, _) | Cq::Not(_, x) => 1 + x.depth(),
            Cq::Seq(_, _, x1, rest, _) => 1 + rest.iter().map(|r| r.4.depth()).chain(std::iter::once(x1.depth())).max().unwrap(),
        }
    }
}

fn ends_with_cmp(c: &Cq) -> bool { match c { Cq::Lit(_, CLeaf::Cmp(..)) => true, Cq::Not(_, x) => ends_with_cmp(x), _ => false } }
// ------------------------------------------------------------------ generators
#[derive(Clone, Copy, PartialEq)]
enum Mode { Grammar, Frag, Typed, Phrase }
struct Gen<'a> { rng: &'a mut Rng, mode: Mode, loose_sep: bool }
const WORDS: &[&str] = &["a", "b", "c", "d", "e", "foo", "bar", "baz", "x1", "y2", "hello", "world", "ANDy", "ORx", "NOTE", "INK", "a-b", "a+b", "w*", "t~2", "é", "日本", "a.b", "x!y", "TO", "q=1", "z,"];
const VOCAB: &[&str] = &["a", "b", "c", "d", "e", "foo", "bar", "baz"];
const FIELDS: &[&str] = &["title", "body", "f", "a.b", "x_y", "IN", "NOT", "AND", "f-g", "é"];
impl<'a> Gen<'a> {
    fn ws0(&mut self) -> String { let n = *self.rng.pick(&[0usize, 0, 0, 1, 1, 2, 3]); self.ws(n, false) }
    fn ws1(&mut self) -> String { let n = *self.rng.pick(&[1usize, 1, 1, 2, 3]); self.ws(n, false) }
    fn sep(&mut self) -> String {
        let n = *self.rng.pick(&[1usize, 1, 1, 2, 3, 4]);
        if self.loose_sep { let s = self.ws(n, true); return s; }
        let mut s = self.ws(n, false);
        if !s.contains(' ') { let k = self.rng.below(s.len() as u64 + 1) as usize; s.insert(k, ' '); }
        s
    }
    fn ws(&mut self, n: usize, no_space: bool) -> String {
        (0..n).map(|_| if no_space { *self.rng.pick(&['\t', '\n', '\r']) } else { *self.rng.pick(&[' ', ' ', ' ', '\t', '\n', '\r']) }).collect()
    }
    fn digits(&mut self, maxlen: u64) -> String { let n = self.rng.range(1, maxlen); (0..n).map(|_| (b'0' + self.rng.below(10) as u8) as char).collect() }
    fn word(&mut self) -> String {
        if self.mode == Mode::Typed { return self.rng.pick(VOCAB).to_string(); }
        if self.rng.chance(1, 6) {
            // random word over a wide alphabet, filtered by the wf_word rule
            loop {
                let n = self.rng.range(1, 6);
                let w: String = (0..n).map(|_| *self.rng.pick(&['a', 'Z', '0', '9', '-', '+', '*', '~', '.', ',', '!', '<', '>', '/', '=', '_', '@', '#', '$', '%', '&', ';', '?', '|', 'é', 'ß', '日', '\u{1F600}'])).collect();
                let c0 = w.chars().next().unwrap();
                if "-+*<>/".contains(c0) || ["AND", "OR", "NOT", "IN"].contains(&w.as_str()) { continue; }
                return w;
            }
        }
        self.rng.pick(WORDS).to_string()
    }
    fn body(&mut self, dq: bool) -> String {
        let n = if self.mode == Mode::Typed { self.rng.range(1, 3) } else { self.rng.range(0, 4) };
        let toks: Vec<String> = (0..n).map(|_| if self.mode == Mode::Typed { self.rng.pick(VOCAB).to_string() } else {
            match self.rng.below(6) { 0 => "AND".into(), 1 => if dq { "it's".into() } else { "say \"x\"".into() }, 2 => "(x) [y] {z} a:b ^2 ~1 *".into(), _ => self.word() } }).collect();
        if self.mode == Mode::Typed { toks.join(" ") } else { toks.join(*self.rng.pick(&[" ", "  ", "\t"])) }
    }
    fn field(&mut self) -> Option<(String, String)> { self.field_p(false) }
    fn field_p(&mut self, force: bool) -> Option<(String, String)> {
        if !force && self.rng.chance(1, 2) { return None; }
        let n = if self.mode == Mode::Typed { self.rng.pick(&["title", "body"]).to_string() } else { self.rng.pick(FIELDS).to_string() };
        Some((n, if self.mode == Mode::Frag || self.rng.chance(3, 4) { String::new() } else { self.ws1() }))
    }
    fn bound(&mut self) -> Option<String> {
        match self.rng.below(6) { 0 => None, 1 => Some(format!("-{}", self.digits(3))), 2 => Some(self.digits(4)), 3 => Some("2020-01-01T00:00:00Z".into()), 4 => Some(format!("{}.{}", self.digits(2), self.digits(2))), _ => Some(self.rng.pick(&["a", "abc", "x:y", "a^2", "w*", "TO", "é"]).to_string()) }
    }
    fn leaf(&mut self) -> Cq {
        if self.mode == Mode::Phrase { let dq = self.rng.chance(1, 2); let b = self.body(dq); return Cq::Lit(None, CLeaf::Phrase(dq, b, Slop::None)); }
        let k = match self.mode { Mode::Frag | Mode::Typed | Mode::Phrase => self.rng.below(3), Mode::Grammar => self.rng.below(10) };
        match k {
            0 | 1 | 7 => { let f = self.field(); Cq::Lit(f, CLeaf::Word(self.word())) }
            2 => {
                let dq = self.rng.chance(2, 3);
                let b = self.body(dq);
                let sp = match self.rng.below(if self.mode == Mode::Typed { 3 } else { 5 }) { 0 | 1 | 2 => Slop::None, 3 => Slop::Slop(if self.rng.chance(1, 8) { "4294967295".into() } else { self.digits(2) }), _ => Slop::Prefix };
                let f = self.field();
                Cq::Lit(f, CLeaf::Phrase(dq, b, sp))
            }
            3 => { let f = self.field_p(true); let i = self.digits(3); let fr = if self.rng.chance(1, 3) { Some(self.digits(2)) } else { None }; Cq::Lit(f, CLeaf::Neg(i, fr)) }
            4 => {
                let f = self.field_p(true);
                let (lo, hi) = (self.bound(), self.bound());
                let (w1, w2, w3, w4) = (self.ws0(), self.ws1(), self.ws1(), self.ws0());
                Cq::Lit(f, CLeaf::Range(self.rng.chance(1, 2), w1, lo, w2, w3, hi, w4, self.rng.chance(1, 2)))
            }
            5 => { let f = self.field_p(true); let v = loop { if let Some(b) = self.bound() { if !b.starts_with('-') { break b; } } }; let w = self.ws0(); Cq::Lit(f, CLeaf::Cmp(self.rng.below(4) as u8, w, v)) }
            6 => {
                let f = self.field_p(true);
                let n = self.rng.range(0, 4);
                let mut es = vec![];
                for i in 0..n {
                    let w = if i == 0 { self.ws0() } else { self.ws1() };
                    let e = if self.rng.chance(1, 3) { let dq = self.rng.chance(1, 2); SElem::Quoted(dq, self.body(dq)) } else { SElem::Word(self.word()) };
                    es.push((w, e));
                }
                let w1 = self.ws1();
                Cq::Lit(f, CLeaf::Set(w1, es))
            }
            8 => Cq::Lit(Some((self.rng.pick(FIELDS).to_string(), if self.rng.chance(3, 4) { String::new() } else { self.ws1() })), CLeaf::Exists),
            _ => Cq::All,
        }
    }
    /// a `leaf` of the grammar: literal, parenthesised query, group, NOT leaf
    fn leafish(&mut self, depth: u32) -> Cq {
        let r = self.rng.below(10);
        if depth == 0 || r < 6 { return self.leaf(); }
        match r {
            6 | 7 => Cq::Paren(Box::new(self.seq(depth - 1))),
            8 if self.mode == Mode::Grammar => { let (w1, w2) = (self.ws0(), self.ws0()); Cq::Group(self.rng.pick(FIELDS).to_string(), w1, w2, Box::new(self.seq(depth - 1))) }
            9 if self.mode == Mode::Grammar => { let w = self.ws1(); Cq::Not(w, Box::new(self.leafish(depth - 1))) }
            _ => Cq::Paren(Box::new(self.seq(depth - 1))),
        }
    }
    fn atom(&mut self, depth: u32) -> Cq {
        let l = self.leafish(depth);
        if self.mode == Mode::Grammar && self.rng.chance(1, 6) && !ends_with_cmp(&l) {
            let i = if self.rng.chance(1, 4) { "1".to_string() } else { self.digits(2) };
            let f = match self.rng.below(4) { 0 => Some("0".to_string()), 1 => Some(format!("{}0", self.digits(2))), 2 => Some(self.digits(3)), _ => None };
            Cq::Boost(Box::new(l), i, f)
        } else { l }
    }
    fn occ(&mut self) -> Option<Occur> { match self.rng.below(5) { 0 => Some(Occur::Must), 1 => Some(Occur::MustNot), _ => None } }
    /// style: 0 = implicit list with + / -, 1 = pure operator chain, 2 = mixed (outside the documented grammar)
    fn seq_style(&mut self, depth: u32, style: u64, n: u64) -> Cq {
        let lead = self.ws0();
        let o1 = if style == 1 { None } else { self.occ() };
        let x1 = self.atom(depth);
        let mut rest = vec![];
        for _ in 0..n {
            let sep = self.sep();
            let op = match style { 0 => None, 1 => Some(self.rng.chance(1, 2)), _ => match self.rng.below(3) { 0 => None, 1 => Some(true), _ => Some(false) } };
            let w = if op.is_some() { self.ws0() } else { String::new() };
            let o = if style == 1 { None } else { self.occ() };
            rest.push((sep, op, w, o, self.atom(depth)));
        }
        let trail = self.ws0();
        Cq::Seq(lead, o1, Box::new(x1), rest, trail)
    }
    fn seq(&mut self, depth: u32) -> Cq {
        let style = match self.rng.below(8) { 0..=2 => 0, 3..=5 => 1, _ => if self.mode == Mode::Typed { 1 } else { 2 } };
        let n = *self.rng.pick(&[0u64, 1, 1, 2, 2, 3, 4, 6]);
        self.seq_style(depth, style, n)
    }
}

include!("../c16_main.rs");
