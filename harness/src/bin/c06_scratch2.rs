//! scratch: simulate per-segment collection (TopNHeap replica / TopNComputer) + merge_top_k replica
use std::cmp::{Ordering, Reverse};
use std::collections::BinaryHeap;
use tantivy::collector::{TopNComputer, sort_key::NaturalComparator};
use tvh::rng::Rng;
#[derive(Clone, Copy, Debug)]
struct E { score: u32, doc: u32 }
impl Eq for E {}
impl PartialEq for E { fn eq(&self, o: &Self) -> bool { self.cmp(o) == Ordering::Equal } }
impl PartialOrd for E { fn partial_cmp(&self, o: &Self) -> Option<Ordering> { Some(self.cmp(o)) } }
impl Ord for E { fn cmp(&self, o: &Self) -> Ordering { self.score.cmp(&o.score).then_with(|| o.doc.cmp(&self.doc)) } }
struct H { heap: BinaryHeap<Reverse<E>>, n: usize, thr: Option<u32> }
impl H {
  fn push(&mut self, score: u32, doc: u32) {
    if self.heap.len() < self.n { self.heap.push(Reverse(E{score,doc})); if self.heap.len()==self.n { self.thr = self.heap.peek().map(|Reverse(e)| e.score);} }
    else if let Some(t) = self.thr { if score > t { if let Some(mut m) = self.heap.peek_mut() { *m = Reverse(E{score,doc}); } self.thr = self.heap.peek().map(|Reverse(e)| e.score);} }
  }
}
fn main() {
  let mut rng = Rng::new(5);
  for mode in 0..2 {
  let mut bad = 0u64; let trials = 2000;
  for trial in 0..trials {
    let k = if mode == 0 { rng.range(2, 7) as usize } else { rng.range(9, 13) as usize };
    let nseg = rng.range(2, 4);
    let mut segkeys: Vec<Vec<u32>> = vec![]; let mut fruits: Vec<(u32,(u32,u32))> = vec![]; let mut all: Vec<(u32,(u32,u32))> = vec![];
    for s in 0..nseg {
      let nd = if rng.chance(1,3) { rng.range(1, 4) } else { rng.range(3, if mode==0 {14} else {40}) } as u32;
      let keys: Vec<u32> = (0..nd).map(|_| rng.below(3) as u32).collect();
      segkeys.push(keys.clone()); for (d,kk) in keys.iter().enumerate() { all.push((*kk,(s as u32,d as u32))); }
      if mode == 0 {
        let mut h = H{heap: BinaryHeap::with_capacity(k), n:k, thr:None};
        for (d,kk) in keys.iter().enumerate() { h.push(*kk, d as u32); }
        for Reverse(e) in h.heap.into_vec() { fruits.push((e.score,(s as u32,e.doc))); }
      } else {
        let mut t: TopNComputer<u32,u32,NaturalComparator> = TopNComputer::new_with_comparator(k, NaturalComparator);
        for (d,kk) in keys.iter().enumerate() { t.push(*kk, d as u32); }
        for c in t.into_vec() { fruits.push((c.sort_key,(s as u32,c.doc))); }
      }
    }
    let mut m: TopNComputer<u32,(u32,u32),NaturalComparator> = TopNComputer::new_with_comparator(k, NaturalComparator);
    for (kk,a) in &fruits { m.push(*kk, *a); }
    let got: Vec<(u32,(u32,u32))> = m.into_sorted_vec().into_iter().map(|c| (c.sort_key,c.doc)).collect();
    all.sort_by(|a,b| b.0.cmp(&a.0).then(a.1.cmp(&b.1))); all.truncate(k);
    if got != all { bad += 1; if bad <= 2 { println!("segkeys {:?}", segkeys); println!("mode {mode} trial {trial} k {k}\n fruits {:?}\n got {:?}\n exp {:?}", fruits, got, all); } }
  }
  println!("mode {mode}: {bad}/{trials} mismatches");
  }
}
