//! C05 correspondence: reader threads (one on a second Index instance) reload and search while a
//! writer commits, merges, garbage-collects, rolls back and restarts; the storage log is mapped to
//! the events of coq/Storage/ReaderGC.v and checked by the proved discipline inside Coq; every
//! reload's content must be one whole commit, non-decreasing, and every held searcher immutable.
use std::collections::BTreeSet;
use std::sync::atomic::{AtomicBool, Ordering};
use std::sync::Arc;
use std::time::Duration;

use serde_json::json;
use tantivy::{Index, IndexSettings, ReloadPolicy, Searcher};
use tvh::e1::{self, Cfg, PathIds};
use tvh::out::CaseOut;
use tvh::rng::Rng;
use tvh::vdir::{Event, OpKind, VerifDirectory};
use tvh::{guarded, Args};

const HEADER: &str = "From TV Require Import Base.Prelude Storage.Crash Storage.ReaderGC.";
const META_LOCK: &str = ".tantivy-meta.lock";

struct Reload { ids: BTreeSet<u64> }

fn rev_trace(log: &[Event], ids: &mut PathIds) -> (Vec<String>, u64) {
    let mut out = vec![];
    let mut readers = 0u64;
    for e in log {
        if e.result != "Ok" && !(e.kind == OpKind::OpenRead && e.result == "NotFound") { continue; }
        let reader: Option<u64> = e.thread.strip_prefix("reader-").and_then(|x| x.parse().ok());
        if let Some(r) = reader { readers = readers.max(r + 1); }
        let t = match (&e.kind, reader) {
            (OpKind::Create, Some(r)) if e.path == META_LOCK => format!("RBegin {r}"),
            (OpKind::Delete, Some(r)) if e.path == META_LOCK => format!("REnd {r}"),
            (OpKind::AtomicRead, Some(r)) if e.path == "meta.json" => format!("RRead {r}"),
            (OpKind::OpenRead, Some(r)) => format!("ROpen {r} {}", ids.id(&e.path)),
            (OpKind::Create, None) if e.path == META_LOCK => "GBegin".to_string(),
            (OpKind::Delete, None) if e.path == META_LOCK => "GEnd".to_string(),
            (OpKind::Delete, None) if !e.path.starts_with('.') => format!("GDelete {}", ids.id(&e.path)),
            (OpKind::Create, None) if !e.path.starts_with('.') => format!("WCreate {}", ids.id(&e.path)),
            (OpKind::AtomicWrite, None) if e.path == "meta.json" => {
                let files = e1::meta_files(&e.data).map(|x| x.0).unwrap_or_default();
                let v: Vec<u64> = files.iter().map(|f| ids.id(f)).collect();
                format!("WMeta {}", tvh::coqfmt::ns(&v))
            }
            _ => continue,
        };
        out.push(t);
    }
    (out, readers)
}

fn main() {
    let args = Args::parse();
    tvh::quiet_panics();
    let mut rng = Rng::new(args.seed);
    let thorough = args.thorough();
    let mut out = CaseOut::new(&args.out, HEADER, 6);
    let n_hist = if thorough { 200 } else { 30 };
    let mut next_id = 0u64;
    for h in 0..n_hist {
        let len = rng.range(8, if thorough { 40 } else { 26 }) as usize;
        let ops = e1::gen_history(&mut rng, len, &mut next_id);
        let cfg = Cfg { threads: 1 + (h % 2), merge_policy: (h % 2) as u8, stop_on_error: false };
        let vd = VerifDirectory::new();
        let (schema, _f) = e1::schema();
        let index = Index::create(vd.clone(), schema, IndexSettings::default()).unwrap();
        // pre-emption: slow the readers down between reading meta.json and each open, and GC between deletes
        let mut hr = rng.fork();
        let jitter: Vec<u64> = (0..64).map(|_| hr.below(4)).collect();
        vd.set_hook(Some(Arc::new(move |_vd, seq, kind, _path| {
            let is_reader = std::thread::current().name().map(|n| n.starts_with("reader-")).unwrap_or(false);
            let j = jitter[seq % 64];
            if (is_reader && matches!(kind, OpKind::OpenRead | OpKind::AtomicRead)) || (!is_reader && matches!(kind, OpKind::Delete)) {
                if j > 0 { std::thread::sleep(Duration::from_micros(150 * j)); } else { std::thread::yield_now(); }
            }
        })));
        let stop = Arc::new(AtomicBool::new(false));
        let n_readers = 2 + (h % 2);
        let mut handles = vec![];
        for r in 0..n_readers {
            let ix = if r == 1 { Index::open(vd.clone()).unwrap() } else { index.clone() };
            let stop = stop.clone();
            handles.push(std::thread::Builder::new().name(format!("reader-{r}")).spawn(move || {
                let mut reloads: Vec<Reload> = vec![];
                let mut held: Vec<(Searcher, BTreeSet<u64>)> = vec![];
                let mut errors: Vec<String> = vec![];
                let reader = match guarded(|| ix.reader_builder().reload_policy(ReloadPolicy::Manual).try_into()) {
                    Ok(Ok(rd)) => rd, Ok(Err(e)) => { errors.push(format!("reader creation: {e}")); return (reloads, held, errors); } Err(p) => { errors.push(format!("panic: {p}")); return (reloads, held, errors); }
                };
                let mut n = 0usize;
                loop {
                    let done = stop.load(Ordering::SeqCst);
                    match guarded(|| reader.reload()) {
                        Ok(Ok(())) => {}
                        Ok(Err(e)) => errors.push(format!("reload: {e}")),
                        Err(p) => errors.push(format!("reload panic: {p}")),
                    }
                    let s = reader.searcher();
                    match e1::searcher_ids(&s) {
                        Ok(ids) => { if n % 3 == 0 && held.len() < 8 { held.push((s.clone(), ids.clone())); } reloads.push(Reload { ids }); }
                        Err(e) => errors.push(format!("search: {e}")),
                    }
                    n += 1;
                    if done { break; }
                    std::thread::sleep(Duration::from_micros(300));
                }
                // every held searcher still answers exactly as when it was taken
                for (s, first) in &held {
                    match e1::searcher_ids(s) { Ok(now) if &now == first => {}, Ok(_) => errors.push("held searcher changed its answer".into()), Err(e) => errors.push(format!("held searcher failed: {e}")) }
                }
                (reloads, held, errors)
            }).unwrap());
        }
        let res = e1::run_history_on(&vd, Some(index.clone()), &ops, &cfg, false);
        stop.store(true, Ordering::SeqCst);
        let desc = json!({"history": ops.iter().map(|o| o.to_json()).collect::<Vec<_>>(), "threads": cfg.threads, "merge_policy": cfg.merge_policy, "readers": n_readers});
        let mut contents: Vec<BTreeSet<u64>> = vec![BTreeSet::new()];
        contents.extend(res.commits.iter().map(|c| c.content.clone()));
        let mut total_reloads = 0;
        for (r, hdl) in handles.into_iter().enumerate() {
            let (reloads, _held, errors) = match hdl.join() { Ok(x) => x, Err(_) => { out.spec_checked(false, json!({"what": "reader thread panicked", "case": desc})); continue; } };
            for e in errors { out.spec_checked(false, json!({"what": "reload / search failed or a held searcher changed", "reader": r, "err": e, "case": desc})); }
            // each reload = one whole commit, and the sequence never moves back
            let mut at = 0usize;
            for (i, rl) in reloads.iter().enumerate() {
                match (at..contents.len()).find(|j| contents[*j] == rl.ids) {
                    Some(j) => { at = j; out.spec_checked(true, json!({})); }
                    None => {
                        let earlier = (0..at).any(|j| contents[j] == rl.ids);
                        out.spec_checked(false, json!({"what": if earlier { "a reload moved back to an older commit" } else { "a reload exposes a state that is no commit (mixture or uncommitted work)" }, "reader": r, "reload": i, "seen": rl.ids, "case": desc}));
                    }
                }
            }
            total_reloads += reloads.len();
        }
        if let Some(p) = &res.panicked { out.spec_checked(false, json!({"what": "writer panicked", "panic": p, "case": desc})); }
        vd.set_hook(None);
        let log = vd.log();
        for e in log.iter().filter(|e| e.kind == OpKind::OpenRead && e.result == "NotFound" && !e.path.starts_with('.')) {
            out.spec_checked(false, json!({"what": "a file of the generation being loaded did not exist when opened", "file": e.path, "thread": e.thread, "case": desc}));
        }
        let mut ids = PathIds::new();
        let (trace, nr) = rev_trace(&log, &mut ids);
        let t = format!("[{}]", trace.join("; "));
        let nontrivial = res.commits.len() >= 2 && total_reloads >= 4;
        let d2 = json!({"events": trace.len(), "reloads": total_reloads, "commits": res.commits.len(), "case": desc});
        out.coq_case("tie", format!("rmonitor {t}"), json!({"what": "reload/GC discipline on the real trace", "state": d2}), nontrivial);
        out.coq_case("spec", format!("opens_ok {t} && forallb (fun r => nondecreasing (reads r {t})) {}", tvh::coqfmt::ns(&(0..nr).collect::<Vec<u64>>())),
                     json!({"what": "every open of a reload finds its file; generations read never decrease", "state": d2}), nontrivial);
        out.count("histories", 1);
        out.count("reloads", total_reloads as u64);
        out.count("trace_events", trace.len() as u64);
    }
    out.finish(json!({"tier": args.tier, "seed": args.seed}));
}
