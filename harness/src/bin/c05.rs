//! C05 correspondence: reader threads (one on a second Index instance) reload and search while a
//! writer commits, merges, garbage-collects, rolls back and restarts; the storage log is mapped to
//! the events of coq/Storage/ReaderGC.v and checked by the proved discipline inside Coq; every
//! reload's content must be one whole commit, non-decreasing, and every held searcher immutable.
use std::collections::BTreeSet;
use std::sync::atomic::{AtomicBool, Ordering};
use std::sync::Arc;
use std::time::Duration;

use serde_json::json;
use tantivy::{Index, IndexSettings, ReloadPolicy, Searcher};
use tvh::e1::{self, Cfg, PathIds};
use tvh::out::CaseOut;
use tvh::rng::Rng;
use tvh::vdir::{Event, OpKind, VerifDirectory};
use tvh::{guarded, Args};

const HEADER: &str = "From TV Require Import Base.Prelude Storage.Crash Storage.ReaderGC Storage.ReloadStore Storage.Flock.";
const META_LOCK: &str = ".tantivy-meta.lock";

struct Reload { ids: BTreeSet<u64> }

fn rev_trace(log: &[Event], ids: &mut PathIds) -> (Vec<String>, u64) {
    let mut out = vec![];
    let mut readers = 0u64;
    for e in log {
        if e.result != "Ok" && !(e.kind == OpKind::OpenRead && e.result == "NotFound") { continue; }
        let reader: Option<u64> = e.thread.strip_prefix("reader-").and_then(|x| x.parse().ok());
        if let Some(r) = reader { readers = readers.max(r + 1); }
        let t = match (&e.kind, reader) {
            (OpKind::Create, Some(r)) if e.path == META_LOCK => format!("RBegin {r}"),
            (OpKind::Delete, Some(r)) if e.path == META_LOCK => format!("REnd {r}"),
            (OpKind::AtomicRead, Some(r)) if e.path == "meta.json" => format!("RRead {r}"),
            (OpKind::OpenRead, Some(r)) => format!("ROpen {r} {}", ids.id(&e.path)),
            (OpKind::Create, None) if e.path == META_LOCK => "GBegin".to_string(),
            (OpKind::Delete, None) if e.path == META_LOCK => "GEnd".to_string(),
            (OpKind::Delete, None) if !e.path.starts_with('.') => format!("GDelete {}", ids.id(&e.path)),
            (OpKind::Create, None) if !e.path.starts_with('.') => format!("WCreate {}", ids.id(&e.path)),
            (OpKind::AtomicWrite, None) if e.path == "meta.json" => {
                let files = e1::meta_files(&e.data).map(|x| x.0).unwrap_or_default();
                let v: Vec<u64> = files.iter().map(|f| ids.id(f)).collect();
                format!("WMeta {}", tvh::coqfmt::ns(&v))
            }
            _ => continue,
        };
        out.push(t);
    }
    (out, readers)
}

fn main() {
    let args = Args::parse();
    tvh::quiet_panics();
    let mut rng = Rng::new(args.seed);
    let thorough = args.thorough();
    let mut out = CaseOut::new(&args.out, HEADER, 6);
    let n_hist = if std::env::var("C05_ONLY_SHARED").is_ok() { 0 } else if thorough { 200 } else { 30 };
    let mut next_id = 0u64;
    for h in 0..n_hist {
        let len = rng.range(8, if thorough { 40 } else { 26 }) as usize;
        let ops = e1::gen_history(&mut rng, len, &mut next_id);
        let cfg = Cfg { threads: 1 + (h % 2), merge_policy: (h % 2) as u8, stop_on_error: false, replay_failed_commit: false };
        let vd = VerifDirectory::new();
        let (schema, _f) = e1::schema();
        let index = Index::create(vd.clone(), schema, IndexSettings::default()).unwrap();
        // pre-emption: slow the readers down between reading meta.json and each open, and GC between deletes
        let mut hr = rng.fork();
        let jitter: Vec<u64> = (0..64).map(|_| hr.below(4)).collect();
        vd.set_hook(Some(Arc::new(move |_vd, seq, kind, _path| {
            let is_reader = std::thread::current().name().map(|n| n.starts_with("reader-")).unwrap_or(false);
            let j = jitter[seq % 64];
            if (is_reader && matches!(kind, OpKind::OpenRead | OpKind::AtomicRead)) || (!is_reader && matches!(kind, OpKind::Delete)) {
                if j > 0 { std::thread::sleep(Duration::from_micros(150 * j)); } else { std::thread::yield_now(); }
            }
        })));
        let stop = Arc::new(AtomicBool::new(false));
        let n_readers = 2 + (h % 2);
        let mut handles = vec![];
        for r in 0..n_readers {
            let ix = if r == 1 { Index::open(vd.clone()).unwrap() } else { index.clone() };
            let stop = stop.clone();
            handles.push(std::thread::Builder::new().name(format!("reader-{r}")).spawn(move || {
                let mut reloads: Vec<Reload> = vec![];
                let mut held: Vec<(Searcher, BTreeSet<u64>)> = vec![];
                let mut errors: Vec<String> = vec![];
                let reader = match guarded(|| ix.reader_builder().reload_policy(ReloadPolicy::Manual).try_into()) {
                    Ok(Ok(rd)) => rd, Ok(Err(e)) => { errors.push(format!("reader creation: {e}")); return (reloads, held, errors); } Err(p) => { errors.push(format!("panic: {p}")); return (reloads, held, errors); }
                };
                let mut n = 0usize;
                loop {
                    let done = stop.load(Ordering::SeqCst);
                    match guarded(|| reader.reload()) {
                        Ok(Ok(())) => {}
                        Ok(Err(e)) => errors.push(format!("reload: {e}")),
                        Err(p) => errors.push(format!("reload panic: {p}")),
                    }
                    let s = reader.searcher();
                    match e1::searcher_ids(&s) {
                        Ok(ids) => { if n % 3 == 0 && held.len() < 8 { held.push((s.clone(), ids.clone())); } reloads.push(Reload { ids }); }
                        Err(e) => errors.push(format!("search: {e}")),
                    }
                    n += 1;
                    if done { break; }
                    // (keep the trace a size Coq parses comfortably: after 40 reloads of a history slow down)
                    std::thread::sleep(if n < 40 { Duration::from_micros(300) } else { Duration::from_millis(4) });
                }
                // every held searcher still answers exactly as when it was taken
                for (s, first) in &held {
                    match e1::searcher_ids(s) { Ok(now) if &now == first => {}, Ok(_) => errors.push("held searcher changed its answer".into()), Err(e) => errors.push(format!("held searcher failed: {e}")) }
                }
                (reloads, held, errors)
            }).unwrap());
        }
        let res = e1::run_history_on(&vd, Some(index.clone()), &ops, &cfg, false);
        stop.store(true, Ordering::SeqCst);
        let desc = json!({"history": ops.iter().map(|o| o.to_json()).collect::<Vec<_>>(), "threads": cfg.threads, "merge_policy": cfg.merge_policy, "readers": n_readers});
        let mut contents: Vec<BTreeSet<u64>> = vec![BTreeSet::new()];
        contents.extend(res.commits.iter().map(|c| c.content.clone()));
        let mut total_reloads = 0;
        for (r, hdl) in handles.into_iter().enumerate() {
            let (reloads, _held, errors) = match hdl.join() { Ok(x) => x, Err(_) => { out.spec_checked(false, json!({"what": "reader thread panicked", "case": desc})); continue; } };
            for e in errors { out.spec_checked(false, json!({"what": "reload / search failed or a held searcher changed", "reader": r, "err": e, "case": desc})); }
            // each reload = one whole commit, and the sequence never moves back
            let mut at = 0usize;
            for (i, rl) in reloads.iter().enumerate() {
                match (at..contents.len()).find(|j| contents[*j] == rl.ids) {
                    Some(j) => { at = j; out.spec_checked(true, json!({})); }
                    None => {
                        let earlier = (0..at).any(|j| contents[j] == rl.ids);
                        out.spec_checked(false, json!({"what": if earlier { "a reload moved back to an older commit" } else { "a reload exposes a state that is no commit (mixture or uncommitted work)" }, "reader": r, "reload": i, "seen": rl.ids, "case": desc}));
                    }
                }
            }
            total_reloads += reloads.len();
        }
        if let Some(p) = &res.panicked { out.spec_checked(false, json!({"what": "writer panicked", "panic": p, "case": desc})); }
        vd.set_hook(None);
        let log = vd.log();
        for e in log.iter().filter(|e| e.kind == OpKind::OpenRead && e.result == "NotFound" && !e.path.starts_with('.')) {
            out.spec_checked(false, json!({"what": "a file of the generation being loaded did not exist when opened", "file": e.path, "thread": e.thread, "case": desc}));
        }
        let mut ids = PathIds::new();
        let (trace, nr) = rev_trace(&log, &mut ids);
        let t = format!("[{}]", trace.join("; "));
        let nontrivial = res.commits.len() >= 2 && total_reloads >= 4;
        let d2 = json!({"events": trace.len(), "reloads": total_reloads, "commits": res.commits.len(), "case": desc});
        out.coq_case("tie", format!("rmonitor {t}"), json!({"what": "reload/GC discipline on the real trace", "state": d2}), nontrivial);
        out.coq_case("spec", format!("opens_ok {t} && forallb (fun r => nondecreasing (reads r {t})) {}", tvh::coqfmt::ns(&(0..nr).collect::<Vec<u64>>())),
                     json!({"what": "every open of a reload finds its file; generations read never decrease", "state": d2}), nontrivial);
        out.count("histories", 1);
        out.count("reloads", total_reloads as u64);
        out.count("trace_events", trace.len() as u64);
    }
    shared_reader_schedules(&mut rng, &mut out, if thorough { 200 } else { 40 });
    // directed: a merge that outlives its writer; an uncommitted delete_all_documents followed by a policy merge
    for k in 0..(if thorough { 12 } else { 4 }) {
        for (ok, d) in e1::merge_outlives_writer(k % 2 == 1) { out.spec_checked(ok, d); }
        out.count("merge_outlives_writer_scenarios", 1);
    }
    for (ok, d) in e1::uncommitted_delete_all_then_policy_merge() { out.spec_checked(ok, d); }
    for k in 0..2 { for (ok, d) in e1::stale_save_in_flight(k == 1) { out.spec_checked(ok, d); } out.count("stale_save_in_flight_scenarios", 1); }
    mmap_lock_schedules(&mut rng, &mut out, if thorough { 60 } else { 12 });
    lockfile_meta_lock_schedules(&mut rng, &mut out, if thorough { 200 } else { 40 });
    out.finish(json!({"tier": args.tier, "seed": args.seed}));
}

/// Several threads reload ONE IndexReader under a schedule the harness controls: a reloading thread can be pre-empted
/// right after it released META_LOCK (first half of reload() done: meta.json read, segments opened) and before it
/// stores its searcher.  Events, model and theorem: coq/Storage/ReloadStore.v.
fn shared_reader_schedules(rng: &mut Rng, out: &mut CaseOut, n: usize) {
    use std::collections::HashMap;
    use std::sync::{Condvar, Mutex};
    use tantivy::{doc, TantivyDocument};
    #[derive(Default)]
    struct Gate { armed: Option<u64>, inside: Vec<u64>, released: Vec<u64> }
    for it in 0..n {
        let vd = VerifDirectory::new();
        let (schema, f) = e1::schema();
        let index = Index::create(vd.clone(), schema, IndexSettings::default()).unwrap();
        let mut writer = index.writer_with_num_threads::<TantivyDocument>(1, 15_000_000).unwrap();
        writer.set_merge_policy(Box::new(tantivy::indexer::NoMergePolicy));
        let reader: tantivy::IndexReader = index.reader_builder().reload_policy(ReloadPolicy::Manual).try_into().unwrap();
        let gate: Arc<(Mutex<Gate>, Condvar)> = Arc::new((Mutex::new(Gate::default()), Condvar::new()));
        {
            let gate = gate.clone();
            vd.set_post_hook(Some(Arc::new(move |_vd, _seq, kind, path| {
                if *kind != OpKind::Delete || path != META_LOCK { return; }
                let me: Option<u64> = std::thread::current().name().and_then(|n| n.strip_prefix("rl-").and_then(|x| x.parse().ok()));
                let Some(me) = me else { return };
                let (m, cv) = &*gate;
                let mut g = m.lock().unwrap();
                if g.armed != Some(me) { return; }
                g.armed = None;
                g.inside.push(me);
                cv.notify_all();
                while !g.released.contains(&me) { g = cv.wait(g).unwrap(); }
            })));
        }
        let mut evs: Vec<String> = vec![];
        let mut looks: Vec<u64> = vec![];
        let mut published = 0u64;
        let mut next_t = 1u64;
        let mut paused: Vec<u64> = vec![];
        let mut blocked: Vec<u64> = vec![];
        let mut handles: HashMap<u64, std::thread::JoinHandle<Result<(), String>>> = HashMap::new();
        let mut errors: Vec<String> = vec![];
        let len = rng.range(4, 12);
        let mut script: Vec<u8> = (0..len).map(|_| rng.below(100) as u8).collect();
        if it % 4 == 0 { script = vec![30, 0, 55, 90, 60, 90]; }
        if let Ok(sc) = std::env::var("C05_SCRIPT") { script = sc.split(',').map(|x| x.parse().unwrap()).collect(); } // the textbook schedule: begin+pause, publish, reload, look, resume, look
        macro_rules! look { () => {{
            match e1::searcher_ids(&reader.searcher()) { Ok(ids) => { looks.push(ids.len() as u64); evs.push("Look".into()); } Err(e) => errors.push(format!("search: {e}")) }
        }}; }
        for r in script {
            if r < 30 {
                published += 1;
                let ok = writer.add_document(doc!(f.id => published, f.tag => "t0", f.body => "w")).is_ok() && writer.commit().is_ok();
                if !ok { errors.push("commit failed".into()); }
                evs.push("Publish".into());
                vd.mark("published");
            } else if r < 60 && handles.len() < 6 {
                let t = next_t; next_t += 1;
                let pause = r < 50;
                if pause { gate.0.lock().unwrap().armed = Some(t); }
                let rd = reader.clone();
                let h = std::thread::Builder::new().name(format!("rl-{t}")).spawn(move || match guarded(|| rd.reload()) { Ok(Ok(())) => Ok(()), Ok(Err(e)) => Err(format!("{e}")), Err(p) => Err(format!("panic: {p}")) }).unwrap();
                // wait until the thread is pre-empted, has finished, or is evidently blocked
                let t0 = std::time::Instant::now();
                let mut state = "blocked";
                // (only a pre-empted reload can make another one wait: with nobody pre-empted a slow start is waited for)
                while t0.elapsed() < Duration::from_millis(250) || (paused.is_empty() && t0.elapsed() < Duration::from_secs(20)) {
                    if gate.0.lock().unwrap().inside.contains(&t) { state = "paused"; break; }
                    if h.is_finished() { state = "done"; break; }
                    std::thread::sleep(Duration::from_micros(200));
                }
                gate.0.lock().unwrap().armed = None;
                evs.push(format!("Begin {t} {pause}"));
                vd.mark(&format!("begin {t} {state}"));
                match state {
                    "paused" => { paused.push(t); handles.insert(t, h); }
                    "done" => { if let Ok(Err(e)) = h.join() { errors.push(format!("reload: {e}")); } }
                    _ => { blocked.push(t); handles.insert(t, h); }
                }
                if state == "done" { look!(); }
            } else if r < 80 && !paused.is_empty() {
                let i = rng.below(paused.len() as u64) as usize;
                let t = paused.remove(i);
                if std::env::var("C05_DEBUG").is_ok() { for b in &blocked { eprintln!("it {it}: before Resume {t}: blocked thread {b} finished={}", handles.get(b).map(|h| h.is_finished()).unwrap_or(true)); } }
                { let (m, cv) = &*gate; m.lock().unwrap().released.push(t); cv.notify_all(); }
                if let Some(h) = handles.remove(&t) { if let Ok(Err(e)) = h.join() { errors.push(format!("reload: {e}")); } }
                // threads that were blocked on the reload lock behind t run now
                if paused.is_empty() { for b in blocked.drain(..) { if let Some(h) = handles.remove(&b) { let r = h.join(); if std::env::var("C05_DEBUG").is_ok() { eprintln!("joined blocked {b}: {r:?}; now {:?}", e1::searcher_ids(&reader.searcher()).map(|x| x.len())); } if let Ok(Err(e)) = r { errors.push(format!("reload: {e}")); } } } }
                evs.push(format!("Resume {t}"));
                vd.mark(&format!("resumed {t}"));
                look!();
            } else {
                look!();
            }
        }
        while !paused.is_empty() {
            let t = paused.remove(0);
            { let (m, cv) = &*gate; m.lock().unwrap().released.push(t); cv.notify_all(); }
            if let Some(h) = handles.remove(&t) { let _ = h.join(); }
            if paused.is_empty() { for b in blocked.drain(..) { if let Some(h) = handles.remove(&b) { let _ = h.join(); } } }
            evs.push(format!("Resume {t}"));
            look!();
        }
        for (_, h) in handles.drain() { let _ = h.join(); }
        vd.set_post_hook(None);
        if std::env::var("C05_DEBUG").is_ok() {
            let mut txt = format!("{evs:?}\n{looks:?}\n");
            for e in vd.log() { if e.kind != OpKind::Write && e.kind != OpKind::Flush { txt.push_str(&format!("{} {} {:?} {} {}\n", e.seq, e.thread, e.kind, e.path, e.result)); } }
            std::fs::write(format!("/tmp/hx/out/dbg_{it}.txt"), txt).unwrap();
        }
        let desc = json!({"events": evs, "observed_generations": looks, "published": published});
        for e in errors { out.spec_checked(false, json!({"what": "reload / search / commit failed in a shared-reader schedule", "err": e, "case": desc})); }
        let back = looks.windows(2).any(|w| w[1] < w[0]);
        out.spec_checked(!back, json!({"what": "a shared IndexReader moved back to an older commit (a pre-empted reload overwrote a more recent one)", "case": desc}));
        let nontrivial = evs.iter().any(|e| e.starts_with("Resume")) && published >= 1;
        out.coq_case("tie", format!("list_eqb N.eqb (rl_observed (rlrun [{}])) {}", evs.join("; "), tvh::coqfmt::ns(&looks)),
                     json!({"what": "shared-reader reload schedule: model (ReloadStore.v, serialization as pinned from the source) vs IndexReader", "case": desc}), nontrivial);
        out.count("shared_reader_schedules", 1);
        if !blocked.is_empty() { out.count("schedules_with_blocked_reload", 1); }
    }
}


/// META_LOCK on a real MmapDirectory (flock): a holder, a waiter that is already blocked when the holder releases, and
/// newcomers that try the lock without blocking.  Events and theorem: coq/Storage/Flock.v.
fn mmap_lock_schedules(rng: &mut Rng, out: &mut CaseOut, n: usize) {
    use tantivy::directory::{Directory, Lock, MmapDirectory, META_LOCK};
    for _ in 0..n {
        let tmp = tempfile::tempdir().unwrap();
        let dir = MmapDirectory::open(tmp.path()).unwrap();
        let try_lock = Lock { filepath: META_LOCK.filepath.clone(), is_blocking: false };
        let mut evs: Vec<String> = vec![];
        let mut max_holders = 0usize;
        // A takes the lock
        let a = dir.acquire_lock(&META_LOCK).unwrap();
        evs.push("FOpen 1".into()); evs.push("FLock 1".into());
        // B blocks on it (a reload waiting for a collection to finish)
        let (tx, rx) = std::sync::mpsc::channel();
        let (rel_tx, rel_rx) = std::sync::mpsc::channel::<()>();
        let d2 = dir.clone();
        let b = std::thread::spawn(move || { let g = d2.acquire_lock(&META_LOCK); let _ = tx.send(g.is_ok()); let _ = rel_rx.recv(); drop(g); });
        std::thread::sleep(Duration::from_millis(30 + rng.below(40)));
        evs.push("FOpen 2".into()); evs.push("FLock 2".into());
        // a newcomer cannot get it while A holds it
        let c0 = dir.acquire_lock(&try_lock);
        evs.push("FOpen 3".into()); evs.push("FLock 3".into());
        let mut holders = 1 + c0.is_ok() as usize;
        max_holders = max_holders.max(holders);
        drop(c0); evs.push("FClose 3".into());
        // A releases; B (already waiting) gets it
        drop(a); evs.push("FClose 1".into());
        let b_got = rx.recv_timeout(Duration::from_secs(10)).unwrap_or(false);
        evs.push("FLock 2".into());
        holders = b_got as usize;
        // newcomers while B holds it
        let mut newcomers = vec![];
        for t in 4..(5 + rng.below(3)) {
            let g = dir.acquire_lock(&try_lock);
            evs.push(format!("FOpen {t}")); evs.push(format!("FLock {t}"));
            if g.is_ok() { holders += 1; }
            max_holders = max_holders.max(holders);
            newcomers.push(g);
        }
        let granted: Vec<u64> = newcomers.iter().enumerate().filter(|(_, g)| g.is_ok()).map(|(i, _)| 4 + i as u64).collect();
        let desc = json!({"events": evs, "waiter_got_the_lock_after_release": b_got, "newcomers_granted_while_the_waiter_holds_it": granted, "max_simultaneous_holders": max_holders});
        out.spec_checked(b_got && max_holders <= 1, json!({"what": "META_LOCK on MmapDirectory does not exclude: two parties hold it at the same time (or the waiter never got it)", "case": desc}));
        // tie: the model's holders at the end = B plus whoever was granted
        let mut want: Vec<u64> = granted.clone(); want.reverse(); if b_got { want.push(2); }
        out.coq_case("tie", format!("list_eqb N.eqb (holders (flrun [{}])) {}", evs.join("; "), tvh::coqfmt::ns(&want)), json!({"what": "flock schedule: model (Flock.v) vs MmapDirectory::acquire_lock", "case": desc}), true);
        drop(newcomers);
        let _ = rel_tx.send(());
        let _ = b.join();
        out.count("mmap_lock_schedules", 1);
    }
}

/// META_LOCK through the DEFAULT lock-file protocol (RamDirectory and every Directory without its own acquire_lock): a
/// reload holds it; refused attempts (a collection that finds it busy) must leave the holder's lock in place.
fn lockfile_meta_lock_schedules(rng: &mut Rng, out: &mut CaseOut, n: usize) {
    use tantivy::directory::error::LockError;
    use tantivy::directory::{Directory, DirectoryLock, Lock, META_LOCK};
    for _ in 0..n {
        let vd = VerifDirectory::new();
        let try_lock = Lock { filepath: META_LOCK.filepath.clone(), is_blocking: false };
        let mut holder: Option<DirectoryLock> = None;
        let mut evs: Vec<String> = vec![];
        let mut ok = true;
        let mut why = String::new();
        for step in 0..rng.range(3, 10) {
            if holder.is_none() || rng.chance(2, 3) {
                let r = vd.acquire_lock(&try_lock);
                match (&holder, r) {
                    (None, Ok(g)) => { holder = Some(g); evs.push("acquire: granted".into()); }
                    (None, Err(e)) => { ok = false; why = format!("step {step}: the lock is free but the attempt failed: {e:?}"); break; }
                    (Some(_), Err(LockError::LockBusy)) => { evs.push("acquire: busy".into()); }
                    (Some(_), Ok(_)) => { ok = false; why = format!("step {step}: META_LOCK granted although a holder is alive (an earlier refused attempt removed the holder's lock file?)"); break; }
                    (Some(_), Err(e)) => { ok = false; why = format!("step {step}: unexpected error {e:?}"); break; }
                }
                let exists = vd.raw(&META_LOCK.filepath.to_string_lossy()).is_some();
                if holder.is_some() && !exists { ok = false; why = format!("step {step}: the holder is alive but its lock file is gone"); break; }
            } else {
                holder = None;
                evs.push("release".into());
            }
        }
        out.spec_checked(ok, json!({"what": "META_LOCK (default lock-file protocol) does not exclude: a refused attempt disturbed the holder", "why": why, "events": evs}));
        out.count("lockfile_meta_lock_schedules", 1);
    }
}