//! scratch probe for C06 candidate defects (to be deleted)
use tantivy::collector::{Collector, SegmentCollector, TopDocs};
use tantivy::query::{BooleanQuery, Occur, Query, TermQuery, AllQuery};
use tantivy::schema::{IndexRecordOption, Schema, FAST, TEXT, STRING};
use tantivy::{doc, DocAddress, DocId, Index, IndexWriter, Order, Score, SegmentReader, Term};
use tvh::rng::Rng;

pub struct AllScores;
pub struct AllScoresSeg(u32, Vec<(Score, DocAddress)>);
impl Collector for AllScores {
    type Fruit = Vec<(Score, DocAddress)>;
    type Child = AllScoresSeg;
    fn for_segment(&self, ord: u32, _r: &SegmentReader) -> tantivy::Result<AllScoresSeg> { Ok(AllScoresSeg(ord, vec![])) }
    fn requires_scoring(&self) -> bool { true }
    fn merge_fruits(&self, f: Vec<Vec<(Score, DocAddress)>>) -> tantivy::Result<Self::Fruit> { Ok(f.into_iter().flatten().collect()) }
}
impl SegmentCollector for AllScoresSeg {
    type Fruit = Vec<(Score, DocAddress)>;
    fn collect(&mut self, doc: DocId, score: Score) { self.1.push((score, DocAddress::new(self.0, doc))); }
    fn harvest(self) -> Self::Fruit { self.1 }
}

fn main() {
    // ---------- probe 1: merge tie-break with tweak_score keys ----------
    let mut rng = Rng::new(7);
    let mut bad = 0;
    for trial in 0..3000 {
        let mut sb = Schema::builder();
        let key = sb.add_u64_field("key", FAST);
        let index = Index::create_in_ram(sb.build());
        let mut w: IndexWriter = index.writer_with_num_threads(1, 20_000_000).unwrap();
        w.set_merge_policy(Box::new(tantivy::merge_policy::NoMergePolicy));
        let nseg = rng.range(2, 4);
        for _ in 0..nseg {
            let nd = if rng.chance(1,3) { rng.range(1, 4) } else { rng.range(3, 40) };
            for _ in 0..nd { w.add_document(doc!(key => rng.below(3))).unwrap(); }
            w.commit().unwrap();
        }
        let searcher = index.reader().unwrap().searcher();
        let k = rng.range(9, 13) as usize;
        let mode = trial % 2;
        let got: Vec<(u64, DocAddress)> = if mode == 0 {
            searcher.search(&AllQuery, &TopDocs::with_limit(k).order_by_u64_field("key", Order::Desc)).unwrap().into_iter().map(|(k, a)| (k.unwrap(), a)).collect()
        } else {
            searcher.search(&AllQuery, &TopDocs::with_limit(k).order_by_u64_field("key", Order::Asc)).unwrap().into_iter().map(|(k, a)| (k.unwrap(), a)).collect()
        };
        let mut all: Vec<(u64, DocAddress)> = vec![];
        for (ord, sr) in searcher.segment_readers().iter().enumerate() {
            let col = sr.fast_fields().u64("key").unwrap();
            for d in 0..sr.max_doc() { all.push((col.first(d).unwrap(), DocAddress::new(ord as u32, d))); }
        }
        if mode == 0 { all.sort_by(|a, b| b.0.cmp(&a.0).then(a.1.cmp(&b.1))); } else { all.sort_by(|a, b| a.0.cmp(&b.0).then(a.1.cmp(&b.1))); }
        all.truncate(k);
        if got != all {
            bad += 1;
            if bad <= 3 { println!("MERGE-TIE mismatch trial {trial} mode {mode} k {k}\n got {:?}\n exp {:?}", got, all); }
        }
    }
    println!("probe1 mismatches: {bad}");

    // ---------- probe 1b: score path (TopNHeap) with ties through const scores ----------
    let mut bad = 0;
    for trial in 0..3000 {
        let mut sb = Schema::builder();
        let t = sb.add_text_field("t", TEXT);
        let index = Index::create_in_ram(sb.build());
        let mut w: IndexWriter = index.writer_with_num_threads(1, 20_000_000).unwrap();
        w.set_merge_policy(Box::new(tantivy::merge_policy::NoMergePolicy));
        let nseg = rng.range(2, 4);
        for _ in 0..nseg {
            let nd = if rng.chance(1,3) { rng.range(1, 4) } else { rng.range(3, 14) };
            for _ in 0..nd {
                let c = rng.below(3) as usize;
                let mut words = vec!["x"; c + 1]; words.extend(vec!["y"; 2 - c]);
                w.add_document(doc!(t => words.join(" "))).unwrap();
            }
            w.commit().unwrap();
        }
        let searcher = index.reader().unwrap().searcher();
        let k = rng.range(2, 7) as usize;
        let q = TermQuery::new(Term::from_field_text(t, "x"), IndexRecordOption::WithFreqs);
        let got = searcher.search(&q, &TopDocs::with_limit(k).order_by_score()).unwrap();
        let mut all = searcher.search(&q, &AllScores).unwrap();
        all.sort_by(|a, b| b.0.partial_cmp(&a.0).unwrap().then(a.1.cmp(&b.1)));
        all.truncate(k);
        if got != all {
            bad += 1;
            if bad <= 3 { println!("SCORE-TIE mismatch trial {trial} k {k}\n got {:?}\n exp {:?}", got, all); }
        }
    }
    println!("probe1b mismatches: {bad}");

    // ---------- probe 2: F6 ----------
    {
        let mut sb = Schema::builder();
        let t = sb.add_text_field("t", TEXT);
        let index = Index::create_in_ram(sb.build());
        let mut w: IndexWriter = index.writer_with_num_threads(1, 50_000_000).unwrap();
        w.add_document(doc!(t => vec!["a"; 1000].join(" "))).unwrap();
        for _ in 0..997 { w.add_document(doc!(t => "b")).unwrap(); }
        w.add_document(doc!(t => vec!["a"; 500].join(" "))).unwrap();
        w.commit().unwrap();
        let searcher = index.reader().unwrap().searcher();
        let q = BooleanQuery::new(vec![
            (Occur::Should, Box::new(TermQuery::new(Term::from_field_text(t, "a"), IndexRecordOption::WithFreqs)) as Box<dyn Query>),
            (Occur::Should, Box::new(TermQuery::new(Term::from_field_text(t, "b"), IndexRecordOption::WithFreqs)) as Box<dyn Query>),
        ]);
        let got = searcher.search(&q, &TopDocs::with_limit(1).order_by_score()).unwrap();
        let mut all = searcher.search(&q, &AllScores).unwrap();
        all.sort_by(|a, b| b.0.partial_cmp(&a.0).unwrap().then(a.1.cmp(&b.1)));
        println!("F6: got {:?} best {:?} nseg {}", got, &all[..2], searcher.segment_readers().len());
    }
    // ---------- probe 3: F3 ----------
    {
        let mut sb = Schema::builder();
        let t = sb.add_text_field("t", TEXT);
        let index = Index::create_in_ram(sb.build());
        let mut w: IndexWriter = index.writer_with_num_threads(1, 200_000_000).unwrap();
        w.set_merge_policy(Box::new(tantivy::merge_policy::NoMergePolicy));
        // segment 0: short docs (avg ~ 100): 300 docs containing "a"
        let mut rng = Rng::new(3);
        for i in 0..300 {
            let len = 40 + rng.below(120) as usize;
            let tf = 1 + rng.below(6) as usize;
            let mut words = vec!["a"; tf];
            words.extend(std::iter::repeat("z").take(len - tf));
            let _ = i;
            w.add_document(doc!(t => words.join(" "))).unwrap();
        }
        w.commit().unwrap();
        // segment 1: long docs (avg ~ 9000)
        for _ in 0..300 {
            let len = 6000 + rng.below(6000) as usize;
            let tf = 1 + rng.below(40) as usize;
            let mut words = vec!["a"; tf];
            words.extend(std::iter::repeat("z").take(len - tf));
            w.add_document(doc!(t => words.join(" "))).unwrap();
        }
        w.commit().unwrap();
        let searcher = index.reader().unwrap().searcher();
        let q = TermQuery::new(Term::from_field_text(t, "a"), IndexRecordOption::WithFreqs);
        let mut all = searcher.search(&q, &AllScores).unwrap();
        all.sort_by(|a, b| b.0.partial_cmp(&a.0).unwrap().then(a.1.cmp(&b.1)));
        let mut nbad = 0;
        for k in 1..=20usize {
            let got = searcher.search(&q, &TopDocs::with_limit(k).order_by_score()).unwrap();
            if got[..] != all[..k] { nbad += 1; if nbad <= 2 { println!("F3 k={k}: got {:?}\n exp {:?}", &got[..k.min(3)], &all[..k.min(3)]); } }
        }
        println!("F3 mismatching k: {nbad} nseg {}", searcher.segment_readers().len());
    }
}
