//! C07 correspondence: the inverted index records exactly the terms, documents, frequencies, positions.
//!  (i)   VInt and field-norm code functions vs the model (tie) and vs the theorem statements (spec);
//!  (ii)  PostingsSerializer (public API) -> bytes -> model reader with the BitPacker4x layout plugged in
//!        (decode direction only), skip entries (last doc / tf sum / position offset);
//!  (iii) real segments: every value type, record option, fieldnorms on/off, multi-valued fields; the whole
//!        inverted index is read back through SegmentReader::inverted_index and compared with the definitional
//!        index (in Coq for small segments, by a Rust reference for large ones); advance/seek programs.
use std::collections::BTreeMap;
use std::net::Ipv6Addr;

use serde_json::json;
use tantivy::fieldnorm::FieldNormReader;
use tantivy::postings::serializer::PostingsSerializer;
use tantivy::postings::{BlockSegmentPostings, Postings};
use tantivy::schema::{
    BytesOptions, DateOptions, Facet, FacetOptions, Field, IndexRecordOption, IpAddrOptions, JsonObjectOptions, NumericOptions,
    OwnedValue, Schema, TextFieldIndexing, TextOptions,
};
use tantivy::tokenizer::{FacetTokenizer, TokenStream, Tokenizer};
use tantivy::{DateTime, DocSet, Index, IndexSettings, TantivyDocument, Term, TERMINATED};
use tvh::coqfmt as cf;
use tvh::out::CaseOut;
use tvh::rng::Rng;
use tvh::{guarded, Args};

const HEADER: &str = "From TV Require Import Base.Prelude Generated.Constants Postings.VInt Postings.FieldNorm Postings.Codec Postings.BP4x Postings.Positions Postings.Spec Postings.Merge Postings.Grouping Postings.Cases.";

fn opt_of(k: u64) -> IndexRecordOption {
    match k { 0 => IndexRecordOption::Basic, 1 => IndexRecordOption::WithFreqs, _ => IndexRecordOption::WithFreqsAndPositions }
}
fn opt_code(o: IndexRecordOption) -> u64 {
    match o { IndexRecordOption::Basic => 0, IndexRecordOption::WithFreqs => 1, IndexRecordOption::WithFreqsAndPositions => 2 }
}

// ------------------------------------------------------------------------------------------------ generators
/// strictly increasing doc ids (< TERMINATED) of the given length; some strict deltas (gap - 1) need exactly `bits` bits
fn gen_docs(rng: &mut Rng, len: usize, bits: u32) -> Vec<u32> {
    let limit = TERMINATED as u64 - 1; // largest legal doc id
    let mut budget: u64 = limit - 4 * len as u64 - 8;
    let small_max: u64 = if bits == 0 { 0 } else { 2u64.min((1u64 << bits) - 1) };
    let mut deltas: Vec<u64> = (0..len).map(|_| rng.below(small_max + 1)).collect();
    if bits >= 1 {
        let lo = 1u64 << (bits - 1);
        let n_big = (len / 3).max(1);
        for _ in 0..n_big {
            if lo > budget { break; }
            let hi = ((1u64 << bits) - 1).min(budget);
            let d = if rng.chance(1, 3) { lo } else if rng.chance(1, 2) { hi } else { lo + rng.below(hi - lo + 1) };
            let at = rng.below(len as u64) as usize;
            if deltas[at] >= lo { continue; }
            budget -= d;
            deltas[at] = d;
        }
    }
    let mut docs = Vec::with_capacity(len);
    let mut cur: u64 = 0;
    for (i, d) in deltas.iter().enumerate() {
        cur = if i == 0 { *d } else { cur + d + 1 };
        docs.push(cur as u32);
    }
    assert!(cur <= limit);
    docs
}

fn gen_tfs(rng: &mut Rng, len: usize, kind: u64) -> Vec<u32> {
    (0..len).map(|i| match kind {
        0 => 1,
        1 => 1 + rng.below(4) as u32,
        2 => if i % 37 == 5 { 1 + rng.below(1 << 20) as u32 } else { 1 + rng.below(3) as u32 },
        3 => if i % 61 == 7 { u32::MAX - rng.below(3) as u32 } else { 1 },
        _ => 1 + rng.below(300) as u32,
    }).collect()
}

fn serialize_postings(opt: IndexRecordOption, rtf: bool, docs: &[u32], tfs: &[u32], with_norms: bool) -> Vec<u8> {
    let fr = if with_norms { Some(FieldNormReader::constant(u32::MAX, 12)) } else { None };
    let mut ser = PostingsSerializer::new(if with_norms { 12.0 } else { 0.0 }, opt, fr);
    ser.new_term(docs.len() as u32, rtf);
    for (d, t) in docs.iter().zip(tfs) { ser.write_doc(*d, *t); }
    let mut buf = Vec::new();
    ser.close_term(docs.len() as u32, &mut buf).unwrap();
    buf
}

// ------------------------------------------------------------------------------------------------ segments
#[derive(Clone, Debug)]
struct Tok { term: Vec<u8>, pos: u32, len: u32 }
type Value = Vec<Tok>;
#[derive(Clone, Debug)]
struct Group { text: bool, values: Vec<Value> }
type DocIn = Vec<Group>;

#[derive(Clone, Debug, PartialEq)]
struct Posting { doc: u32, tf: u32, pos: Vec<u32> }

const MAX_TOKEN_LEN: usize = u16::MAX as usize - 5;

/// Rust reference of Postings/Spec.v::index_spec (used for the bulk sweeps; the Coq function is the specification)
fn reference_index(opt: IndexRecordOption, docs: &[DocIn]) -> (BTreeMap<Vec<u8>, Vec<Posting>>, u64, Vec<u32>) {
    let mut map: BTreeMap<Vec<u8>, (bool, Vec<Posting>)> = BTreeMap::new();
    let mut total = 0u64;
    let mut ntok = vec![];
    for (d, doc) in docs.iter().enumerate() {
        let mut n = 0u32;
        for g in doc {
            let mut base = 0u32;
            for v in &g.values {
                let mut endp = base;
                for t in v {
                    if t.term.len() > MAX_TOKEN_LEN { continue; }
                    let s = base + t.pos;
                    endp = endp.max(s + t.len);
                    n += 1;
                    let e = map.entry(t.term.clone()).or_insert((false, vec![]));
                    e.0 |= g.text;
                    if e.1.last().map(|p| p.doc) != Some(d as u32) { e.1.push(Posting { doc: d as u32, tf: 0, pos: vec![] }); }
                    let p = e.1.last_mut().unwrap();
                    p.tf += 1;
                    p.pos.push(s);
                }
                base = endp + 1;
            }
        }
        total += n as u64;
        ntok.push(n);
    }
    let out = map.into_iter().map(|(k, (text, ps))| {
        let o = if text { opt } else { IndexRecordOption::Basic };
        (k, ps.into_iter().map(|p| Posting { doc: p.doc, tf: if o.has_freq() { p.tf } else { 1 }, pos: if o.has_positions() { p.pos } else { vec![] } }).collect())
    }).collect();
    (out, total, ntok)
}

fn docs_term(docs: &[DocIn]) -> String {
    cf::list(docs, |d| cf::list(d, |g| format!("({}, {})", cf::boolean(g.text),
        cf::list(&g.values, |v| cf::list(v, |t| format!("({}, {}, {})", cf::bytes(&t.term), t.pos, t.len))))))
}
fn observed_term(obs: &[(Vec<u8>, Vec<Posting>)]) -> String {
    cf::list(obs, |(k, ps)| format!("({}, {})", cf::bytes(k), cf::list(ps, |p| format!("({}, {}, {})", p.doc, p.tf, cf::ns(&p.pos)))))
}

#[derive(Clone, Copy, Debug, PartialEq)]
enum Kind { Text, U64, I64, F64, Date, Bytes, Ip, Bool, Facet, Json }

struct FieldCfg { kind: Kind, opt: IndexRecordOption, norms: bool, tokenizer: &'static str }

struct ReadBack { terms: Vec<(Vec<u8>, Vec<Posting>)>, doc_freqs: Vec<u32>, total: u64, norms: Option<Vec<u8>>, dict_ok: bool,
                  /// terms on which Postings::positions() panicked (observation; positions recorded as empty)
                  pos_panics: Vec<(Vec<u8>, String)> }

fn read_back(seg: &tantivy::SegmentReader, field: Field, with_norms: bool, ndocs: usize) -> Result<ReadBack, String> {
    let inv = seg.inverted_index(field).map_err(|e| format!("{e:?}"))?;
    let dict = inv.terms();
    let mut stream = dict.stream().map_err(|e| format!("{e:?}"))?;
    let mut terms = vec![];
    let mut dfs = vec![];
    let mut dict_ok = true;
    let mut pos_panics: Vec<(Vec<u8>, String)> = vec![];
    let mut ord = 0u64;
    while stream.advance() {
        let key = stream.key().to_vec();
        let ti = stream.value().clone();
        // dictionary lookups agree with the stream (TermInfoStore round trip at the API level)
        let by_key = dict.get(&key).map_err(|e| format!("{e:?}"))?;
        let mut key_of_ord = vec![];
        let found = dict.ord_to_term(ord, &mut key_of_ord).map_err(|e| format!("{e:?}"))?;
        let ord_of = dict.term_ord(&key).map_err(|e| format!("{e:?}"))?;
        if by_key.as_ref() != Some(&ti) || !found || key_of_ord != key || ord_of != Some(ord) { dict_ok = false; }
        ord += 1;
        let mut p = inv.read_postings_from_terminfo(&ti, IndexRecordOption::WithFreqsAndPositions).map_err(|e| format!("{e:?}"))?;
        let mut ps = vec![];
        let mut guard = 0usize;
        while p.doc() != TERMINATED {
            let mut pos = vec![];
            if let Err(msg) = guarded(|| p.positions(&mut pos)) {
                if pos_panics.last().map(|(k, _): &(Vec<u8>, String)| k != &key).unwrap_or(true) { pos_panics.push((key.clone(), msg)); }
                pos.clear();
            }
            ps.push(Posting { doc: p.doc(), tf: p.term_freq(), pos });
            p.advance();
            guard += 1;
            if guard > ndocs + 2 { return Err("posting list longer than the segment".into()); }
        }
        if dict.num_terms() as u64 <= ord - 1 { dict_ok = false; }
        dfs.push(ti.doc_freq);
        terms.push((key, ps));
    }
    if dict.num_terms() as u64 != ord { dict_ok = false; }
    let norms = if with_norms {
        let r = seg.get_fieldnorms_reader(field).map_err(|e| format!("{e:?}"))?;
        Some((0..ndocs as u32).map(|d| r.fieldnorm_id(d)).collect())
    } else { None };
    Ok(ReadBack { terms, doc_freqs: dfs, total: inv.total_num_tokens(), norms, dict_ok, pos_panics })
}

fn word(rng: &mut Rng, vocab: u64) -> String {
    let k = rng.below(vocab);
    match k % 7 { 0 => format!("w{k}"), 1 => format!("W{k}x"), 2 => format!("pre-fix{k}"), 3 => format!("\u{e9}t\u{e9}{k}"), 4 => format!("a{k}"), 5 => format!("zz{k}"), _ => format!("q{k}q") }
}

fn analyze(index: &Index, tokenizer: &str, text: &str) -> Value {
    let mut an = index.tokenizers().get(tokenizer).expect("tokenizer");
    let mut ts = an.token_stream(text);
    let mut v = vec![];
    while ts.advance() {
        let t = ts.token();
        v.push(Tok { term: t.text.as_bytes().to_vec(), pos: t.position as u32, len: t.position_length as u32 });
    }
    v
}

struct SegOutcome { docs: Vec<DocIn>, rb: Result<ReadBack, String>, cfg_desc: serde_json::Value, opt: IndexRecordOption, field: Field, index: Index }

/// Build one single-segment index with one field of the given configuration and `texts_or_vals` documents.
fn build_segment(rng: &mut Rng, cfg: &FieldCfg, ndocs: usize, shape: u64, vocab: u64) -> Result<SegOutcome, String> {
    let mut sb = Schema::builder();
    let indexing = TextFieldIndexing::default().set_tokenizer(cfg.tokenizer).set_index_option(cfg.opt).set_fieldnorms(cfg.norms);
    let num = |norms: bool| { let o = NumericOptions::default().set_indexed(); if norms { o.set_fieldnorm() } else { o } };
    let field = match cfg.kind {
        Kind::Text => sb.add_text_field("f", TextOptions::default().set_indexing_options(indexing.clone())),
        Kind::U64 => sb.add_u64_field("f", num(cfg.norms)),
        Kind::I64 => sb.add_i64_field("f", num(cfg.norms)),
        Kind::F64 => sb.add_f64_field("f", num(cfg.norms)),
        Kind::Bool => sb.add_bool_field("f", num(cfg.norms)),
        Kind::Date => sb.add_date_field("f", { let o = DateOptions::default().set_indexed(); if cfg.norms { o.set_fieldnorm() } else { o } }),
        Kind::Bytes => sb.add_bytes_field("f", { let o = BytesOptions::default().set_indexed(); if cfg.norms { o.set_fieldnorms() } else { o } }),
        Kind::Ip => sb.add_ip_addr_field("f", { let o = IpAddrOptions::default().set_indexed(); if cfg.norms { o.set_fieldnorms() } else { o } }),
        Kind::Facet => sb.add_facet_field("f", FacetOptions::default()),
        Kind::Json => sb.add_json_field("f", JsonObjectOptions::default().set_indexing_options(indexing.clone())),
    };
    let other = sb.add_u64_field("other", NumericOptions::default().set_indexed());
    let schema = sb.build();
    let index = Index::create_in_ram(schema);
    let _ = IndexSettings::default();
    let mut docs_in: Vec<DocIn> = vec![];
    let mut writer = index.writer_with_num_threads::<TantivyDocument>(1, 200_000_000).map_err(|e| format!("{e:?}"))?;
    for d in 0..ndocs {
        let mut doc = TantivyDocument::default();
        doc.add_u64(other, d as u64);
        let nvals = match shape { 0 => 1, 1 => rng.below(4) as usize, _ => 1 + rng.below(2) as usize };
        let mut groups: DocIn = vec![];
        match cfg.kind {
            Kind::Text => {
                let mut values = vec![];
                for _ in 0..nvals {
                    let nw = match shape { 0 => rng.range(1, 4), 1 => rng.below(7), 2 => rng.range(0, 3), _ => rng.range(100, 300) };
                    let mut ws: Vec<String> = (0..nw).map(|_| word(rng, vocab)).collect();
                    // posting-length targets: "k<k>" occurs in the first k documents
                    for k in [1usize, 127, 128, 129, 255, 256, 257, 1000, 4000, 10_000, 65_536] { if d < k && ndocs >= k && shape != 1 { ws.push(format!("k{k}")); } }
                    if shape == 3 && d % 3 == 0 { for _ in 0..rng.range(120, 140) { ws.push("rep".into()); } }
                    let sep = if cfg.tokenizer == "raw" { "_" } else if rng.chance(1, 4) { "  " } else { " " };
                    // long terms sharing long prefixes (several kB in large segments; around MAX_TOKEN_LEN: kept at 65530, dropped above)
                    if shape == 1 && rng.chance(1, 8) { ws.insert(0, format!("{}{}", "p".repeat([0usize, 1, 60, 120, 200][rng.below(5) as usize]), rng.below(3))); }
                    if shape != 1 && rng.chance(1, 50) { let n = [0usize, 255, 256, 1000, 5000, 65529, 65530, 65531, 70000][rng.below(9) as usize]; ws.insert(0, format!("{}{}", "p".repeat(n.saturating_sub(1)), if n == 0 { String::new() } else { format!("{}", rng.below(2)) })); }
                    let text = if cfg.tokenizer == "raw" { ws.get(0).cloned().unwrap_or_default() } else { ws.join(sep) };
                    values.push(analyze(&index, cfg.tokenizer, &text));
                    doc.add_text(field, &text);
                }
                groups.push(Group { text: true, values });
            }
            Kind::U64 | Kind::I64 | Kind::F64 | Kind::Bool | Kind::Date | Kind::Bytes | Kind::Ip => {
                let mut values = vec![];
                for _ in 0..nvals {
                    let r = rng.below(vocab);
                    let term = match cfg.kind {
                        Kind::U64 => { let v = match r % 5 { 0 => 0, 1 => u64::MAX - r, 2 => 1u64 << (r % 64), _ => r }; doc.add_u64(field, v); Term::from_field_u64(field, v) }
                        Kind::I64 => { let v = match r % 5 { 0 => i64::MIN + r as i64, 1 => i64::MAX - r as i64, 2 => -(r as i64), _ => r as i64 }; doc.add_i64(field, v); Term::from_field_i64(field, v) }
                        Kind::F64 => { let v = match r % 6 { 0 => -0.0, 1 => 0.0, 2 => -(r as f64) * 0.5, 3 => f64::MAX, 4 => f64::MIN_POSITIVE, _ => r as f64 * 1.25 }; doc.add_f64(field, v); Term::from_field_f64(field, v) }
                        Kind::Bool => { let v = r % 2 == 0; doc.add_bool(field, v); Term::from_field_bool(field, v) }
                        Kind::Date => { let v = DateTime::from_timestamp_nanos((r as i64 - 5) * 1_000_000_007); doc.add_date(field, v); Term::from_field_date_for_search(field, v) }
                        Kind::Bytes => { let n = (r % 9) as usize; let v: Vec<u8> = (0..n).map(|i| (r as u8).wrapping_mul(31).wrapping_add(i as u8 * 77)).collect(); doc.add_bytes(field, &v); Term::from_field_bytes(field, &v) }
                        _ => { let v = Ipv6Addr::from(((r as u128) << 64) | (r as u128 * 7919)); doc.add_ip_addr(field, v); Term::from_field_ip_addr(field, v) }
                    };
                    values.push(vec![Tok { term: term.serialized_value_bytes().to_vec(), pos: 0, len: 1 }]);
                }
                // one group per value: positions are always 0 for non-text values
                for v in values { groups.push(Group { text: false, values: vec![v] }); }
            }
            Kind::Facet => {
                for _ in 0..nvals {
                    let depth = rng.range(1, 3);
                    let path: String = (0..depth).map(|_| format!("/c{}", rng.below(vocab.min(6)))).collect();
                    let facet = Facet::from(path.as_str());
                    let mut ft = FacetTokenizer::default();
                    let mut ts = ft.token_stream(facet.encoded_str());
                    let mut v = vec![];
                    while ts.advance() { let t = ts.token(); v.push(Tok { term: t.text.as_bytes().to_vec(), pos: t.position as u32, len: t.position_length as u32 }); }
                    doc.add_facet(field, facet);
                    groups.push(Group { text: true, values: vec![v] });
                }
            }
            Kind::Json => {
                // string values of the same path share one IndexingPosition across all JSON values of the document
                let mut per_path: BTreeMap<String, (bool, Vec<Value>)> = BTreeMap::new();
                for _ in 0..nvals {
                    let mut obj: BTreeMap<String, OwnedValue> = BTreeMap::new();
                    let nkeys = rng.range(1, 3);
                    for _ in 0..nkeys {
                        let key = format!("k{}", rng.below(3));
                        if obj.contains_key(&key) { continue; }
                        let mk_leaf = |rng: &mut Rng, path: &str, per_path: &mut BTreeMap<String, (bool, Vec<Value>)>| -> OwnedValue {
                            let pt = Term::from_field_json_path(field, path, false);
                            match rng.below(4) {
                                0 => {
                                    let nw = rng.range(1, 4);
                                    let text: String = (0..nw).map(|_| word(rng, vocab)).collect::<Vec<_>>().join(" ");
                                    let toks = analyze(&index, cfg.tokenizer, &text);
                                    let v: Value = toks.into_iter().map(|t| { let mut term = pt.clone(); term.append_type_and_str(std::str::from_utf8(&t.term).unwrap()); Tok { term: term.serialized_value_bytes().to_vec(), pos: t.pos, len: t.len } }).collect();
                                    per_path.entry(format!("s:{path}")).or_insert((true, vec![])).1.push(v);
                                    OwnedValue::Str(text)
                                }
                                1 => { let x = rng.below(vocab) as i64 - 3; let mut term = pt.clone(); term.append_type_and_fast_value::<i64>(x);
                                       per_path.entry(format!("n:{path}:{}", per_path.len())).or_insert((false, vec![])).1.push(vec![Tok { term: term.serialized_value_bytes().to_vec(), pos: 0, len: 1 }]); OwnedValue::I64(x) }
                                2 => { let x = rng.chance(1, 2); let mut term = pt.clone(); term.append_type_and_fast_value::<bool>(x);
                                       per_path.entry(format!("n:{path}:{}", per_path.len())).or_insert((false, vec![])).1.push(vec![Tok { term: term.serialized_value_bytes().to_vec(), pos: 0, len: 1 }]); OwnedValue::Bool(x) }
                                _ => { let x = rng.below(vocab) as f64 + 0.5; let mut term = pt.clone(); term.append_type_and_fast_value::<f64>(x);
                                       per_path.entry(format!("n:{path}:{}", per_path.len())).or_insert((false, vec![])).1.push(vec![Tok { term: term.serialized_value_bytes().to_vec(), pos: 0, len: 1 }]); OwnedValue::F64(x) }
                            }
                        };
                        let val = match rng.below(3) {
                            0 => mk_leaf(rng, &key, &mut per_path),
                            1 => OwnedValue::Array((0..rng.range(1, 3)).map(|_| mk_leaf(rng, &key, &mut per_path)).collect()),
                            _ => { let sub = format!("s{}", rng.below(2)); let p = format!("{key}.{sub}"); OwnedValue::Object(vec![(sub, mk_leaf(rng, &p, &mut per_path))]) }
                        };
                        obj.insert(key, val);
                    }
                    doc.add_object(field, obj);
                }
                for (_k, (text, vals)) in per_path { groups.push(Group { text, values: vals }); }
            }
        }
        writer.add_document(doc).map_err(|e| format!("{e:?}"))?;
        docs_in.push(groups);
    }
    writer.commit().map_err(|e| format!("{e:?}"))?;
    writer.wait_merging_threads().ok();
    let reader = index.reader().map_err(|e| format!("{e:?}"))?;
    let searcher = reader.searcher();
    let cfg_desc = json!({"kind": format!("{:?}", cfg.kind), "opt": opt_code(cfg.opt), "norms": cfg.norms, "tokenizer": cfg.tokenizer, "ndocs": ndocs, "shape": shape});
    if searcher.segment_readers().len() != 1 { return Err(format!("expected one segment, got {}", searcher.segment_readers().len())); }
    let seg = searcher.segment_reader(0);
    let norms_on = cfg.norms && !matches!(cfg.kind, Kind::Facet | Kind::Json);
    let rb = match guarded(|| read_back(seg, field, norms_on, ndocs)) { Ok(r) => r, Err(p) => Err(format!("panic: {p}")) };
    let eff_opt = if matches!(cfg.kind, Kind::Text | Kind::Json) { cfg.opt } else { IndexRecordOption::Basic };
    Ok(SegOutcome { docs: docs_in, rb, cfg_desc, opt: eff_opt, field, index })
}


/// Everything that is left in a block cursor, block after block (docs() / freq(idx) / advance()).
fn drain_blocks(bp: &mut BlockSegmentPostings, limit: usize) -> Result<Vec<(u32, u32)>, String> {
    let mut v = vec![];
    loop {
        let n = bp.docs().len();
        if n == 0 { break; }
        for idx in 0..n { v.push((bp.doc(idx), bp.freq(idx))); }
        if v.len() > limit + 256 { return Err("cursor does not terminate".into()); }
        bp.advance();
    }
    Ok(v)
}

/// The things done to a block cursor before it is re-targeted on another term.
fn use_cursor(rng: &mut Rng, bp: &mut BlockSegmentPostings, plist: &[Posting]) -> &'static str {
    match rng.below(7) {
        0 => "untouched",
        1 => { bp.advance(); "advance1" }
        2 => { bp.advance(); bp.advance(); "advance2" }
        3 => { bp.seek(plist[plist.len() / 2].doc); "seek-middle" }
        4 => { bp.seek(plist[plist.len() - 1].doc); "seek-last" }
        5 => { let k = rng.below(plist.len() as u64) as usize; bp.seek(plist[k].doc); bp.advance(); "seek-then-advance" }
        _ => { let mut g = 0; while !bp.docs().is_empty() && g < plist.len() + 4 { bp.advance(); g += 1; } "exhausted" }
    }
}

// ---- several fields, several segments, merge -------------------------------------------------------------------
struct MField { name: String, kind: Kind, opt: IndexRecordOption, norms: bool, tokenizer: &'static str, field: Field, max_tokens: u64, vocab: u64 }

struct MergeOutcome {
    fields: Vec<MField>,
    /// per segment (before the merge) and for the merged segment: per field (documents in doc-id order, read-back)
    segments: Vec<(String, Vec<(Vec<DocIn>, Result<ReadBack, String>)>)>,
    /// per source segment: per field its documents (in source doc-id order) and, per document, alive at the merge
    sources: Vec<(Vec<Vec<DocIn>>, Vec<bool>)>,
    desc: serde_json::Value,
}

/// estimate_total_num_tokens of a merged field, from the source segments (Postings/Merge.v::merged_total; the
/// pro-rata branch with the implementation's own f64 expression)
fn expected_merged_total(normed: bool, sources: &[(Vec<DocIn>, Vec<bool>)]) -> u64 {
    let mut total = 0u64;
    for (docs, alive) in sources {
        let ntok: Vec<u64> = docs.iter().map(|d| reference_index(IndexRecordOption::Basic, std::slice::from_ref(d)).1).collect();
        let exact: u64 = ntok.iter().sum();
        if alive.iter().all(|a| *a) { total += exact; }
        else if normed { total += ntok.iter().zip(alive).filter(|(_, a)| **a).map(|(n, _)| FieldNormReader::id_to_fieldnorm(fieldnorm_id_ref(*n as u32)) as u64).sum::<u64>(); }
        else { let ratio = alive.iter().filter(|a| **a).count() as f64 / docs.len() as f64; total += (exact as f64 * ratio) as u64; }
    }
    total
}

fn merge_scenario(rng: &mut Rng, nsegs: usize, docs_per_seg: (u64, u64), small: bool) -> Result<MergeOutcome, String> {
    let toks = ["whitespace", "default"];
    let mut sb = Schema::builder();
    let id_field = sb.add_u64_field("id", NumericOptions::default().set_indexed().set_fast());
    let nfields = rng.range(2, 4) as usize;
    let mut fields: Vec<MField> = vec![];
    for k in 0..nfields {
        let name = format!("f{k}");
        // at least two fields with field norms; the others at random
        let norms = k < 2 || rng.chance(2, 3);
        let numeric = k >= 1 && rng.chance(1, 4);
        let max_tokens = if small { rng.range(1, 4) } else { [3u64, 30, 12, 60, 300][rng.below(5) as usize] };
        let vocab = if small { rng.range(2, 5) } else { [5u64, 25, 200][rng.below(3) as usize] };
        if numeric {
            let o = NumericOptions::default().set_indexed();
            let f = sb.add_u64_field(&name, if norms { o.set_fieldnorm() } else { o });
            fields.push(MField { name, kind: Kind::U64, opt: IndexRecordOption::Basic, norms, tokenizer: "raw", field: f, max_tokens: max_tokens.min(6), vocab });
        } else {
            let opt = opt_of(rng.below(3));
            let tokenizer = toks[rng.below(2) as usize];
            let indexing = TextFieldIndexing::default().set_tokenizer(tokenizer).set_index_option(opt).set_fieldnorms(norms);
            let f = sb.add_text_field(&name, TextOptions::default().set_indexing_options(indexing));
            fields.push(MField { name, kind: Kind::Text, opt, norms, tokenizer, field: f, max_tokens, vocab });
        }
    }
    let index = Index::create_in_ram(sb.build());
    let mut writer = index.writer_with_num_threads::<TantivyDocument>(1, 100_000_000).map_err(|e| format!("{e:?}"))?;
    writer.set_merge_policy(Box::new(tantivy::merge_policy::NoMergePolicy));
    // documents by id: per field the token streams
    let mut all_docs: Vec<Vec<DocIn>> = vec![]; // [id][field]
    let mut seg_ids: Vec<Vec<u64>> = vec![];
    let mut next_id = 0u64;
    for _ in 0..nsegs {
        let nd = rng.range(docs_per_seg.0, docs_per_seg.1);
        let mut ids = vec![];
        for _ in 0..nd {
            let mut doc = TantivyDocument::default();
            doc.add_u64(id_field, next_id);
            let mut per_field: Vec<DocIn> = vec![];
            for mf in &fields {
                let mut groups: DocIn = vec![];
                // one document out of 6 does not have the field at all; lengths differ from field to field
                if !rng.chance(1, 6) {
                    match mf.kind {
                        Kind::Text => {
                            let nvals = if rng.chance(1, 5) { 2 } else { 1 };
                            let mut values = vec![];
                            for _ in 0..nvals {
                                let nw = rng.range(if nvals == 1 { 1 } else { 0 }, mf.max_tokens);
                                let text = (0..nw).map(|_| format!("{}{}", mf.name, rng.below(mf.vocab))).collect::<Vec<_>>().join(" ");
                                values.push(analyze(&index, mf.tokenizer, &text));
                                doc.add_text(mf.field, &text);
                            }
                            groups.push(Group { text: true, values });
                        }
                        _ => {
                            for _ in 0..rng.range(1, mf.max_tokens) {
                                let v = rng.below(mf.vocab);
                                doc.add_u64(mf.field, v);
                                groups.push(Group { text: false, values: vec![vec![Tok { term: Term::from_field_u64(mf.field, v).serialized_value_bytes().to_vec(), pos: 0, len: 1 }]] });
                            }
                        }
                    }
                }
                per_field.push(groups);
            }
            writer.add_document(doc).map_err(|e| format!("{e:?}"))?;
            all_docs.push(per_field);
            ids.push(next_id);
            next_id += 1;
        }
        writer.commit().map_err(|e| format!("{e:?}"))?;
        seg_ids.push(ids);
    }
    let read_segment = |seg: &tantivy::SegmentReader, label: &str| -> Result<(String, Vec<(Vec<DocIn>, Result<ReadBack, String>)>), String> {
        let col = seg.fast_fields().u64("id").map_err(|e| format!("{e:?}"))?;
        let ids: Vec<u64> = (0..seg.max_doc()).map(|d| col.first(d).unwrap_or(u64::MAX)).collect();
        if ids.iter().any(|&i| i as usize >= all_docs.len()) { return Err(format!("{label}: a document without id")); }
        let mut per_field = vec![];
        for (k, mf) in fields.iter().enumerate() {
            let docs: Vec<DocIn> = ids.iter().map(|&i| all_docs[i as usize][k].clone()).collect();
            let rb = match guarded(|| read_back(seg, mf.field, mf.norms, ids.len())) { Ok(r) => r, Err(p) => Err(format!("panic: {p}")) };
            per_field.push((docs, rb));
        }
        Ok((label.to_string(), per_field))
    };
    let mut segments = vec![];
    let reader = index.reader().map_err(|e| format!("{e:?}"))?;
    {
        let searcher = reader.searcher();
        if searcher.segment_readers().len() != nsegs { return Err(format!("expected {nsegs} segments, got {}", searcher.segment_readers().len())); }
        for (i, seg) in searcher.segment_readers().iter().enumerate() { segments.push(read_segment(seg, &format!("segment {i} before the merge"))?); }
    }
    // optionally delete a few documents, then merge everything
    let mut deleted = vec![];
    if rng.chance(1, 2) && next_id > 3 {
        for _ in 0..rng.range(1, (next_id / 5).max(1)) { let v = rng.below(next_id); deleted.push(v); writer.delete_term(Term::from_field_u64(id_field, v)); }
        writer.commit().map_err(|e| format!("{e:?}"))?;
    }
    let ids = index.searchable_segment_ids().map_err(|e| format!("{e:?}"))?;
    if !ids.is_empty() {
        match guarded(|| writer.merge(&ids).wait()) { Ok(Ok(_)) => {} Ok(Err(e)) => return Err(format!("merge failed: {e:?}")), Err(p) => return Err(format!("merge panicked: {p}")) }
    }
    writer.wait_merging_threads().ok();
    reader.reload().map_err(|e| format!("{e:?}"))?;
    let searcher = reader.searcher();
    if searcher.segment_readers().len() > 1 { return Err(format!("expected one merged segment, got {}", searcher.segment_readers().len())); }
    let mut ndocs_merged = 0;
    for seg in searcher.segment_readers() {
        if seg.has_deletes() { return Err("merged segment still has deletes".into()); }
        ndocs_merged = seg.max_doc();
        segments.push(read_segment(seg, "merged segment")?);
    }
    deleted.sort(); deleted.dedup();
    let desc = json!({"what": "merge scenario", "segments": seg_ids.iter().map(|v| v.len()).collect::<Vec<_>>(), "deleted": deleted.len(), "merged_docs": ndocs_merged,
        "fields": fields.iter().map(|f| json!({"name": f.name, "kind": format!("{:?}", f.kind), "opt": opt_code(f.opt), "norms": f.norms, "tokenizer": f.tokenizer, "max_tokens": f.max_tokens})).collect::<Vec<_>>()});
    if ndocs_merged as usize + deleted.len() != next_id as usize { return Err(format!("merged segment has {} documents, expected {}", ndocs_merged, next_id as usize - deleted.len())); }
    let sources = seg_ids.iter().map(|ids| {
        let per_field: Vec<Vec<DocIn>> = (0..fields.len()).map(|k| ids.iter().map(|&i| all_docs[i as usize][k].clone()).collect()).collect();
        (per_field, ids.iter().map(|i| !deleted.contains(i)).collect())
    }).collect();
    Ok(MergeOutcome { fields, segments, sources, desc })
}

/// Compare one field of one segment with the reference of the specification (Rust side).
fn check_against_reference(out: &mut CaseOut, opt: IndexRecordOption, docs: &[DocIn], rb: &ReadBack, desc: &serde_json::Value, total_override: Option<u64>) {
    let (exp, total, ntok) = reference_index(opt, docs);
    let total = total_override.unwrap_or(total);
    let exp_v: Vec<(Vec<u8>, Vec<Posting>)> = exp.into_iter().collect();
    let ok_terms = exp_v.len() == rb.terms.len() && exp_v.iter().zip(&rb.terms).all(|(a, b)| a.0 == b.0);
    out.spec_checked(ok_terms, json!({"what": "term dictionary differs from the distinct sorted terms", "case": desc, "expected": exp_v.len(), "got": rb.terms.len()}));
    if ok_terms {
        for (j, (a, b)) in exp_v.iter().zip(&rb.terms).enumerate() {
            out.spec_checked(a.1 == b.1 && rb.doc_freqs[j] as usize == a.1.len(), json!({"what": "posting list differs", "case": desc, "term": cf::hex(&a.0), "expected_len": a.1.len(), "got_len": b.1.len()}));
        }
    }
    out.spec_checked(rb.total == total, json!({"what": "total_num_tokens", "case": desc, "expected": total, "got": rb.total}));
    if let Some(ns) = &rb.norms {
        let first_bad = ns.iter().zip(&ntok).position(|(id, n)| *id != fieldnorm_id_ref(*n));
        let ok = ns.len() == ntok.len() && first_bad.is_none();
        out.spec_checked(ok, json!({"what": "fieldnorm ids differ from the quantised token counts", "case": desc, "first_bad_doc": first_bad,
            "got": first_bad.map(|d| ns[d]), "expected": first_bad.map(|d| fieldnorm_id_ref(ntok[d]))}));
    }
    out.spec_checked(rb.dict_ok, json!({"what": "term dictionary lookups disagree with its stream", "case": desc}));
    out.spec_checked(rb.pos_panics.is_empty(), json!({"what": "Postings::positions() panicked", "case": desc}));
}

/// One BlockSegmentPostings cursor re-targeted from term to term (InvertedIndexReader::reset_block_postings_from_terminfo)
/// after arbitrary prior use must read what a fresh cursor reads: the posting list of the term.
/// Known class F71: the field records frequencies and the previous or the new term was recorded without them
/// (non-text JSON leaf): `reset` keeps the record option / frequency decoder of the previous term.
#[allow(clippy::too_many_arguments)]
fn reuse_checks(out: &mut CaseOut, rng: &mut Rng, inv: &tantivy::InvertedIndexReader, exp_v: &[(Vec<u8>, Vec<Posting>)], cands: &[usize],
                docs: &[DocIn], opt: IndexRecordOption, desc: &serde_json::Value, thorough: bool) {
    if cands.is_empty() { return; }
    let is_text = |key: &Vec<u8>| docs.iter().any(|d| d.iter().any(|g| g.text && g.values.iter().any(|v| v.iter().any(|t| &t.term == key))));
    let long: Vec<usize> = cands.iter().cloned().filter(|&j| exp_v[j].1.len() >= 129).collect();
    let req = opt_of(rng.range(0, 2));
    let with_freq = req.has_freq();
    let steps = if thorough { 60 } else { 24 };
    let mut reuse_coq = if thorough { 4 } else { 2 };
    let mut known_coq = 2;
    for step in 0..steps {
        // previous term: mostly one with >= 129 documents (so that the cursor can leave its first block)
        let jp = if !long.is_empty() && step % 4 != 3 { long[rng.below(long.len() as u64) as usize] } else { cands[rng.below(cands.len() as u64) as usize] };
        let jn = if step % 3 == 0 { jp } else { cands[rng.below(cands.len().min(20) as u64) as usize] };
        let (kp, pp) = &exp_v[jp];
        let (kn, pn) = &exp_v[jn];
        let tip = inv.terms().get(kp).unwrap().unwrap();
        let tin = inv.terms().get(kn).unwrap().unwrap();
        let mut usage = "";
        // a fresh cursor on the previous term for every step: the state before the reset is exactly (term, usage)
        let r = guarded(|| -> Result<Vec<(u32, u32)>, String> {
            let mut bp = inv.read_block_postings_from_terminfo(&tip, req).map_err(|e| format!("{e:?}"))?;
            usage = use_cursor(rng, &mut bp, pp);
            inv.reset_block_postings_from_terminfo(&tin, &mut bp).map_err(|e| format!("{e:?}"))?;
            // re-targeted twice in a row (a cursor walking over the terms of a field)
            if step % 5 == 4 { usage = "exhausted-then-reset"; let _ = drain_blocks(&mut bp, pn.len())?; inv.reset_block_postings_from_terminfo(&tin, &mut bp).map_err(|e| format!("{e:?}"))?; }
            drain_blocks(&mut bp, pn.len())
        });
        let expected: Vec<(u32, u32)> = pn.iter().map(|x| (x.doc, if with_freq { x.tf } else { 1 })).collect();
        let mut d = json!({"what": "cursor re-targeted with reset_block_postings_from_terminfo reads a different posting list", "case": desc,
            "previous_term": cf::hex(kp), "previous_len": pp.len(), "usage": usage, "term": cf::hex(kn), "len": pn.len(), "requested": opt_code(req)});
        let ok = match &r {
            Ok(Ok(got)) => {
                let first_diff = got.iter().zip(&expected).position(|(a, b)| a != b);
                d["first_diff"] = json!(first_diff); d["got_len"] = json!(got.len());
                if let Some(k) = first_diff { d["got"] = json!(got[k]); d["expected"] = json!(expected[k]); }
                *got == expected
            }
            Ok(Err(e)) => { d["error"] = json!(e); false }
            Err(p) => { d["panic"] = json!(p); false }
        };
        let f71 = opt.has_freq() && (!is_text(kp) || !is_text(kn));
        if ok || !f71 {
            out.spec_checked(ok, d.clone());
            if let Ok(Ok(got)) = &r {
                if reuse_coq > 0 && pp.len() >= 129 && usage != "untouched" && pn.len() <= 400 {
                    reuse_coq -= 1;
                    let ds: Vec<u32> = pn.iter().map(|x| x.doc).collect();
                    let tfs: Vec<u32> = pn.iter().map(|x| x.tf).collect();
                    out.coq_case("spec", format!("reuse_case {} {} {} {}", cf::boolean(with_freq), cf::ns(&ds), cf::ns(&tfs), cf::list(got, |(a, b)| format!("({}, {})", a, b))), d.clone(), true);
                }
            }
        } else if known_coq > 0 && docs.len() <= 60 {
            // classifier evaluated by Coq on the documents of the segment
            known_coq -= 1;
            out.coq_case("known:F71", format!("f71_class (ro {}) {} {} {}", opt_code(opt), docs_term(docs), cf::bytes(kp), cf::bytes(kn)), d.clone(), true);
        } else {
            out.n_spec += 1;
            d["known"] = json!("F71");
            out.spec_fail.push(d.clone());
        }
        out.count("cursor_reuse_steps", 1);
        if pp.len() >= 129 && usage != "untouched" { out.count("cursor_reuse_after_leaving_first_block", 1); }
    }
}

// ---- documents with many values, interleaved across fields ------------------------------------------------------
struct Interleaved {
    /// per field (a, b, j): documents as groups (reference input), record option, read-back
    fields: Vec<(String, IndexRecordOption, Vec<DocIn>, Result<ReadBack, String>)>,
    /// per document: (field id 0/1/2, token stream; empty for JSON values) in insertion order -- the Coq input
    raw: Vec<Vec<(u64, Value)>>,
    desc: serde_json::Value,
}

fn interleaved_scenario(rng: &mut Rng, sizes: &[usize]) -> Result<Interleaved, String> {
    use tantivy::tokenizer::{PreTokenizedString, Token};
    let opt_a = IndexRecordOption::WithFreqsAndPositions;
    let opt_b = if rng.chance(1, 4) { IndexRecordOption::WithFreqs } else { IndexRecordOption::WithFreqsAndPositions };
    let tok_b = if rng.chance(1, 2) { "default" } else { "whitespace" };
    let mut sb = Schema::builder();
    let norms = rng.chance(1, 2);
    let fa = sb.add_text_field("a", TextOptions::default().set_indexing_options(TextFieldIndexing::default().set_tokenizer("whitespace").set_index_option(opt_a).set_fieldnorms(norms)));
    let fn_ = sb.add_u64_field("n", NumericOptions::default().set_indexed());
    let fb = sb.add_text_field("b", TextOptions::default().set_indexing_options(TextFieldIndexing::default().set_tokenizer(tok_b).set_index_option(opt_b).set_fieldnorms(norms)));
    let fj = sb.add_json_field("j", JsonObjectOptions::default().set_indexing_options(TextFieldIndexing::default().set_tokenizer("whitespace").set_index_option(IndexRecordOption::WithFreqsAndPositions)));
    let index = Index::create_in_ram(sb.build());
    let mut writer = index.writer_with_num_threads::<TantivyDocument>(1, 100_000_000).map_err(|e| format!("{e:?}"))?;
    let mut docs_a: Vec<DocIn> = vec![]; let mut docs_b: Vec<DocIn> = vec![]; let mut docs_j: Vec<DocIn> = vec![];
    let mut raw = vec![];
    for (d, &nvals) in sizes.iter().enumerate() {
        let mut doc = TantivyDocument::default();
        let mut va: Vec<Value> = vec![]; let mut vb: Vec<Value> = vec![];
        let mut per_path: BTreeMap<String, (bool, Vec<Value>)> = BTreeMap::new();
        let mut rawdoc: Vec<(u64, Value)> = vec![];
        // insertion pattern: strictly alternating, random, or "later field first" (b..b a..a)
        let pattern = rng.below(3);
        for k in 0..nvals {
            let which = match pattern { 0 => [2u64, 1, 0, 3][k % 4], 1 => rng.below(4), _ => if k < nvals / 2 { 1 } else if k % 5 == 4 { 2 } else { 0 } };
            let nw = rng.range(1, 3);
            let text: String = (0..nw).map(|i| format!("d{d}v{k}w{i}x{}", rng.below(3))).collect::<Vec<_>>().join(" ");
            match which {
                0 => { let v = analyze(&index, "whitespace", &text); doc.add_text(fa, &text); va.push(v.clone()); rawdoc.push((0, v)); }
                1 => {
                    if rng.chance(1, 3) {
                        // pre-tokenized value: explicit positions (with a hole) and lengths
                        let mut toks = vec![]; let mut pos = 0usize; let mut off = 0usize;
                        for w in text.split(' ') { toks.push(Token { offset_from: off, offset_to: off + w.len(), position: pos, text: w.to_string(), position_length: 1 }); off += w.len() + 1; pos += if rng.chance(1, 4) { 2 } else { 1 }; }
                        let v: Value = toks.iter().map(|t| Tok { term: t.text.as_bytes().to_vec(), pos: t.position as u32, len: t.position_length as u32 }).collect();
                        doc.add_pre_tokenized_text(fb, PreTokenizedString { text: text.clone(), tokens: toks });
                        vb.push(v.clone()); rawdoc.push((1, v));
                    } else { let v = analyze(&index, tok_b, &text); doc.add_text(fb, &text); vb.push(v.clone()); rawdoc.push((1, v)); }
                }
                2 => {
                    let path = format!("p{}", rng.below(2));
                    let pt = Term::from_field_json_path(fj, &path, false);
                    let v: Value = analyze(&index, "whitespace", &text).into_iter().map(|t| { let mut term = pt.clone(); term.append_type_and_str(std::str::from_utf8(&t.term).unwrap()); Tok { term: term.serialized_value_bytes().to_vec(), pos: t.pos, len: t.len } }).collect();
                    per_path.entry(path.clone()).or_insert((true, vec![])).1.push(v);
                    let mut obj: BTreeMap<String, OwnedValue> = BTreeMap::new();
                    obj.insert(path, OwnedValue::Str(text));
                    doc.add_object(fj, obj);
                    rawdoc.push((2, vec![]));
                }
                _ => { doc.add_u64(fn_, k as u64); rawdoc.push((3, vec![])); }
            }
        }
        writer.add_document(doc).map_err(|e| format!("{e:?}"))?;
        docs_a.push(vec![Group { text: true, values: va }]);
        docs_b.push(vec![Group { text: true, values: vb }]);
        docs_j.push(per_path.into_iter().map(|(_, (text, values))| Group { text, values }).collect());
        raw.push(rawdoc);
    }
    writer.commit().map_err(|e| format!("{e:?}"))?;
    let reader = index.reader().map_err(|e| format!("{e:?}"))?;
    let searcher = reader.searcher();
    if searcher.segment_readers().len() != 1 { return Err(format!("expected one segment, got {}", searcher.segment_readers().len())); }
    let seg = searcher.segment_reader(0);
    let rb = |field: Field, with_norms: bool| match guarded(|| read_back(seg, field, with_norms, sizes.len())) { Ok(r) => r, Err(p) => Err(format!("panic: {p}")) };
    let fields = vec![("a".to_string(), opt_a, docs_a, rb(fa, norms)), ("b".to_string(), opt_b, docs_b, rb(fb, norms)),
                      ("j".to_string(), IndexRecordOption::WithFreqsAndPositions, docs_j, rb(fj, false))];
    let desc = json!({"what": "documents with many values interleaved across fields", "values_per_doc": sizes, "tokenizer_b": tok_b, "opt_b": opt_code(opt_b), "norms": norms});
    Ok(Interleaved { fields, raw, desc })
}

fn fieldnorm_id_ref(n: u32) -> u8 { FieldNormReader::fieldnorm_to_id(n) }

fn main() {
    let args = Args::parse();
    tvh::quiet_panics();
    let mut rng = Rng::new(args.seed);
    let thorough = args.thorough();
    let mut out = CaseOut::new(&args.out, HEADER, 24);

    // ---------------- (i-a) VInt ----------------
    let mut vals: Vec<u64> = vec![0, 1, 127, 128, 129, 16383, 16384, 16385, u32::MAX as u64 - 1, u32::MAX as u64, u32::MAX as u64 + 1, u64::MAX - 1, u64::MAX];
    for k in 1..10u32 { let p = 1u64 << (7 * k); vals.extend([p - 1, p, p + 1]); }
    for _ in 0..(if thorough { 400 } else { 80 }) { let bits = rng.range(0, 64); vals.push(if bits == 64 { rng.next_u64() } else { rng.next_u64() & ((1u64 << bits) - 1) }); }
    for v in vals {
        let mut b = vec![];
        tantivy_common::VInt(v).serialize_into_vec(&mut b);
        out.coq_case("tie", format!("vint_case {} {}", v, cf::bytes(&b)), json!({"what": "vint", "v": v.to_string()}), v >= 128);
        out.count("vint_cases", 1);
    }

    // ---------------- (i-b) field norms ----------------
    let table: Vec<u32> = (0..=255u8).map(FieldNormReader::id_to_fieldnorm).collect();
    out.coq_case("tie", format!("fieldnorm_table_case {}", cf::ns(&table)), json!({"what": "fieldnorm table"}), true);
    let mut ns: Vec<u32> = vec![0, 1, 39, 40, 41, 42, 43, u32::MAX, u32::MAX - 1, 2_013_265_944, 2_013_265_943, 2_013_265_945];
    for &t in &table { ns.extend([t.saturating_sub(1), t, t.saturating_add(1)]); }
    for _ in 0..(if thorough { 3000 } else { 300 }) { let bits = rng.range(1, 32); ns.push((rng.next_u64() & ((1u64 << bits) - 1)) as u32); }
    for (i, n) in ns.iter().enumerate() {
        let id = fieldnorm_id_ref(*n);
        if i % 3 == 0 || i < 40 {
            out.coq_case("tie", format!("fieldnorm_case {} {}", n, id), json!({"what": "fieldnorm_to_id", "n": n}), *n > 40);
            out.coq_case("spec", format!("fieldnorm_spec_case {} {}", n, id), json!({"what": "fieldnorm bracket", "n": n, "id": id}), *n > 40);
        }
        // the same predicate on the Rust side for every value
        let lo = FieldNormReader::id_to_fieldnorm(id);
        let ok = lo <= *n && (id == 255 || *n < FieldNormReader::id_to_fieldnorm(id + 1)) && (*n > 40 || id as u32 == *n);
        out.spec_checked(ok, json!({"what": "fieldnorm bracket violated", "n": n, "id": id}));
        out.count("fieldnorm_values", 1);
    }

    // ---------------- (ii) posting-list codec through the public serializer ----------------
    let lens: Vec<usize> = if thorough { vec![1, 2, 127, 128, 129, 255, 256, 257, 383, 384, 385, 512, 640, 1000, 2049, 5000] } else { vec![1, 2, 127, 128, 129, 255, 256, 257, 384, 385, 513] };
    let mut codec_n = 0;
    for round in 0..(if thorough { 10 } else { 3 }) {
        for &len in &lens {
            for optk in 0..3u64 {
                let bits = match codec_n % 8 { 0 => 1, 1 => rng.range(2, 8) as u32, 2 => rng.range(8, 16) as u32, 3 => rng.range(16, 24) as u32, 4 => rng.range(24, 30) as u32, 5 => 30, 6 => 31, _ => 0 };
                let docs = gen_docs(&mut rng, len, bits);
                let tf_kind = rng.below(5);
                let tfs = gen_tfs(&mut rng, len, tf_kind);
                let rtf = !(optk > 0 && rng.chance(1, 6)); // JSON-like term written without frequencies in a field with frequencies
                let opt = opt_of(optk);
                let data = match guarded(|| serialize_postings(opt, rtf, &docs, &tfs, round % 2 == 1)) {
                    Ok(d) => d,
                    Err(p) => { out.spec_checked(false, json!({"what": "PostingsSerializer panicked", "panic": p, "len": len, "opt": optk, "docs_head": &docs[..len.min(8)]})); continue; }
                };
                let desc = json!({"what": "codec", "len": len, "opt": optk, "rtf": rtf, "gap_bits": bits, "first": docs[0], "last": docs[len - 1], "bytes": data.len()});
                let req = if rng.chance(1, 4) { rng.below(3) } else { optk };
                out.coq_case("tie", format!("codec_case {} {} {} {} {} {}", optk, req, cf::boolean(rtf), cf::ns(&docs), cf::ns(&tfs), cf::bytes(&data)), desc.clone(), len >= 128);
                if len >= 128 && codec_n % 2 == 0 {
                    out.coq_case("tie", format!("skip_case {} {} {} {} {}", optk, cf::boolean(rtf), cf::ns(&docs), cf::ns(&tfs), cf::bytes(&data)), desc.clone(), true);
                }
                codec_n += 1;
                out.count("codec_lists", 1);
                out.count(&format!("codec_len_{}", len), 1);
                out.count(&format!("codec_gapbits_{}", bits), 1);
            }
        }
    }

    // ---------------- (ii-b) positions stream through the public PositionSerializer ----------------
    let plens: Vec<usize> = if thorough { vec![0, 1, 127, 128, 129, 255, 256, 257, 300, 384, 511, 640] } else { vec![0, 1, 127, 128, 129, 256, 257, 300] };
    for (pi, &plen) in plens.iter().enumerate() {
        for rep in 0..(if thorough { 3 } else { 1 }) {
            let maxbits = [1u64, 3, 7, 12, 20, 31, 32][(pi + rep) % 7];
            let deltas: Vec<u32> = (0..plen).map(|i| if i % 5 == 0 { 0 } else { (rng.next_u64() & ((1u64 << maxbits) - 1)) as u32 }).collect();
            let mut buf: Vec<u8> = vec![];
            let r = guarded(|| {
                let mut ser = tantivy::positions::PositionSerializer::new(&mut buf);
                // several write calls per term (one per document)
                let mut rest = &deltas[..];
                while !rest.is_empty() { let k = (1 + rng.below(200) as usize).min(rest.len()); ser.write_positions_delta(&rest[..k]); rest = &rest[k..]; }
                ser.close_term().unwrap();
                ser.close().unwrap();
            });
            if let Err(p) = r { out.spec_checked(false, json!({"what": "PositionSerializer panicked", "panic": p, "len": plen})); continue; }
            let mut reads: Vec<(usize, usize)> = vec![(0, plen.min(1)), (0, plen), (plen, 0)];
            for b in [127usize, 128, 129, 255, 256] { if b < plen { reads.push((b, 1)); reads.push((b.saturating_sub(1), (plen - b + 1).min(3))); } }
            for _ in 0..6 { if plen > 0 { let o = rng.below(plen as u64) as usize; let l = rng.below((plen - o) as u64 + 1) as usize; reads.push((o, l)); } }
            out.coq_case("tie", format!("positions_case {} {} {}", cf::ns(&deltas), cf::bytes(&buf), cf::list(&reads, |(o, l)| format!("({}, {})", o, l))),
                         json!({"what": "positions stream", "len": plen, "maxbits": maxbits, "bytes": buf.len(), "reads": reads.len()}), plen >= 128);
            out.count("positions_streams", 1);
        }
    }

    // ---------------- (iii) segments ----------------
    let kinds = [Kind::Text, Kind::U64, Kind::I64, Kind::F64, Kind::Date, Kind::Bytes, Kind::Ip, Kind::Bool, Kind::Facet, Kind::Json];
    let toks = ["default", "whitespace", "raw"];
    // small segments: specification evaluated in Coq
    let n_small = if thorough { 900 } else { 120 };
    for i in 0..n_small {
        let kind = if i % 3 == 0 { Kind::Text } else { kinds[(i / 3) % kinds.len()] };
        let cfg = FieldCfg { kind, opt: opt_of((i as u64 / 2) % 3), norms: i % 2 == 0, tokenizer: toks[(i / 5) % 3] };
        let ndocs = rng.range(1, 9) as usize;
        let shape = if kind == Kind::Text { 1 } else { rng.below(3) };
        let vocab = rng.range(2, 9);
        match build_segment(&mut rng, &cfg, ndocs, shape, vocab) {
            Err(e) => out.spec_checked(false, json!({"what": "indexing failed", "error": e, "cfg": format!("{:?}", cfg.kind)})),
            Ok(so) => {
                let desc = json!({"what": "segment", "cfg": so.cfg_desc, "docs": docs_term(&so.docs)});
                match &so.rb {
                    Err(e) => out.spec_checked(false, json!({"what": "read-back failed", "error": e, "case": desc})),
                    Ok(rb) => {
                        out.spec_checked(rb.dict_ok, json!({"what": "term dictionary lookups disagree with its stream", "case": desc}));
                        let norms = match &rb.norms { Some(v) => format!("(Some {})", cf::ns(v)), None => "None".into() };
                        out.coq_case("spec", format!("check_field (ro {}) {} {} {} {} {}", opt_code(so.opt), docs_term(&so.docs), observed_term(&rb.terms), cf::ns(&rb.doc_freqs), rb.total, norms),
                                     desc.clone(), rb.terms.len() >= 2 && ndocs >= 2);
                        for (key, msg) in &rb.pos_panics {
                            // F15: positions() panics on a term recorded without frequencies in a field with positions.
                            // Classifier (evaluated by Coq): the term is NOT a text term and the field records positions.
                            out.coq_case("known:F15", format!("f15_class (ro {}) {} {}", opt_code(so.opt), docs_term(&so.docs), cf::bytes(key)),
                                         json!({"what": "Postings::positions() panicked", "panic": msg, "term": cf::hex(key), "case": desc}), true);
                            out.count("positions_panics", 1);
                        }
                        out.count(&format!("small_segments_{:?}", cfg.kind), 1);
                    }
                }
                let _ = (&so.index, so.field);
            }
        }
    }
    // large segments: Rust reference of the specification (bulk), plus seek programs
    let n_large = if thorough { 120 } else { 12 };
    for i in 0..n_large {
        let kind = if i % 3 != 2 { Kind::Text } else { kinds[1 + (i / 3) % (kinds.len() - 1)] };
        let cfg = FieldCfg { kind, opt: opt_of(2 - (i as u64 % 3)), norms: i % 2 == 0, tokenizer: toks[i % 2] };
        let ndocs = if thorough && i == 30 { 100_000 } else if thorough && i % 8 == 7 { 12_000 } else if i % 4 == 3 { 60 } else { [300usize, 260, 1100, 4100][i % 4] };
        let shape = if i % 4 == 3 { 3 } else { 2 };
        let vocab = [5u64, 40, 300][i % 3];
        match build_segment(&mut rng, &cfg, ndocs, shape, vocab) {
            Err(e) => out.spec_checked(false, json!({"what": "indexing failed", "error": e})),
            Ok(so) => {
                let desc = json!({"what": "large segment", "cfg": so.cfg_desc});
                match &so.rb {
                    Err(e) => out.spec_checked(false, json!({"what": "read-back failed", "error": e, "case": desc})),
                    Ok(rb) => {
                        let (exp, total, ntok) = reference_index(so.opt, &so.docs);
                        let exp_v: Vec<(Vec<u8>, Vec<Posting>)> = exp.into_iter().collect();
                        let same_terms = exp_v.len() == rb.terms.len() && exp_v.iter().zip(&rb.terms).all(|(a, b)| a.0 == b.0);
                        out.spec_checked(same_terms, json!({"what": "term dictionary differs from the distinct sorted terms", "case": desc, "expected": exp_v.len(), "got": rb.terms.len()}));
                        if same_terms {
                            for (j, (a, b)) in exp_v.iter().zip(&rb.terms).enumerate() {
                                let ok = a.1 == b.1 && rb.doc_freqs[j] as usize == a.1.len();
                                out.spec_checked(ok, json!({"what": "posting list differs", "case": desc, "term": cf::hex(&a.0), "expected_len": a.1.len(), "got_len": b.1.len(),
                                    "first_diff": a.1.iter().zip(&b.1).position(|(x, y)| x != y)}));
                                out.count("large_terms", 1);
                                out.count(&format!("posting_len_{}", match a.1.len() { 1 => "1", 127 => "127", 128 => "128", 129 => "129", 255 => "255", 256 => "256", 257 => "257", 2..=126 => "2-126", 130..=254 => "130-254", 258..=999 => "258-999", _ => "1000+" }), 1);
                            }
                        }
                        for (key, msg) in &rb.pos_panics {
                            let is_text = so.docs.iter().any(|d| d.iter().any(|g| g.text && g.values.iter().any(|v| v.iter().any(|t| &t.term == key))));
                            if !is_text && so.opt.has_positions() {
                                out.n_spec += 1;
                                out.spec_fail.push(json!({"known": "F15", "what": "Postings::positions() panicked on a non-text JSON term", "panic": msg, "term": cf::hex(key), "case": desc}));
                            } else {
                                out.spec_checked(false, json!({"what": "Postings::positions() panicked", "panic": msg, "term": cf::hex(key), "case": desc}));
                            }
                        }
                        out.spec_checked(rb.total == total, json!({"what": "total_num_tokens", "case": desc, "expected": total, "got": rb.total}));
                        if let Some(ns) = &rb.norms {
                            let ok = ns.len() == ntok.len() && ns.iter().zip(&ntok).all(|(id, n)| *id == fieldnorm_id_ref(*n));
                            out.spec_checked(ok, json!({"what": "fieldnorm ids", "case": desc}));
                        }
                        out.spec_checked(rb.dict_ok, json!({"what": "term dictionary lookups disagree with its stream", "case": desc}));
                        // ---- advance / seek programs on the real SegmentPostings
                        let reader = so.index.reader().unwrap();
                        let searcher = reader.searcher();
                        let seg = searcher.segment_reader(0);
                        let inv = seg.inverted_index(so.field).unwrap();
                        let mut coq_budget = if thorough { 12 } else { 6 };
                        let mut cands: Vec<usize> = (0..rb.terms.len()).filter(|&j| rb.terms[j].1.len() >= 2).collect();
                        rng.shuffle(&mut cands);
                        cands.sort_by_key(|&j| std::cmp::Reverse(rb.terms[j].1.len().min(600)));
                        for &j in cands.iter().take(if thorough { 40 } else { 14 }) {
                            let (key, plist) = &exp_v[j];
                            let ti = inv.terms().get(key).unwrap().unwrap();
                            for _rep in 0..3 {
                                let mut p = inv.read_postings_from_terminfo(&ti, IndexRecordOption::WithFreqsAndPositions).unwrap();
                                let mut k = 0usize; // reference cursor
                                let mut prog: Vec<Option<u32>> = vec![];
                                let mut obs: Vec<(u32, u32)> = vec![];
                                let mut ok = true;
                                let steps = rng.range(3, 40);
                                for _ in 0..steps {
                                    if k >= plist.len() && rng.chance(2, 3) { break; }
                                    let cur = if k < plist.len() { plist[k].doc } else { TERMINATED };
                                    let op = if rng.chance(2, 5) { None } else {
                                        let t = match rng.below(6) {
                                            0 => cur,
                                            1 => cur.saturating_add(1).min(TERMINATED),
                                            2 => { let j2 = (k + rng.range(1, 300) as usize).min(plist.len().saturating_sub(1)); plist.get(j2).map(|x| x.doc).unwrap_or(TERMINATED).max(cur) }
                                            3 => { let j2 = (k + 127 + rng.below(3) as usize).min(plist.len().saturating_sub(1)); plist.get(j2).map(|x| x.doc + rng.below(2) as u32).unwrap_or(TERMINATED).max(cur).min(TERMINATED) }
                                            4 => TERMINATED,
                                            _ => (cur as u64 + rng.below(ndocs as u64 / 4 + 2)).min(TERMINATED as u64) as u32,
                                        };
                                        Some(t)
                                    };
                                    let r = guarded(|| match op { None => { p.advance(); } Some(t) => { p.seek(t); } });
                                    if r.is_err() { ok = false; break; }
                                    match op { None => { if k < plist.len() { k += 1; } } Some(t) => { while k < plist.len() && plist[k].doc < t { k += 1; } } }
                                    let d = p.doc();
                                    let tf = if d == TERMINATED { 0 } else { p.term_freq() };
                                    let mut pos = vec![];
                                    if d != TERMINATED { p.positions(&mut pos); }
                                    let (ed, etf, epos) = if k < plist.len() { (plist[k].doc, plist[k].tf, plist[k].pos.clone()) } else { (TERMINATED, 0, vec![]) };
                                    if d != ed || (d != TERMINATED && (tf != etf || pos != epos)) { ok = false; }
                                    prog.push(op);
                                    obs.push((d, tf));
                                }
                                out.spec_checked(ok, json!({"what": "advance/seek program disagrees with the list semantics", "case": desc, "term": cf::hex(key), "prog": format!("{:?}", prog), "observed": format!("{:?}", obs)}));
                                out.count("seek_programs", 1);
                                out.count("seek_ops", prog.len() as u64);
                                if coq_budget > 0 && plist.len() <= 400 && !prog.is_empty() {
                                    coq_budget -= 1;
                                    let docs: Vec<u32> = plist.iter().map(|x| x.doc).collect();
                                    let tfs: Vec<u32> = plist.iter().map(|x| x.tf).collect();
                                    let prog_t = cf::list(&prog, |o| match o { None => "OAdvance".into(), Some(t) => format!("(OSeek {})", t) });
                                    let obs_t = cf::list(&obs, |(d, t)| format!("({}, {})", d, t));
                                    out.coq_case("spec", format!("seek_case {} {} {} {}", cf::ns(&docs), cf::ns(&tfs), prog_t, obs_t),
                                                 json!({"what": "seek program", "case": desc, "term": cf::hex(key), "len": plist.len(), "prog": format!("{:?}", prog)}), plist.len() >= 128);
                                }
                            }
                        }
                        reuse_checks(&mut out, &mut rng, &inv, &exp_v, &cands, &so.docs, so.opt, &desc, thorough);
                        out.count(&format!("large_segments_{:?}", cfg.kind), 1);
                    }
                }
            }
        }
    }
    // ---------------- (iii-b) JSON fields: cursor reuse across text and non-text terms ----------------
    for i in 0..(if thorough { 12 } else { 4 }) {
        let cfg = FieldCfg { kind: Kind::Json, opt: opt_of(i as u64 % 3), norms: false, tokenizer: toks[i % 2] };
        let ndocs = if i % 2 == 0 { 40 } else { 400 };
        match build_segment(&mut rng, &cfg, ndocs, 0, 3) {
            Err(e) => out.spec_checked(false, json!({"what": "indexing failed", "error": e})),
            Ok(so) => {
                let desc = json!({"what": "json segment (cursor reuse)", "cfg": so.cfg_desc});
                if let Ok(rb) = &so.rb {
                    let (exp, _total, _ntok) = reference_index(so.opt, &so.docs);
                    let exp_v: Vec<(Vec<u8>, Vec<Posting>)> = exp.into_iter().collect();
                    let same = exp_v.len() == rb.terms.len() && exp_v.iter().zip(&rb.terms).all(|(a, b)| a.0 == b.0 && a.1 == b.1);
                    out.spec_checked(same, json!({"what": "inverted index of a JSON field differs from the specification", "case": desc}));
                    if same {
                        let reader = so.index.reader().unwrap();
                        let searcher = reader.searcher();
                        let inv = searcher.segment_reader(0).inverted_index(so.field).unwrap();
                        let mut cands: Vec<usize> = (0..exp_v.len()).collect();
                        rng.shuffle(&mut cands);
                        cands.sort_by_key(|&j| std::cmp::Reverse(exp_v[j].1.len().min(300)));
                        reuse_checks(&mut out, &mut rng, &inv, &exp_v, &cands, &so.docs, so.opt, &desc, thorough);
                        out.count("json_reuse_segments", 1);
                    }
                }
            }
        }
    }

    // ---------------- (iv) several normed fields, several segments, merge ----------------
    let n_merge_small = if thorough { 120 } else { 24 };
    for _ in 0..n_merge_small {
        let nsegs = rng.range(2, 3) as usize;
        match merge_scenario(&mut rng, nsegs, (1, 4), true) {
            Err(e) => out.spec_checked(false, json!({"what": "merge scenario failed", "error": e})),
            Ok(mo) => {
                for (label, per_field) in &mo.segments {
                    for (fk, (mf, (docs, rb))) in mo.fields.iter().zip(per_field).enumerate() {
                        let desc = json!({"what": "field of a segment", "segment": label, "field": mf.name, "scenario": mo.desc, "docs": docs_term(docs)});
                        match rb {
                            Err(e) => out.spec_checked(false, json!({"what": "read-back failed", "error": e, "case": desc})),
                            Ok(rb) => {
                                let norms = match &rb.norms { Some(v) => format!("(Some {})", cf::ns(v)), None => "None".into() };
                                if label == "merged segment" {
                                    let srcs = cf::list(&mo.sources, |(pf, al)| format!("({}, {})", docs_term(&pf[fk]), cf::list(al, |a| cf::boolean(*a))));
                                    out.coq_case("spec", format!("check_field_merged (ro {}) {} {} {} {} {} {} {}", opt_code(mf.opt), cf::boolean(mf.norms), docs_term(docs), observed_term(&rb.terms), cf::ns(&rb.doc_freqs), rb.total, norms, srcs),
                                                 desc, mf.norms && docs.len() >= 2);
                                    let srcs_r: Vec<(Vec<DocIn>, Vec<bool>)> = mo.sources.iter().map(|(pf, al)| (pf[fk].clone(), al.clone())).collect();
                                    out.spec_checked(rb.total == expected_merged_total(mf.norms, &srcs_r), json!({"what": "total_num_tokens of a merged field differs from the documented estimate", "field": mf.name, "scenario": mo.desc, "got": rb.total}));
                                } else {
                                    out.coq_case("spec", format!("check_field (ro {}) {} {} {} {} {}", opt_code(mf.opt), docs_term(docs), observed_term(&rb.terms), cf::ns(&rb.doc_freqs), rb.total, norms), desc, false);
                                }
                                out.count(if label == "merged segment" { "merged_fields_coq" } else { "premerge_fields_coq" }, 1);
                            }
                        }
                    }
                }
            }
        }
    }
    let n_merge_large = if thorough { 30 } else { 6 };
    for i in 0..n_merge_large {
        let per = if i % 3 == 2 { (120, 300) } else { (20, 90) };
        let nsegs = rng.range(2, 4) as usize;
        match merge_scenario(&mut rng, nsegs, per, false) {
            Err(e) => out.spec_checked(false, json!({"what": "merge scenario failed", "error": e})),
            Ok(mo) => {
                for (label, per_field) in &mo.segments {
                    for (fk, (mf, (docs, rb))) in mo.fields.iter().zip(per_field).enumerate() {
                        let desc = json!({"what": "field of a segment", "segment": label, "field": mf.name, "scenario": mo.desc});
                        match rb {
                            Err(e) => out.spec_checked(false, json!({"what": "read-back failed", "error": e, "case": desc})),
                            Ok(rb) => { let merged = label == "merged segment";
                                let srcs: Vec<(Vec<DocIn>, Vec<bool>)> = mo.sources.iter().map(|(pf, al)| (pf[fk].clone(), al.clone())).collect();
                                check_against_reference(&mut out, mf.opt, docs, rb, &desc, if merged { Some(expected_merged_total(mf.norms, &srcs)) } else { None }); out.count(if label == "merged segment" { "merged_fields" } else { "premerge_fields" }, 1); if mf.norms && label == "merged segment" { out.count("merged_normed_fields", 1); } }
                        }
                    }
                }
            }
        }
    }
    // ---------------- (v) more than 32 values per document, interleaved across fields ----------------
    for i in 0..(if thorough { 60 } else { 14 }) {
        let pool = [1usize, 2, 6, 31, 32, 33, 34, 40, 48, 64, 65, 100];
        let ndocs = rng.range(1, 4) as usize;
        let sizes: Vec<usize> = (0..ndocs).map(|k| if k == 0 { pool[3 + (i % 9)] } else { pool[rng.below(pool.len() as u64) as usize] }).collect();
        match interleaved_scenario(&mut rng, &sizes) {
            Err(e) => out.spec_checked(false, json!({"what": "interleaved scenario failed", "error": e})),
            Ok(il) => {
                for (fk, (name, opt, docs, rb)) in il.fields.iter().enumerate() {
                    let desc = json!({"what": "field of a segment", "field": name, "scenario": il.desc});
                    match rb {
                        Err(e) => out.spec_checked(false, json!({"what": "read-back failed", "error": e, "case": desc})),
                        Ok(rb) => {
                            check_against_reference(&mut out, *opt, docs, rb, &desc, None);
                            out.count("interleaved_fields", 1);
                            // the specification evaluated by Coq on the documents as they were added (text fields)
                            if fk < 2 && i % 2 == 0 && il.raw.iter().map(|d| d.len()).sum::<usize>() <= 160 {
                                let raw_t = cf::list(&il.raw, |d| cf::list(d, |(f, v)| format!("({}, {})", f, cf::list(v, |t| format!("({}, {}, {})", cf::bytes(&t.term), t.pos, t.len)))));
                                let norms = match &rb.norms { Some(v) => format!("(Some {})", cf::ns(v)), None => "None".into() };
                                out.coq_case("spec", format!("check_field_raw (ro {}) {} {} {} {} {} {}", opt_code(*opt), fk, raw_t, observed_term(&rb.terms), cf::ns(&rb.doc_freqs), rb.total, norms),
                                             json!({"what": "field of a segment (documents in insertion order)", "field": name, "scenario": il.desc, "docs": raw_t}), il.raw.iter().any(|d| d.len() > 32));
                                out.count("interleaved_fields_coq", 1);
                            }
                        }
                    }
                }
                out.count("interleaved_docs_over_32_values", sizes.iter().filter(|&&n| n > 32).count() as u64);
            }
        }
    }
    out.finish(json!({}));
}
