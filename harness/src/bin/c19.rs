//! C19 correspondence: every built-in tokenizer x filter chain on generated texts (token by token:
//! offsets, position, text) against the Coq models (tie) and the offset predicates of the theorems
//! (spec); snippets (fragment, highlighted, to_html) for generated term/boolean queries and every
//! max_num_chars.  Oracle tables (char classes, case mapping, folding, stemmer outputs, dictionary
//! and regex matches) are shipped with each case.
use std::collections::{BTreeMap, BTreeSet};
use std::ops::Range;

use serde_json::json;
use tantivy::query::{BooleanQuery, Occur, Query, TermQuery};
use tantivy::schema::{Field, IndexRecordOption, Schema, TextFieldIndexing, TextOptions};
use tantivy::snippet::{collapse_overlapped_ranges, SnippetGenerator};
use tantivy::tokenizer::*;
use tantivy::{doc, Index, Term};
use tvh::coqfmt as cf;
use tvh::out::CaseOut;
use tvh::rng::Rng;
use tvh::{guarded, Args};

const HEADER: &str = "From TV Require Import Base.Prelude Generated.Constants Text.Utf8 Text.Tokenizer Text.NGram Text.Filters Text.Snippet Text.Analyzer Text.Check.";

#[derive(Clone, Debug, PartialEq)]
struct Tok { from: usize, to: usize, pos: usize, text: String }

#[derive(Clone, Debug)]
enum Tk { Simple, Whitespace, Raw, Ngram(usize, usize, bool), Regex(String), Facet }
#[derive(Clone, Debug)]
enum Fl { Lower, Fold, RemoveLong(usize), AlnumOnly, Stop(Vec<String>), Stem(usize), Split(Vec<String>), Probe(Probe) }


/// Identity filter that records the text of every token passing through it: used to collect the exact
/// inputs of a stemmer / compound splitter inside a chain (oracle tables), without changing the chain's behaviour.
#[derive(Clone, Debug, Default)]
struct Probe(std::sync::Arc<std::sync::Mutex<Vec<String>>>);
#[derive(Clone)]
struct ProbeTokenizer<T> { inner: T, log: Probe }
struct ProbeStream<T> { tail: T, log: Probe }
impl TokenFilter for Probe {
    type Tokenizer<T: Tokenizer> = ProbeTokenizer<T>;
    fn transform<T: Tokenizer>(self, tokenizer: T) -> ProbeTokenizer<T> { ProbeTokenizer { inner: tokenizer, log: self } }
}
impl<T: Tokenizer> Tokenizer for ProbeTokenizer<T> {
    type TokenStream<'a> = ProbeStream<T::TokenStream<'a>>;
    fn token_stream<'a>(&'a mut self, text: &'a str) -> Self::TokenStream<'a> { ProbeStream { tail: self.inner.token_stream(text), log: self.log.clone() } }
}
impl<T: TokenStream> TokenStream for ProbeStream<T> {
    fn advance(&mut self) -> bool { let r = self.tail.advance(); if r { self.log.0.lock().unwrap().push(self.tail.token().text.clone()); } r }
    fn token(&self) -> &Token { self.tail.token() }
    fn token_mut(&mut self) -> &mut Token { self.tail.token_mut() }
}
fn probe_inputs(text: &str, tk: &Tk, fls: &[Fl], i: usize) -> Vec<String> {
    let p = Probe::default();
    let mut chain: Vec<Fl> = fls[..i].to_vec(); chain.push(Fl::Probe(p.clone())); chain.extend_from_slice(&fls[i..]);
    let _ = run(&mut build(tk, &chain), text);
    let mut v = p.0.lock().unwrap().clone(); v.sort(); v.dedup(); v
}

static LONG_TOKEN: std::sync::atomic::AtomicBool = std::sync::atomic::AtomicBool::new(false);
const LANGS: [Language; 4] = [Language::English, Language::French, Language::German, Language::Russian];

fn cps(s: &str) -> String { cf::list(&s.chars().collect::<Vec<_>>(), |c| format!("{}", *c as u32)) }
fn tok_term(t: &Tok) -> String { format!("mkTok {} {} {} {}", t.from, t.to, t.pos, cps(&t.text)) }
fn toks_term(ts: &[Tok]) -> String { cf::list(ts, tok_term) }
fn ranges_term(rs: &[Range<usize>]) -> String { cf::list(rs, |r| format!("({}, {})", r.start, r.end)) }

fn build(tk: &Tk, fls: &[Fl]) -> TextAnalyzer {
    let mut b = match tk {
        Tk::Simple => TextAnalyzer::builder(SimpleTokenizer::default()).dynamic(),
        Tk::Whitespace => TextAnalyzer::builder(WhitespaceTokenizer::default()).dynamic(),
        Tk::Raw => TextAnalyzer::builder(RawTokenizer::default()).dynamic(),
        Tk::Ngram(a, b, p) => TextAnalyzer::builder(NgramTokenizer::new(*a, *b, *p).unwrap()).dynamic(),
        Tk::Regex(p) => TextAnalyzer::builder(RegexTokenizer::new(p).unwrap()).dynamic(),
        Tk::Facet => TextAnalyzer::builder(FacetTokenizer::default()).dynamic(),
    };
    for f in fls {
        b = match f {
            Fl::Lower => b.filter_dynamic(LowerCaser),
            Fl::Fold => b.filter_dynamic(AsciiFoldingFilter),
            Fl::RemoveLong(n) => b.filter_dynamic(RemoveLongFilter::limit(*n)),
            Fl::AlnumOnly => b.filter_dynamic(AlphaNumOnlyFilter),
            Fl::Stop(w) => b.filter_dynamic(StopWordFilter::remove(w.iter().cloned())),
            Fl::Stem(l) => b.filter_dynamic(Stemmer::new(LANGS[*l])),
            Fl::Split(d) => b.filter_dynamic(SplitCompoundWords::from_dictionary(d.iter().map(|s| s.as_str())).unwrap()),
            Fl::Probe(p) => b.filter_dynamic(p.clone()),
        };
    }
    b.build()
}

fn run(a: &mut TextAnalyzer, text: &str) -> Result<Vec<Tok>, String> {
    guarded(|| {
        let mut v = vec![];
        let mut s = a.token_stream(text);
        while s.advance() {
            let t = s.token();
            v.push(Tok { from: t.offset_from, to: t.offset_to, pos: t.position, text: t.text.clone() });
            if v.len() > 2_000_000 { break; }
        }
        v
    })
}

// ---------------------------------------------------------------- generators
const WORDS: &[&str] = &["Rust", "rust", "the", "The", "language", "running", "runs", "a", "I", "x1", "42", "dampfschiff", "fahrt", "schiff",
    "Café", "café", "naïve", "Ünïcödé", "Straße", "ÆSIR", "İstanbul", "ẞ", "\u{212A}elvin", "ΣΊΣΥΦΟΣ", "ὈΔΥΣΣΕΎΣ", "Привет", "мир", "бегущий",
    "日本語", "テキスト", "中文", "한국어", "e\u{301}te\u{301}", "a\u{308}\u{323}", "👩\u{200d}👩\u{200d}👧", "🙂", "🇫🇷", "𝒳𝒴", "ǅ", "ﬁ", "Ⅷ", "²", "٣",
    "abcabc", "ab", "abc", "aaaa", "<b>", "&amp;", "\"q\"", "it's", "a<b>c", "x&y"];
const SEPS: &[&str] = &[" ", " ", " ", "  ", "\t", "\n", ", ", ". ", "-", "_", "/", "\u{0}", "\u{a0}", "\u{2028}", "\u{85}", "\r\n", "\u{c}", "\u{3000}", "'", "\"", "<", ">", "&", "", "\u{200b}", "\u{1f}"];

fn gen_text(rng: &mut Rng, kind: u64) -> String {
    match kind % 12 {
        0 => String::new(),
        1 => { // one long token
            let n = if kind == 13 && LONG_TOKEN.load(std::sync::atomic::Ordering::Relaxed) { 350_000 } else { rng.range(30, 400) as usize };
            let unit = *rng.pick(&["a", "é", "語", "𝒳", "ab"]);
            unit.repeat(n)
        }
        2 => { // ascii only
            let n = rng.range(1, 12);
            (0..n).map(|_| format!("{}{}", rng.pick(&["Rust", "the", "a", "language", "x1", "42", "abcabc", "it's", "<b>", "&", "running"]), rng.pick(&[" ", " ", ", ", "-", "\t", ""]))).collect()
        }
        3 => { // facet-like
            let n = rng.range(0, 5);
            let mut s = String::new();
            if rng.chance(1, 2) { s.push('\u{0}'); }
            for i in 0..n { if i > 0 { s.push('\u{0}'); } s.push_str(*rng.pick(WORDS)); }
            if rng.chance(1, 4) { s.push('\u{0}'); }
            s
        }
        4 => { // single chars and separators only
            let n = rng.range(1, 8);
            (0..n).map(|_| rng.pick(SEPS).to_string()).collect()
        }
        _ => {
            let n = rng.range(1, if kind % 12 == 5 { 40 } else { 9 });
            let mut s = String::new();
            for _ in 0..n { s.push_str(*rng.pick(WORDS)); s.push_str(*rng.pick(SEPS)); }
            s
        }
    }
}

/// patterns for RegexTokenizer; the second half can match the empty string (an empty match ends the stream)
const REGEXES: &[&str] = &[r"\w+", r"[a-z]+", r"\S+", r".", r"\p{L}+|\d", r"(?i)rust|a", r"\b\w", r"^\w+",
    r"[^ ]*", r"[a-z]*", r"\d*", r"(?:x+)?", r"[a-zA-Z0-9]*", r"\p{Lu}*", r"a*|é", r"\w*", r"(?:\p{Han}+)?", r"[^\x00-\x7f]*"];
const EMPTY_OK_FROM: usize = 8;

fn gen_tokenizer(rng: &mut Rng, i: u64) -> Tk {
    match i % 9 {
        0 => Tk::Simple,
        1 => Tk::Whitespace,
        2 => Tk::Raw,
        3 | 4 => { let a = rng.range(1, 4) as usize; Tk::Ngram(a, a + rng.range(0, 3) as usize, rng.chance(1, 3)) }
        5 => Tk::Regex(rng.pick(REGEXES).to_string()),
        6 => Tk::Facet,
        7 => Tk::Simple,
        _ => Tk::Ngram(1, 1 + rng.range(0, 2) as usize, false),
    }
}

fn gen_filter(rng: &mut Rng, toks: &[Tok]) -> Fl {
    match rng.below(8) {
        0 | 1 => Fl::Lower,
        2 => Fl::Fold,
        3 => { let lens: Vec<usize> = toks.iter().map(|t| t.text.len()).collect();
               let base = if lens.is_empty() { 3 } else { *rng.pick(&lens) };
               Fl::RemoveLong(match rng.below(4) { 0 => base, 1 => base + 1, 2 => base.saturating_sub(1), _ => rng.range(0, 40) as usize }) }
        4 => Fl::AlnumOnly,
        5 => { let mut w: Vec<String> = vec!["the".into(), "a".into()];
               for _ in 0..2 { if !toks.is_empty() { let t = rng.pick(toks).text.clone(); w.push(if rng.chance(1, 2) { t.to_lowercase() } else { t }); } }
               Fl::Stop(w) }
        6 => Fl::Stem(rng.below(LANGS.len() as u64) as usize),
        _ => { let mut d: Vec<String> = vec!["dampf".into(), "schiff".into(), "fahrt".into(), "ab".into(), "c".into()];
               if !toks.is_empty() { let t: Vec<char> = rng.pick(toks).text.chars().collect();
                   if t.len() >= 2 { let k = 1 + rng.below(t.len() as u64 - 1) as usize; d.push(t[..k].iter().collect()); d.push(t[k..].iter().collect()); } }
               d.retain(|s| !s.is_empty());
               Fl::Split(d) }
    }
}

// ---------------------------------------------------------------- oracles
/// leftmost-longest non-overlapping matches (the semantics SplitCompoundWords asks of Aho-Corasick)
fn dict_find(dict: &[String], text: &str) -> Vec<(usize, usize)> {
    let b = text.as_bytes();
    let mut out = vec![];
    let mut pos = 0;
    'outer: while pos <= b.len() {
        for start in pos..=b.len() {
            let mut best: Option<usize> = None;
            for p in dict { let pb = p.as_bytes(); if b[start..].starts_with(pb) { if best.map_or(true, |x| pb.len() > x) { best = Some(pb.len()); } } }
            if let Some(l) = best { out.push((start, start + l)); pos = start + l; if l == 0 { pos += 1; } continue 'outer; }
        }
        break;
    }
    out
}

struct Oracles { alnum: BTreeSet<char>, lower: BTreeMap<char, String>, fold: BTreeMap<char, String>,
                 stem: Vec<(usize, Vec<(String, String)>)>, dict: Vec<(usize, Vec<(String, Vec<(usize, usize)>)>)>, re: Vec<(usize, (usize, usize))> }

fn oracles(text: &str, tk: &Tk, fls: &[Fl]) -> Oracles {
    let mut o = Oracles { alnum: Default::default(), lower: Default::default(), fold: Default::default(), stem: vec![], dict: vec![], re: vec![] };
    // character tables over the closure of the characters that can occur in intermediate token texts
    let mut chars: BTreeSet<char> = text.chars().collect();
    for _ in 0..3 {
        let mut more = BTreeSet::new();
        for &c in &chars {
            if !c.is_ascii() {
                let s = c.to_string();
                if let Ok(ts) = run(&mut build(&Tk::Raw, &[Fl::Fold]), &s) { if ts[0].text != s { o.fold.insert(c, ts[0].text.clone()); more.extend(ts[0].text.chars()); } }
            }
            let l: String = c.to_lowercase().collect();
            if l != c.to_string() { more.extend(l.chars()); o.lower.insert(c, l); }
        }
        chars.extend(more);
    }
    for &c in &chars { if c.is_alphanumeric() { o.alnum.insert(c); } }
    // per-filter tables need the token texts that reach the filter
    for (i, f) in fls.iter().enumerate() {
        match f {
            Fl::Stem(l) => { let mut tbl = vec![];
                for t in probe_inputs(text, tk, fls, i) { if let Ok(r) = run(&mut build(&Tk::Raw, &[Fl::Stem(*l)]), &t) { if r[0].text != t { tbl.push((t.clone(), r[0].text.clone())); } } }
                o.stem.push((i, tbl)); }
            Fl::Split(d) => { let mut tbl = vec![];
                for t in probe_inputs(text, tk, fls, i) { let m = dict_find(d, &t); if !m.is_empty() { tbl.push((t.clone(), m)); } }
                o.dict.push((i, tbl)); }
            _ => {}
        }
    }
    if let Tk::Regex(p) = tk {
        let re = regex::Regex::new(p).unwrap();
        let mut rest = text;
        loop {
            match re.find(rest) {
                None => break,
                Some(m) => { o.re.push((rest.len(), (m.start(), m.end()))); if m.as_str().is_empty() { break; } rest = &rest[m.end()..]; }
            }
        }
    }
    o
}

fn tk_term(tk: &Tk) -> String {
    match tk { Tk::Simple => "TSimple".into(), Tk::Whitespace => "TWhitespace".into(), Tk::Raw => "TRaw".into(),
               Tk::Ngram(a, b, p) => format!("(TNgram {} {} {})", cf::nat(*a), cf::nat(*b), cf::boolean(*p)), Tk::Regex(_) => "TRegex".into(), Tk::Facet => "TFacet".into() }
}
fn fl_term(f: &Fl) -> String {
    match f { Fl::Lower => "FLower".into(), Fl::Fold => "FAsciiFold".into(), Fl::RemoveLong(n) => format!("(FRemoveLong {})", n), Fl::AlnumOnly => "FAlnumOnly".into(),
              Fl::Stop(w) => format!("(FStop {})", cf::list(w, |s| cps(s))), Fl::Stem(_) => "FStem".into(), Fl::Split(_) => "FSplit".into(), Fl::Probe(_) => unreachable!() }
}
fn fls_term(fls: &[Fl]) -> String {
    let v: Vec<String> = fls.iter().enumerate().map(|(i, f)| match f { Fl::Stem(_) => format!("(FStem {})", i), Fl::Split(_) => format!("(FSplit {})", i), _ => fl_term(f) }).collect();
    cf::list(&v, |s| s.clone())
}
fn analyze_term(o: &Oracles, tk: &Tk, fls: &[Fl], text: &str) -> String {
    let alnum: Vec<char> = o.alnum.iter().cloned().collect();
    let lower: Vec<(char, String)> = o.lower.iter().map(|(c, s)| (*c, s.clone())).collect();
    let fold: Vec<(char, String)> = o.fold.iter().map(|(c, s)| (*c, s.clone())).collect();
    format!("analyze (mem_cp {}) (lower_of {}) (fold_of {}) (stem_of {}) (dicts_of {}) (re_of {}) {} {} {}",
        cf::list(&alnum, |c| format!("{}", *c as u32)),
        cf::list(&lower, |(c, s)| format!("({}, {})", *c as u32, cps(s))),
        cf::list(&fold, |(c, s)| format!("({}, {})", *c as u32, cps(s))),
        cf::list(&o.stem, |(i, tbl)| format!("({}, {})", i, cf::list(tbl, |(a, b)| format!("({}, {})", cps(a), cps(b))))),
        cf::list(&o.dict, |(i, tbl)| format!("({}, {})", i, cf::list(tbl, |(a, m)| format!("({}, {})", cps(a), cf::list(m, |(x, y)| format!("({}, {})", x, y)))))),
        cf::list(&o.re, |(l, (a, b))| format!("({}, ({}, {}))", l, a, b)),
        tk_term(tk), fls_term(fls), cps(text))
}

// ---------------------------------------------------------------- Rust-side spec predicates (bulk)
fn spans_ok(text: &str, ts: &[Tok]) -> bool {
    let mut last_pos = 0usize;
    for (i, t) in ts.iter().enumerate() {
        if !(t.from <= t.to && t.to <= text.len() && text.is_char_boundary(t.from) && text.is_char_boundary(t.to)) { return false; }
        if i > 0 && t.pos < last_pos { return false; }
        last_pos = t.pos;
    }
    true
}
fn texts_ok(text: &str, ts: &[Tok]) -> bool { ts.iter().all(|t| text.get(t.from..t.to) == Some(t.text.as_str())) }
fn drop_only(fls: &[Fl]) -> bool { fls.iter().all(|f| matches!(f, Fl::RemoveLong(_) | Fl::AlnumOnly | Fl::Stop(_))) }
fn disjoint(ts: &[Tok]) -> bool { let mut lo = 0; for t in ts { if !(lo <= t.from && t.from <= t.to) { return false; } lo = t.to; } true }
fn ranges_ok(frag: &str, rs: &[Range<usize>]) -> (bool, bool) {
    // (sorted & disjoint, inside & on boundaries)
    let mut lo = 0; let mut dis = true;
    for r in rs { if !(lo <= r.start && r.start <= r.end) { dis = false; } lo = lo.max(r.end); }
    let inside = rs.iter().all(|r| r.start <= frag.len() && r.end <= frag.len() && frag.is_char_boundary(r.start) && frag.is_char_boundary(r.end));
    (dis, inside)
}
fn unhtml(h: &str) -> String {
    let mut s = String::new(); let mut it = h;
    while !it.is_empty() {
        if it.starts_with('<') { match it.find('>') { Some(i) => it = &it[i + 1..], None => break } continue; }
        let mut hit = false;
        for (e, c) in [("&quot;", '"'), ("&amp;", '&'), ("&#x27;", '\''), ("&lt;", '<'), ("&gt;", '>')] { if it.starts_with(e) { s.push(c); it = &it[e.len()..]; hit = true; break; } }
        if hit { continue; }
        let c = it.chars().next().unwrap(); s.push(c); it = &it[c.len_utf8()..];
    }
    s
}


/// A spec failure that the Rust-side classifier places in a known class: the first few go to Coq
/// (classifier evaluated there), the rest are recorded with the `known` tag; outside the class it is a violation.
fn known_hit(out: &mut CaseOut, budget: &mut BTreeMap<&'static str, i64>, id: &'static str, in_class: bool, term: String, desc: serde_json::Value) {
    let b = budget.entry(id).or_insert(0);
    let small = term.len() <= 20_000;        // a Gallina term of megabytes (the 350 000-character text) is not shipped to Coq
    if small && (!in_class || *b > 0) { *b -= 1; out.coq_case(&format!("known:{}", id), term, desc, true); }
    else if in_class { let mut d = desc; d["known"] = json!(id); out.spec_checked(false, d); }
    else { out.spec_checked(false, desc); }
}
fn f9_in_class(text: &str, toks: &[Tok], frag: &str, max: usize) -> bool { toks.iter().any(|t| t.to - t.from > max && text.get(t.from..t.to) == Some(frag)) }

fn main() {
    let args = Args::parse();
    tvh::quiet_panics();
    let mut rng = Rng::new(args.seed);
    let thorough = args.thorough();
    LONG_TOKEN.store(thorough, std::sync::atomic::Ordering::Relaxed);   // the 350 000-character single token: thorough tier only
    let mut out = CaseOut::new(&args.out, HEADER, 40);
    let mut known_budget: BTreeMap<&'static str, i64> = [("F9", 12i64), ("F10", 12), ("F22", 12)].into_iter().collect();

    // ================= (i) tokens =================
    let n_texts = if thorough { 900 } else { 220 };
    let mut coq_budget: i64 = if thorough { 900 } else { 200 };
    for i in 0..n_texts {
        let text = gen_text(&mut rng, i);
        for j in 0..(if thorough { 6 } else { 4 }) {
            let tk = if j == 3 && text.contains('\u{0}') { Tk::Facet } else { gen_tokenizer(&mut rng, i * 7 + j) };
            let base = match run(&mut build(&tk, &[]), &text) { Ok(t) => t, Err(e) => { out.spec_checked(false, json!({"what": "tokenizer panicked", "tokenizer": format!("{:?}", tk), "text": text, "panic": e})); continue; } };
            let nf = if j == 0 { 0 } else { rng.range(0, 3) as usize };
            let mut fls: Vec<Fl> = vec![];
            for _ in 0..nf { let cur = run(&mut build(&tk, &fls), &text).unwrap_or_default(); fls.push(gen_filter(&mut rng, &cur)); }
            let desc = json!({"what": "tokens", "text": text, "tokenizer": format!("{:?}", tk), "filters": format!("{:?}", fls)});
            let toks = match run(&mut build(&tk, &fls), &text) { Ok(t) => t, Err(e) => { out.spec_checked(false, json!({"what": "analyzer panicked", "case": desc, "panic": e})); continue; } };
            out.count(&format!("tok_{}", match &tk { Tk::Simple => "simple", Tk::Whitespace => "whitespace", Tk::Raw => "raw", Tk::Ngram(..) => "ngram", Tk::Regex(_) => "regex", Tk::Facet => "facet" }), 1);
            out.count(&format!("chain_len_{}", fls.len()), 1);
            out.count("tokens_total", toks.len() as u64);
            if !text.is_ascii() { out.count("texts_multibyte", 1); }
            // spec, Rust side (bulk): offsets / positions / text = slice when not normalised
            let s_ok = spans_ok(&text, &toks);
            out.spec_checked(s_ok, if s_ok { json!(null) } else { json!({"what": "token offsets outside the text / off a boundary / positions decrease", "case": desc, "tokens": format!("{:?}", &toks[..toks.len().min(200)])}) });
            let unnormalised = drop_only(&fls);
            let t_ok = !unnormalised || texts_ok(&text, &toks);
            let small = text.chars().count() <= 120 && toks.len() <= 150;
            let nontrivial = !toks.is_empty() && (!text.is_ascii() || !fls.is_empty());
            if !t_ok {
                // only the facet tokenizer is known to leave offsets unset (F22)
                known_hit(&mut out, &mut known_budget, "F22", matches!(tk, Tk::Facet), format!("f22_class {} {}", cps(&text), toks_term(&base)), json!({"what": "token text differs from its slice", "case": desc}));
            }
            if !small || coq_budget <= 0 { continue; }
            coq_budget -= 1;
            let o = oracles(&text, &tk, &fls);
            // tie: model analyzer = implementation, token by token
            out.coq_case("tie", format!("otokens_eqb ({}) {}", analyze_term(&o, &tk, &fls, &text), toks_term(&toks)), desc.clone(), nontrivial);
            if let Tk::Ngram(a, b, p) = &tk {
                if fls.is_empty() { out.coq_case("tie", format!("run_tokens_eqb (ngram_model {} {} {} {}) {}", cf::nat(*a), cf::nat(*b), cf::boolean(*p), cps(&text), toks_term(&toks)),
                                                 json!({"what": "ngram ring-buffer model", "case": desc}), !toks.is_empty()); }
            }
            // spec in Coq: the predicates of C19_token_offsets on the implementation's tokens
            out.coq_case("spec", format!("tokens_spec {} {}", cps(&text), toks_term(&toks)), desc.clone(), nontrivial);
            if unnormalised && t_ok { out.coq_case("spec", format!("tokens_text_spec {} {}", cps(&text), toks_term(&toks)), desc.clone(), nontrivial); }
            if !fls.is_empty() { out.coq_case("spec", format!("spans_subseq {} {}", toks_term(&toks), toks_term(&base)), json!({"what": "filters keep spans", "case": desc}), nontrivial); }
        }
    }

    // ================= (ii) snippets =================
    let n_snip = if thorough { 260 } else { 70 };
    let mut coq_snip: i64 = if thorough { 300 } else { 60 };

    for i in 0..n_snip {
        let text = { let mut t = gen_text(&mut rng, 5 + (i % 7)); if t.chars().count() > 60 { t = t.chars().take(60).collect(); } t };
        let tk = match i % 6 { 0 | 1 => Tk::Simple, 2 => Tk::Whitespace, 3 => Tk::Ngram(1 + rng.below(2) as usize, 2 + rng.below(2) as usize, false), 4 => gen_tokenizer(&mut rng, i), _ => Tk::Simple };
        let tk = if let Tk::Facet = tk { Tk::Raw } else { tk };
        let mut fls: Vec<Fl> = vec![];
        if i % 3 != 2 { fls.push(Fl::Lower); }
        if i % 5 == 0 { let cur = run(&mut build(&tk, &fls), &text).unwrap_or_default(); fls.push(gen_filter(&mut rng, &cur)); }
        let toks = match run(&mut build(&tk, &fls), &text) { Ok(t) => t, Err(e) => { out.spec_checked(false, json!({"what": "analyzer panicked (token_stream/advance)", "text": text, "tokenizer": format!("{:?}", tk), "filters": format!("{:?}", fls), "panic": e})); continue; } };
        // index with this analyzer; `copies` identical documents => every term has doc_freq = copies
        let copies = *rng.pick(&[1usize, 1, 3, 7, 2]);
        let mut sb = Schema::builder();
        let opts = TextOptions::default().set_indexing_options(TextFieldIndexing::default().set_tokenizer("c19").set_index_option(IndexRecordOption::WithFreqsAndPositions)).set_stored();
        let field: Field = sb.add_text_field("body", opts);
        let index = Index::create_in_ram(sb.build());
        index.tokenizers().register("c19", build(&tk, &fls));
        let built = guarded(|| -> tantivy::Result<()> {
            let mut w = index.writer_with_num_threads::<tantivy::TantivyDocument>(1, 20_000_000)?;
            for _ in 0..copies { w.add_document(doc!(field => text.clone()))?; }
            w.commit()?; Ok(())
        });
        if !matches!(built, Ok(Ok(()))) { out.spec_checked(false, json!({"what": "indexing failed", "text": text, "result": format!("{:?}", built)})); continue; }
        let searcher = index.reader().unwrap().searcher();
        // query: term / boolean of terms taken from the token stream (+ an absent one)
        let mut qterms: Vec<String> = vec![];
        let nq = rng.range(1, 3);
        for _ in 0..nq { if !toks.is_empty() { qterms.push(rng.pick(&toks).text.clone()); } }
        if rng.chance(1, 3) { qterms.push("zzzabsent".into()); }
        qterms.retain(|t| t.len() < 60000);
        let tqs: Vec<Box<dyn Query>> = qterms.iter().map(|t| Box::new(TermQuery::new(Term::from_field_text(field, t), IndexRecordOption::Basic)) as Box<dyn Query>).collect();
        let query: Box<dyn Query> = if tqs.len() == 1 && rng.chance(1, 2) { tqs.into_iter().next().unwrap() }
            else { Box::new(BooleanQuery::new(tqs.into_iter().map(|q| (if rng.chance(1, 2) { Occur::Should } else { Occur::Must }, q)).collect())) };
        let mut gen = match guarded(|| SnippetGenerator::create(&searcher, &*query, field)) { Ok(Ok(g)) => g, r => { out.spec_checked(false, json!({"what": "SnippetGenerator::create failed", "text": text, "result": format!("{:?}", r.map(|x| x.is_ok()))})); continue; } };
        // the scores create() computes: 1/(1+doc_freq) for the terms that occur
        let score = 1.0f32 / (1.0 + copies as f32);
        let dyadic = (score * 1024.0).fract() == 0.0;
        let present: BTreeSet<String> = qterms.iter().filter(|t| toks.iter().any(|k| &k.text == *t)).cloned().collect();
        let hits: Vec<bool> = toks.iter().map(|t| present.contains(&t.text.to_lowercase())).collect();
        let lowstr: Vec<(String, String)> = { let mut v: Vec<(String, String)> = toks.iter().filter(|t| t.text.to_lowercase() != t.text).map(|t| (t.text.clone(), t.text.to_lowercase())).collect(); v.sort(); v.dedup(); v };
        let terms_term = cf::list(&present.iter().cloned().collect::<Vec<_>>(), |t| format!("({}, {})", cps(t), (score * 1024.0) as u64));
        let maxes: Vec<usize> = { let l = text.len(); let mut v: Vec<usize> = if l <= 40 { (0..=l + 1).collect() } else { let mut v: Vec<usize> = (0..12).collect(); for _ in 0..20 { v.push(rng.below(l as u64 + 2) as usize); } v.push(l); v.push(l + 1); v }; v.push(150); v.dedup(); v };
        for (mi, &max) in maxes.iter().enumerate() {
            gen.set_max_num_chars(max);
            out.count("snippet_cases", 1);
            let desc = json!({"what": "snippet", "text": text, "tokenizer": format!("{:?}", tk), "filters": format!("{:?}", fls), "terms": qterms, "max_num_chars": max, "doc_freq": copies});
            let sn = match guarded(|| { let s = gen.snippet(&text); (s.fragment().to_string(), s.highlighted().to_vec()) }) {
                Ok(x) => x, Err(e) => { out.spec_checked(false, json!({"what": "SnippetGenerator::snippet panicked", "case": desc, "panic": e})); continue; } };
            let (frag, hl) = sn;
            let in_coq = coq_snip > 0 && text.chars().count() <= 60 && toks.len() <= 120 && (mi % 3 == (i as usize) % 3 || max <= 2);
            if in_coq { coq_snip -= 1; }
            // -- fragment: substring, at most max_num_chars characters
            let sub = text.contains(&frag);
            out.spec_checked(sub, json!({"what": "fragment is not a substring of the text", "case": desc, "fragment": frag}));
            let len_ok = frag.chars().count() <= max;
            if !len_ok { out.count("f9_hits", 1);
                known_hit(&mut out, &mut known_budget, "F9", f9_in_class(&text, &toks, &frag, max), format!("f9_class {} {} {} {}", cps(&text), toks_term(&toks), cps(&frag), max), json!({"what": "fragment longer than max_num_chars", "case": desc, "fragment": frag})); }
            // -- highlighted(): sorted, disjoint, inside the fragment, on boundaries
            let (dis, inside) = ranges_ok(&frag, &hl);
            out.spec_checked(inside, json!({"what": "highlighted range outside the fragment / off a boundary", "case": desc, "fragment": frag, "highlighted": format!("{:?}", hl)}));
            if !dis { out.count("f10_hits", 1);
                known_hit(&mut out, &mut known_budget, "F10", !disjoint(&toks), format!("f10_class {}", toks_term(&toks)), json!({"what": "highlighted() ranges overlap", "case": desc, "highlighted": format!("{:?}", hl)})); }
            // -- collapsed ranges (what to_html uses): same predicates
            let col = collapse_overlapped_ranges(&hl);
            let (cdis, cinside) = ranges_ok(&frag, &col);
            out.spec_checked(cdis, json!({"what": "collapsed ranges not sorted/disjoint", "case": desc, "collapsed": format!("{:?}", col)}));
            if inside { out.spec_checked(cinside, json!({"what": "collapsed ranges outside the fragment", "case": desc, "collapsed": format!("{:?}", col)})); }
            // -- each highlight is a token whose lower-cased text is a query term
            let cover = text.match_indices(&frag).any(|(s, _)| hl.iter().all(|r| toks.iter().zip(&hits).any(|(t, h)| *h && t.from == s + r.start && t.to == s + r.end))) || (frag.is_empty() && hl.is_empty());
            out.spec_checked(cover, json!({"what": "a highlighted range is not a token matching a query term", "case": desc, "fragment": frag, "highlighted": format!("{:?}", hl)}));
            // -- to_html
            let html = guarded(|| gen.snippet(&text).to_html());
            match &html {
                Err(e) => {
                    out.spec_checked(false, json!({"what": "to_html panicked", "case": desc, "panic": e}));
                }
                Ok(h) => {
                    out.spec_checked(unhtml(h) == frag, json!({"what": "to_html does not read back as the fragment", "case": desc, "html": h}));
                    if in_coq && inside { out.coq_case("spec", format!("html_spec {} {}", cps(&frag), cps(h)), json!({"what": "html", "case": desc, "html": h}), !hl.is_empty()); }
                }
            }
            if !in_coq { continue; }
            // spec in Coq on the implementation's snippet
            if len_ok { out.coq_case("spec", format!("fragment_spec {} {} {}", cps(&text), cps(&frag), max), desc.clone(), !frag.is_empty()); }
            if inside { out.coq_case("spec", format!("ranges_spec {} (collapse {})", cps(&frag), ranges_term(&hl)), desc.clone(), !hl.is_empty());
                        out.coq_case("spec", format!("hl_cover_spec {} {} {} {} {}", cps(&text), cps(&frag), ranges_term(&hl), toks_term(&toks), cf::list(&hits, |b| cf::boolean(*b))), desc.clone(), !hl.is_empty()); }
            if inside && dis { out.coq_case("spec", format!("ranges_spec {} {}", cps(&frag), ranges_term(&hl)), desc.clone(), !hl.is_empty()); }
            // tie: collapse; fragment search (exact scores only)
            out.coq_case("tie", format!("ranges_eqb (collapse {}) {}", ranges_term(&hl), ranges_term(&col)), json!({"what": "collapse", "case": desc}), hl.len() >= 2);
            if dyadic {
                out.coq_case("tie", format!("snippet_eqb (n_snippet_of (text_fn_of {}) {} {} {} {}) {} {}", cf::list(&lowstr, |(a, b)| format!("({}, {})", cps(a), cps(b))),
                    terms_term, max, cps(&text), toks_term(&toks), cps(&frag), ranges_term(&hl)), json!({"what": "snippet model", "case": desc, "fragment": frag}), !hl.is_empty());
            }
            if let (Ok(h), true) = (&html, inside) {
                out.coq_case("tie", format!("ohtml_eqb (to_html SNIPPET_DEFAULT_PREFIX SNIPPET_DEFAULT_POSTFIX (mkSnip {} {})) {}", cps(&frag), ranges_term(&hl), cps(h)), json!({"what": "to_html model", "case": desc}), !hl.is_empty());
            }
        }
    }

    // ================= (iii) SnippetGenerator::new with arbitrary dyadic scores =================
    let n_new = if thorough { 400 } else { 120 };
    for i in 0..n_new {
        let text = { let mut t = gen_text(&mut rng, 6 + (i % 5)); if t.chars().count() > 50 { t = t.chars().take(50).collect(); } t };
        let tk = if i % 4 == 0 { Tk::Whitespace } else { Tk::Simple };
        let fls = if i % 2 == 0 { vec![Fl::Lower] } else { vec![] };
        let toks = match run(&mut build(&tk, &fls), &text) { Ok(t) => t, Err(e) => { out.spec_checked(false, json!({"what": "analyzer panicked (token_stream/advance)", "text": text, "tokenizer": format!("{:?}", tk), "filters": format!("{:?}", fls), "panic": e})); continue; } };
        let mut terms: BTreeMap<String, f32> = BTreeMap::new();
        for _ in 0..rng.range(1, 4) { if !toks.is_empty() { terms.insert(rng.pick(&toks).text.to_lowercase(), rng.range(1, 64) as f32 / 64.0); } }
        let max = rng.below(text.len() as u64 + 2) as usize;
        let gen = SnippetGenerator::new(terms.clone(), build(&tk, &fls), Field::from_field_id(0), max);
        let r = guarded(|| { let s = gen.snippet(&text); (s.fragment().to_string(), s.highlighted().to_vec(), s.to_html()) });
        let desc = json!({"what": "snippet(new)", "text": text, "tokenizer": format!("{:?}", tk), "terms": format!("{:?}", terms), "max_num_chars": max});
        match r {
            Err(e) => out.spec_checked(false, json!({"what": "snippet/to_html panicked", "case": desc, "panic": e})),
            Ok((frag, hl, html)) => {
                let lowstr: Vec<(String, String)> = { let mut v: Vec<(String, String)> = toks.iter().filter(|t| t.text.to_lowercase() != t.text).map(|t| (t.text.clone(), t.text.to_lowercase())).collect(); v.sort(); v.dedup(); v };
                let terms_v: Vec<(String, u64)> = terms.iter().map(|(t, s)| (t.clone(), (*s * 1024.0) as u64)).collect();
                out.coq_case("tie", format!("snippet_eqb (n_snippet_of (text_fn_of {}) {} {} {} {}) {} {}", cf::list(&lowstr, |(a, b)| format!("({}, {})", cps(a), cps(b))),
                    cf::list(&terms_v, |(t, s)| format!("({}, {})", cps(t), s)), max, cps(&text), toks_term(&toks), cps(&frag), ranges_term(&hl)), desc.clone(), !hl.is_empty());
                let (dis, inside) = ranges_ok(&frag, &hl);
                out.spec_checked(dis && inside && unhtml(&html) == frag && text.contains(&frag), json!({"what": "snippet(new) spec", "case": desc}));
                if frag.chars().count() > max { known_hit(&mut out, &mut known_budget, "F9", f9_in_class(&text, &toks, &frag, max), format!("f9_class {} {} {} {}", cps(&text), toks_term(&toks), cps(&frag), max), json!({"what": "fragment longer than max_num_chars", "case": desc, "fragment": frag})); }
                out.count("snippet_new_cases", 1);
            }
        }
    }


    // ================= (iv) analyzer reuse: a stream dropped early must not leak into the next one =================
    // TextAnalyzer::token_stream borrows the analyzer mutably; a caller may stop after k tokens and drop the
    // stream (also in the middle of a split compound word), then tokenize another text with the SAME analyzer.
    let n_reuse = if thorough { 1500 } else { 400 };
    let mut coq_reuse: i64 = if thorough { 120 } else { 40 };
    for i in 0..n_reuse {
        let tk = match i % 5 { 0 => Tk::Simple, 1 => Tk::Whitespace, 2 => Tk::Raw, 3 => gen_tokenizer(&mut rng, i), _ => Tk::Simple };
        let mut text_a = gen_text(&mut rng, 5 + (i % 7));
        if text_a.chars().count() > 80 { text_a = text_a.chars().take(80).collect(); }
        if i % 2 == 0 { text_a = format!("{} dampfschifffahrt {}abcabc schiffdampf", rng.pick(WORDS), text_a); }
        let mut fls: Vec<Fl> = vec![];
        let nf = 1 + rng.below(3) as usize;
        let split_at = if i % 2 == 0 { rng.below(nf as u64) as usize } else { usize::MAX };
        for j in 0..nf {
            let cur = run(&mut build(&tk, &fls), &text_a).unwrap_or_default();
            fls.push(if j == split_at { Fl::Split(vec!["dampf".into(), "schiff".into(), "fahrt".into(), "ab".into(), "c".into()]) } else { gen_filter(&mut rng, &cur) });
        }
        let text_b = match i % 4 { 0 => String::new(), 1 => "öl".to_string(), _ => { let mut t = gen_text(&mut rng, 5 + (i % 6)); if t.chars().count() > 60 { t = t.chars().take(60).collect(); } t } };
        let full_a = match run(&mut build(&tk, &fls), &text_a) { Ok(t) => t, Err(e) => { out.spec_checked(false, json!({"what": "analyzer panicked (token_stream/advance)", "text": text_a, "tokenizer": format!("{:?}", tk), "filters": format!("{:?}", fls), "panic": e})); continue; } };
        let fresh_b = match run(&mut build(&tk, &fls), &text_b) { Ok(t) => t, Err(e) => { out.spec_checked(false, json!({"what": "analyzer panicked (token_stream/advance)", "text": text_b, "tokenizer": format!("{:?}", tk), "filters": format!("{:?}", fls), "panic": e})); continue; } };
        let mut analyzer = build(&tk, &fls);
        // every stopping point in quick would be too many: a few random k, always including "inside a compound" candidates
        let mut ks: Vec<usize> = vec![0, full_a.len()];
        for _ in 0..4 { ks.push(rng.below(full_a.len() as u64 + 1) as usize); }
        for w in 0..full_a.len().saturating_sub(1) { if full_a[w].from == full_a[w + 1].from && full_a[w].to == full_a[w + 1].to && ks.len() < 12 { ks.push(w + 1); } }
        ks.sort(); ks.dedup();
        for k in ks {
            let part = guarded(|| { let mut s = analyzer.token_stream(&text_a); let mut n = 0; while n < k && s.advance() { n += 1; } n });
            let desc = json!({"what": "analyzer reuse", "text_a": text_a, "stopped_after": k, "text_b": text_b, "tokenizer": format!("{:?}", tk), "filters": format!("{:?}", fls)});
            if part.is_err() { out.spec_checked(false, json!({"what": "partial stream panicked", "case": desc})); continue; }
            let reused_b = match run(&mut analyzer, &text_b) { Ok(t) => t, Err(e) => { out.spec_checked(false, json!({"what": "reused analyzer panicked", "case": desc, "panic": e})); continue; } };
            out.count("reuse_cases", 1);
            if fls.iter().any(|f| matches!(f, Fl::Split(_))) && k > 0 && k < full_a.len() && full_a[k - 1].from == full_a[k].from && full_a[k - 1].to == full_a[k].to { out.count("reuse_dropped_inside_compound", 1); }
            // spec: the reused analyzer's tokens for B are those of a fresh analyzer, and satisfy the offset predicate on B
            out.spec_checked(reused_b == fresh_b, json!({"what": "tokens of a reused analyzer differ from a fresh analyzer's", "case": desc, "reused": format!("{:?}", &reused_b[..reused_b.len().min(20)]), "fresh": format!("{:?}", &fresh_b[..fresh_b.len().min(20)])}));
            let s_ok = spans_ok(&text_b, &reused_b);
            out.spec_checked(s_ok, json!({"what": "reused analyzer: token offsets outside the text / off a boundary / positions decrease", "case": desc, "tokens": format!("{:?}", &reused_b[..reused_b.len().min(20)])}));
            if coq_reuse > 0 && k > 0 && k < full_a.len() && reused_b.len() <= 100 {
                coq_reuse -= 1;
                out.coq_case("spec", format!("tokens_spec {} {}", cps(&text_b), toks_term(&reused_b)), desc.clone(), !reused_b.is_empty());
            }
        }
    }


    // ================= (v) RegexTokenizer with patterns that can match the empty string, multi-byte texts =================
    // On the code as it is an empty match ends the stream (model: regex_chain); every emitted token must still
    // point at its own text on character boundaries -- also after multi-byte characters the pattern does not match.
    let n_re = if thorough { 1200 } else { 300 };
    let mut coq_re: i64 = if thorough { 200 } else { 60 };
    for i in 0..n_re {
        let pat = if i % 4 == 0 { *rng.pick(REGEXES) } else { *rng.pick(&REGEXES[EMPTY_OK_FROM..]) };
        let tk = Tk::Regex(pat.to_string());
        // ASCII words interleaved with multi-byte characters / words, so that matches follow unmatched multi-byte text
        let text = if i % 3 == 0 { gen_text(&mut rng, 5 + (i % 7)) } else {
            let n = rng.range(2, 8);
            let mut t = String::new();
            for _ in 0..n {
                t.push_str(*rng.pick(&["foo", "bar", "x", "xx", "a", "42", "7", "Rust", "AB", "é", "語", "日本語", "𝒳", "ß", "Ünï", "été", "мир", "🙂", "e\u{301}"]));
                t.push_str(*rng.pick(&["", " ", " ", "é", "語", " 𝒳 ", "-", "\u{a0}", "\u{3000}"]));
            }
            t
        };
        let fls: Vec<Fl> = if i % 5 == 4 { vec![Fl::Lower] } else { vec![] };
        let desc = json!({"what": "regex tokens", "pattern": pat, "text": text, "filters": format!("{:?}", fls)});
        let toks = match run(&mut build(&tk, &fls), &text) { Ok(t) => t, Err(e) => { out.spec_checked(false, json!({"what": "regex analyzer panicked", "case": desc, "panic": e})); continue; } };
        out.count("regex_empty_ok_cases", 1);
        if !text.is_ascii() && !toks.is_empty() { out.count("regex_multibyte_with_tokens", 1); }
        let s_ok = spans_ok(&text, &toks);
        out.spec_checked(s_ok, json!({"what": "regex token offsets outside the text / off a boundary / positions decrease", "case": desc, "tokens": format!("{:?}", &toks[..toks.len().min(40)])}));
        let t_ok = !fls.is_empty() || texts_ok(&text, &toks);
        out.spec_checked(t_ok, json!({"what": "regex token text differs from the slice it points to", "case": desc, "tokens": format!("{:?}", &toks[..toks.len().min(40)])}));
        out.spec_checked(disjoint(&toks) && toks.iter().all(|t| t.from < t.to), json!({"what": "regex tokens overlap or are empty", "case": desc}));
        // slicing the text with the offsets (what highlighting does) must not panic: a snippet over these tokens
        if !toks.is_empty() {
            let mut terms = BTreeMap::new(); terms.insert(rng.pick(&toks).text.to_lowercase(), 1.0f32);
            let max = rng.below(text.len() as u64 + 2) as usize;
            let g = SnippetGenerator::new(terms, build(&tk, &fls), Field::from_field_id(0), max);
            let r = guarded(|| { let s = g.snippet(&text); (s.fragment().to_string(), s.highlighted().to_vec(), s.to_html()) });
            match r {
                Err(e) => out.spec_checked(false, json!({"what": "snippet over regex tokens panicked", "case": desc, "max_num_chars": max, "panic": e})),
                Ok((frag, hl, html)) => { let (dis, inside) = ranges_ok(&frag, &hl);
                    out.spec_checked(dis && inside && text.contains(&frag) && unhtml(&html) == frag, json!({"what": "snippet over regex tokens violates the range / html predicates", "case": desc, "fragment": frag, "highlighted": format!("{:?}", hl)})); }
            }
        }
        if coq_re > 0 && text.chars().count() <= 80 && toks.len() <= 80 {
            coq_re -= 1;
            let o = oracles(&text, &tk, &fls);
            out.coq_case("tie", format!("otokens_eqb ({}) {}", analyze_term(&o, &tk, &fls, &text), toks_term(&toks)), desc.clone(), !toks.is_empty());
            out.coq_case("spec", format!("tokens_spec {} {}", cps(&text), toks_term(&toks)), desc.clone(), !toks.is_empty());
            if fls.is_empty() { out.coq_case("spec", format!("tokens_text_spec {} {}", cps(&text), toks_term(&toks)), desc.clone(), !toks.is_empty()); }
        }
    }


    // ================= (vi) edges: every tokenizer on texts that begin / end (no trailing separator) with a
    //                   token of exactly one multi-byte character =================
    {
        let mbs = ["é", "à", "ß", "€", "我", "語", "👍", "𝒳", "\u{a0}", "\u{3000}", "\u{301}", "٣", "İ"];   // 2-, 3- and 4-byte characters
        let mut tokenizers: Vec<Tk> = vec![Tk::Simple, Tk::Whitespace, Tk::Raw, Tk::Facet,
            Tk::Ngram(1, 1, false), Tk::Ngram(1, 2, false), Tk::Ngram(2, 3, false), Tk::Ngram(1, 3, true), Tk::Ngram(3, 4, true)];
        for p in REGEXES { tokenizers.push(Tk::Regex(p.to_string())); }
        let mut texts: Vec<String> = vec![];
        for m in mbs {
            texts.push(m.to_string());
            for sep in [" ", "\t", "\n", "\u{0}", ", ", "-"] {
                texts.push(format!("total: 5{}{}", sep, m));          // ends in a one-character multi-byte token
                texts.push(format!("{}{}ok then", m, sep));            // begins with one
                texts.push(format!("{}{}{}", m, sep, m));
                texts.push(format!("voilà{}{}", sep, m));
            }
        }
        let extra = if thorough { 400 } else { 60 };
        for k in 0..extra {
            let mut t = gen_text(&mut rng, 5 + (k % 7));
            if t.chars().count() > 40 { t = t.chars().take(40).collect(); }
            let m = *rng.pick(&mbs); let sep = *rng.pick(&[" ", "\t", "\n", "\u{0}", "-", "\r\n"]);
            texts.push(match k % 3 { 0 => format!("{}{}{}", t, sep, m), 1 => format!("{}{}{}", m, sep, t), _ => format!("{}{}{}{}{}", m, sep, t, sep, m) });
        }
        let mut coq_edge: i64 = if thorough { 400 } else { 120 };
        for (ti, text) in texts.iter().enumerate() {
            for (ki, tk) in tokenizers.iter().enumerate() {
                let fls: Vec<Fl> = if (ti + ki) % 4 == 3 { vec![Fl::Lower] } else { vec![] };
                let desc = json!({"what": "edge tokens", "text": text, "tokenizer": format!("{:?}", tk), "filters": format!("{:?}", fls)});
                out.count("edge_cases", 1);
                let toks = match run(&mut build(tk, &fls), text) { Ok(t) => t,
                    Err(e) => { out.spec_checked(false, json!({"what": "analyzer panicked (token_stream/advance)", "case": desc, "panic": e})); continue; } };
                out.spec_checked(spans_ok(text, &toks), json!({"what": "token offsets outside the text / off a boundary / positions decrease", "case": desc, "tokens": format!("{:?}", &toks[..toks.len().min(40)])}));
                if fls.is_empty() && !matches!(tk, Tk::Facet) {
                    out.spec_checked(texts_ok(text, &toks), json!({"what": "token text differs from the slice it points to", "case": desc, "tokens": format!("{:?}", &toks[..toks.len().min(40)])}));
                }
                if coq_edge > 0 && (ti * 7 + ki) % 11 == 0 {
                    coq_edge -= 1;
                    let o = oracles(text, tk, &fls);
                    out.coq_case("tie", format!("otokens_eqb ({}) {}", analyze_term(&o, tk, &fls, text), toks_term(&toks)), desc.clone(), !toks.is_empty());
                    out.coq_case("spec", format!("tokens_spec {} {}", cps(text), toks_term(&toks)), desc.clone(), !toks.is_empty());
                }
            }
        }
    }

    // ================= corpus: the witnesses of Properties/C19.v replayed on the implementation =================
    {
        // F9
        let text = "zz abcdefgh yy";
        let mut m = BTreeMap::new(); m.insert("abcdefgh".to_string(), 1.0f32);
        let g = SnippetGenerator::new(m, build(&Tk::Simple, &[]), Field::from_field_id(0), 5);
        let toks = run(&mut build(&Tk::Simple, &[]), text).unwrap();
        let s = g.snippet(text);
        if s.fragment().chars().count() > 5 { out.coq_case("known:F9", format!("f9_class {} {} {} 5", cps(text), toks_term(&toks), cps(s.fragment())), json!({"what": "corpus F9", "fragment": s.fragment()}), true); }
        // F10
        let text = "abcabc";
        let mut m = BTreeMap::new(); for t in ["ab", "abc", "bc"] { m.insert(t.to_string(), 1.0f32); }
        let g = SnippetGenerator::new(m, build(&Tk::Ngram(2, 3, false), &[]), Field::from_field_id(0), 100);
        let toks = run(&mut build(&Tk::Ngram(2, 3, false), &[]), text).unwrap();
        let s = g.snippet(text);
        if !ranges_ok(s.fragment(), s.highlighted()).0 { out.coq_case("known:F10", format!("f10_class {}", toks_term(&toks)), json!({"what": "corpus F10", "highlighted": format!("{:?}", s.highlighted())}), true); }
        // F21 (fixed in /repo): regression -- the highlight lies inside the fragment and to_html does not panic
        let text = "abcd";
        let mut m = BTreeMap::new(); m.insert("abc".to_string(), 1.0f32);
        let g = SnippetGenerator::new(m, build(&Tk::Ngram(1, 3, false), &[]), Field::from_field_id(0), 2);
        let r = guarded(|| { let s = g.snippet(text); (s.fragment().to_string(), s.highlighted().to_vec(), s.to_html()) });
        match r {
            Err(e) => out.spec_checked(false, json!({"what": "corpus F21 regression: snippet/to_html panicked", "text": text, "tokenizer": "Ngram(1,3,false)", "terms": ["abc"], "max_num_chars": 2, "panic": e})),
            Ok((frag, hl, html)) => {
                out.coq_case("spec", format!("ranges_spec {} (collapse {}) && html_spec {} {}", cps(&frag), ranges_term(&hl), cps(&frag), cps(&html)), json!({"what": "corpus F21 regression", "fragment": frag, "highlighted": format!("{:?}", hl), "html": html}), true);
            }
        }
        // F22
        let text = "a\u{0}b";
        let toks = run(&mut build(&Tk::Facet, &[]), text).unwrap();
        if !texts_ok(text, &toks) { out.coq_case("known:F22", format!("f22_class {} {}", cps(text), toks_term(&toks)), json!({"what": "corpus F22", "tokens": format!("{:?}", toks)}), true); }
    }

    out.finish(json!({"tier": args.tier, "seed": args.seed}));
}
