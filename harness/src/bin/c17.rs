//! C17 correspondence: sorted indexes.  Histories (adds with duplicate / missing / extreme sort values,
//! same-transaction deletes on a tag, commits, merges of disjoint and overlapping ranges, with and
//! without deleted documents) are run on real `IndexWriter`s under every supported sort-field type x
//! direction; every segment is read back in doc-id order (sort values through the fast-field reader,
//! the id through fast field / doc store / postings, field norms, alive bitset).
//!   tie  : `tie_replay`  -- the Coq model replays the history (finalize/remap/apply_deletes/merge) and
//!          must produce the observed segments (modulo the order inside runs of equal keys);
//!   spec : `spec_sorted` (order on the field's own values, null placement), `spec_content` (live ids
//!          per segment = sequential meaning of the history, blind to sorting), and the attachment
//!          checks (decided here: the id read through store / fast field / postings and everything
//!          derived from the id must agree for every doc id).
use serde_json::{json, Value as J};
use tantivy::indexer::NoMergePolicy;
use tantivy::schema::{Field, IndexRecordOption, Schema, Value, FAST, INDEXED, STORED, STRING, TEXT};
use tantivy::index::SegmentId;
use tantivy::postings::Postings;
use tantivy::{DateTime, DocSet, Index, IndexSettings, IndexSortByField, IndexWriter, Order, SegmentReader, TantivyDocument, Term, TERMINATED};
use tvh::coqfmt as cf;
use tvh::out::CaseOut;
use tvh::rng::Rng;
use tvh::{guarded, Args};

const HEADER: &str = "From TV Require Import Base.Prelude Indexing.SortIndex.\n\
Definition A (i : N) (v : list N) (b : list bytes) (t o : N) : hop := HAdd {| md_id := i; md_vals := v; md_bvals := b; md_tag := t; md_opstamp := o |}.\n\
Definition R (i : nat) (v : list (list N)) (a : list bool) : reader := {| r_id := i; r_vals := v; r_alive := a |}.";

#[derive(Clone, Copy, Debug, PartialEq)]
enum KT { U64, I64, F64, Date, Str, Bytes }
impl KT {
    fn coq(self) -> &'static str {
        match self { KT::U64 => "(SNum KU64)", KT::I64 => "(SNum KI64)", KT::F64 => "(SNum KF64)", KT::Date => "(SNum KDate)", KT::Str | KT::Bytes => "SBytes" }
    }
    fn name(self) -> &'static str {
        match self { KT::U64 => "u64", KT::I64 => "i64", KT::F64 => "f64", KT::Date => "date", KT::Str => "str", KT::Bytes => "bytes" }
    }
    fn numeric(self) -> bool { !matches!(self, KT::Str | KT::Bytes) }
}

/// a sort value: numeric raw 64-bit pattern (u64 / i64 two's complement / f64 bits / date nanos) or bytes
#[derive(Clone, Debug, PartialEq)]
enum KV { Num(u64), Bin(Vec<u8>) }

#[derive(Clone, Debug)]
struct DocSpec { id: u64, keys: Vec<KV>, tag: u64 }

#[derive(Clone, Debug)]
enum Op { Add(DocSpec), Del(u64), Commit, Merge(Vec<usize>) }

struct Fields { id: Field, key: Field, tag: Field, body: Field, wf: Field, opt: Field }

/// the extremes batch uses nanosecond precision for the date sort field (so that i64::MAX and i64::MAX-1 ns are
/// distinct stored values); the other batches keep the default (seconds) with values on the grid
static FINE_DATES: std::sync::atomic::AtomicBool = std::sync::atomic::AtomicBool::new(false);

fn schema_for(kt: KT) -> (Schema, Fields) {
    let mut sb = Schema::builder();
    let id = sb.add_u64_field("id", FAST | INDEXED | STORED);
    let key = match kt {
        KT::U64 => sb.add_u64_field("key", FAST),
        KT::I64 => sb.add_i64_field("key", FAST | STORED),
        KT::F64 => sb.add_f64_field("key", FAST),
        KT::Date => if FINE_DATES.load(std::sync::atomic::Ordering::Relaxed) {
            sb.add_date_field("key", tantivy::schema::DateOptions::default().set_fast().set_indexed().set_precision(tantivy::schema::DateTimePrecision::Nanoseconds))
        } else { sb.add_date_field("key", FAST | INDEXED) },
        KT::Str => sb.add_text_field("key", STRING | FAST),
        KT::Bytes => sb.add_bytes_field("key", FAST),
    };
    let tag = sb.add_text_field("tag", STRING | STORED);
    let body = sb.add_text_field("body", TEXT);
    // a field indexed with term frequencies but no positions (TermFrequencyRecorder), absent from some documents,
    // and a later optional field: several field-norm fields, the later ones missing in documents at any position
    let wf = sb.add_text_field("wf", tantivy::schema::TextOptions::default().set_indexing_options(
        tantivy::schema::TextFieldIndexing::default().set_tokenizer("default").set_index_option(IndexRecordOption::WithFreqs)));
    let opt = sb.add_text_field("opt", TEXT);
    (sb.build(), Fields { id, key, tag, body, wf, opt })
}

fn gen_key(rng: &mut Rng, kt: KT, lo: i64, hi: i64) -> KV {
    // values in [lo, hi] (small range => duplicates), extremes with a fixed share
    let ext = rng.chance(1, 8);
    let small = lo + rng.below((hi - lo + 1) as u64) as i64;
    match kt {
        KT::U64 => KV::Num(if ext { *rng.pick(&[0u64, 1, u64::MAX, u64::MAX - 1, 1 << 63, (1 << 63) - 1, 1 << 32]) } else { (small + 1000) as u64 }),
        KT::I64 => KV::Num(if ext { *rng.pick(&[i64::MIN, i64::MIN + 1, -1, 0, 1, i64::MAX, i64::MAX - 1]) } else { small } as u64),
        KT::F64 => {
            let v: f64 = if ext { *rng.pick(&[f64::NEG_INFINITY, f64::MIN, -1.0e-300, 0.0, f64::MIN_POSITIVE, 5e-324, 1.0e300, f64::MAX, f64::INFINITY, -5e-324]) } else { small as f64 / 2.0 };
            let v = if v == 0.0 { 0.0 } else { v }; // no -0.0 (IEEE-equal to +0.0; order between them is not part of the property)
            KV::Num(v.to_bits())
        }
        KT::Date => {
            let secs: i64 = if ext { *rng.pick(&[-9_000_000_000i64, -1, 0, 1, 9_000_000_000, 4_102_444_800]) } else { small * 3600 };
            KV::Num(DateTime::from_timestamp_secs(secs).into_timestamp_nanos() as u64)
        }
        KT::Str => {
            let pool = ["", "a", "aa", "ab", "b", "ba", "z", "Z", "\u{e9}", "\u{10348}", "a\u{0}", "~"];
            KV::Bin(if ext { pool[rng.below(pool.len() as u64) as usize].as_bytes().to_vec() } else { format!("k{:03}", small + 500).into_bytes() })
        }
        KT::Bytes => {
            if ext { let pool: [&[u8]; 7] = [b"", b"\x00", b"\x00\x00", b"\xff", b"\xff\xff", b"\x7f", b"\x80"]; KV::Bin(pool[rng.below(7) as usize].to_vec()) }
            else { let v = (small + 500) as u16; KV::Bin(vec![(v >> 8) as u8, v as u8]) }
        }
    }
}

fn build_doc(f: &Fields, kt: KT, d: &DocSpec) -> TantivyDocument {
    let mut doc = TantivyDocument::default();
    doc.add_u64(f.id, d.id);
    for k in &d.keys {
        match (kt, k) {
            (KT::U64, KV::Num(x)) => doc.add_u64(f.key, *x),
            (KT::I64, KV::Num(x)) => doc.add_i64(f.key, *x as i64),
            (KT::F64, KV::Num(x)) => doc.add_f64(f.key, f64::from_bits(*x)),
            (KT::Date, KV::Num(x)) => doc.add_date(f.key, DateTime::from_timestamp_nanos(*x as i64)),
            (KT::Str, KV::Bin(b)) => doc.add_text(f.key, std::str::from_utf8(b).unwrap()),
            (KT::Bytes, KV::Bin(b)) => doc.add_bytes(f.key, b),
            _ => unreachable!(),
        }
    }
    doc.add_text(f.tag, format!("t{}", d.tag));
    let mut body = format!("w{}", d.id);
    for _ in 0..(d.id % 5) { body.push_str(" x"); }
    doc.add_text(f.body, body);
    if d.id % 4 != 3 {
        let mut wf = String::new();
        for _ in 0..(1 + d.id % 3) { wf.push_str("common "); }
        wf.push_str(&format!("g{}", d.id % 3));
        doc.add_text(f.wf, wf);
    }
    if d.id % 3 == 0 { doc.add_text(f.opt, "o o"); }
    doc
}

/// what every document must carry in the later fields, as a function of its id: (norm wf, norm opt, tf of "common")
fn expected_later(id: u64) -> (u32, u32, u32) {
    (if id % 4 != 3 { 2 + (id % 3) as u32 } else { 0 }, if id % 3 == 0 { 2 } else { 0 }, if id % 4 != 3 { 1 + (id % 3) as u32 } else { 0 })
}

/// Everything the index says about a segment, keyed by the documents' ids (not by doc id): field norms of every
/// field that has them, and the postings (tf, positions) of every term of every indexed field.  Two runs of the
/// same history under different sort settings must agree on it.
#[derive(Clone, Debug, PartialEq, Default)]
struct SegDump {
    norms: std::collections::BTreeMap<u64, Vec<(u32, u32)>>,
    postings: std::collections::BTreeSet<(u32, Vec<u8>, u64, u32, Vec<u32>)>,
}

fn dump_segment(r: &SegmentReader) -> Result<SegDump, String> {
    let idc = r.fast_fields().u64("id").map_err(|e| format!("id column: {e}"))?;
    let ids: Vec<u64> = (0..r.max_doc()).map(|d| idc.first(d).unwrap_or(u64::MAX)).collect();
    let mut dump = SegDump::default();
    let schema = r.schema().clone();
    for (field, entry) in schema.fields() {
        if entry.has_fieldnorms() {
            let nr = r.get_fieldnorms_reader(field).map_err(|e| format!("norms of {}: {e}", entry.name()))?;
            for d in 0..r.max_doc() { dump.norms.entry(ids[d as usize]).or_default().push((field.field_id(), nr.fieldnorm(d))); }
        }
        if !entry.is_indexed() { continue; }
        let inv = r.inverted_index(field).map_err(|e| format!("inverted index of {}: {e}", entry.name()))?;
        let mut stream = inv.terms().stream().map_err(|e| format!("term stream: {e}"))?;
        while stream.advance() {
            let term = stream.key().to_vec();
            let ti = stream.value().clone();
            let mut p = inv.read_postings_from_terminfo(&ti, IndexRecordOption::WithFreqsAndPositions).map_err(|e| format!("postings: {e}"))?;
            let mut d = p.doc();
            let mut pos = vec![];
            while d != TERMINATED {
                if d >= r.max_doc() { return Err(format!("posting of field {} beyond max_doc: {d}", entry.name())); }
                p.positions(&mut pos);
                dump.postings.insert((field.field_id(), term.clone(), ids[d as usize], p.term_freq(), pos.clone()));
                d = p.advance();
            }
        }
    }
    Ok(dump)
}

/// one document as observed at a doc id
#[derive(Clone, Debug)]
struct ODoc { id: u64, keys: Vec<KV>, alive: bool, norm_body: u32, norm_wf: u32, norm_opt: u32, tf_common: u32 }

/// Reads a segment back in doc-id order; `Err` = an attachment / consistency check failed.
fn observe_segment(r: &SegmentReader, f: &Fields, kt: KT, truth: &std::collections::HashMap<u64, DocSpec>) -> Result<Vec<ODoc>, String> {
    let ff = r.fast_fields();
    let idc = ff.u64("id").map_err(|e| format!("id column: {e}"))?;
    let store = r.get_store_reader(0).map_err(|e| format!("store: {e}"))?;
    let norms = r.get_fieldnorms_reader(f.body).map_err(|e| format!("norms: {e}"))?;
    let norms_wf = r.get_fieldnorms_reader(f.wf).map_err(|e| format!("norms wf: {e}"))?;
    let norms_opt = r.get_fieldnorms_reader(f.opt).map_err(|e| format!("norms opt: {e}"))?;
    let inv_wf = r.inverted_index(f.wf).map_err(|e| format!("inv wf: {e}"))?;
    // (doc, tf) of "common" and the holders of g0/g1/g2 in the WithFreqs field
    let mut tf_common = vec![0u32; r.max_doc() as usize];
    let mut group = vec![None; r.max_doc() as usize];
    for (term, is_common) in [("common", true), ("g0", false), ("g1", false), ("g2", false)] {
        if let Some(mut p) = inv_wf.read_postings(&Term::from_field_text(f.wf, term), IndexRecordOption::WithFreqs).map_err(|e| format!("postings wf: {e}"))? {
            let mut d = p.doc();
            while d != TERMINATED {
                if d >= r.max_doc() { return Err(format!("posting of wf:{term} beyond max_doc: {d}")); }
                if is_common { tf_common[d as usize] = p.term_freq(); } else {
                    if p.term_freq() != 1 { return Err(format!("doc {d}: tf(wf:{term}) = {}", p.term_freq())); }
                    if group[d as usize].is_some() { return Err(format!("doc {d}: in two wf groups")); }
                    group[d as usize] = Some(term.as_bytes()[1] - b'0');
                }
                d = p.advance();
            }
        }
    }
    let inv_id = r.inverted_index(f.id).map_err(|e| format!("inv id: {e}"))?;
    let inv_body = r.inverted_index(f.body).map_err(|e| format!("inv body: {e}"))?;
    let inv_tag = r.inverted_index(f.tag).map_err(|e| format!("inv tag: {e}"))?;
    // sort values of every doc through the typed fast-field reader
    let keys_of: Box<dyn Fn(u32) -> Vec<KV>> = match kt {
        KT::U64 => { let c = ff.u64("key").map_err(|e| format!("key column: {e}"))?; Box::new(move |d| c.values_for_doc(d).map(KV::Num).collect()) }
        KT::I64 => { let c = ff.i64("key").map_err(|e| format!("key column: {e}"))?; Box::new(move |d| c.values_for_doc(d).map(|v| KV::Num(v as u64)).collect()) }
        KT::F64 => { let c = ff.f64("key").map_err(|e| format!("key column: {e}"))?; Box::new(move |d| c.values_for_doc(d).map(|v| KV::Num(v.to_bits())).collect()) }
        KT::Date => { let c = ff.date("key").map_err(|e| format!("key column: {e}"))?; Box::new(move |d| c.values_for_doc(d).map(|v| KV::Num(v.into_timestamp_nanos() as u64)).collect()) }
        KT::Str => {
            let c = ff.str("key").map_err(|e| format!("key column: {e}"))?.ok_or("no str column")?;
            Box::new(move |d| c.ords().values_for_doc(d).map(|o| { let mut s = String::new(); c.ord_to_str(o, &mut s).unwrap(); KV::Bin(s.into_bytes()) }).collect())
        }
        KT::Bytes => {
            let c = ff.bytes("key").map_err(|e| format!("key column: {e}"))?.ok_or("no bytes column")?;
            Box::new(move |d| c.ords().values_for_doc(d).map(|o| { let mut b = Vec::new(); c.ord_to_bytes(o, &mut b).unwrap(); KV::Bin(b) }).collect())
        }
    };
    // tf of "x" per doc through the postings of the body field
    let mut tf_x = vec![0u32; r.max_doc() as usize];
    if let Some(mut p) = inv_body.read_postings(&Term::from_field_text(f.body, "x"), IndexRecordOption::WithFreqs).map_err(|e| format!("postings x: {e}"))? {
        let mut d = p.doc();
        while d != TERMINATED { tf_x[d as usize] = p.term_freq(); d = p.advance(); }
    }
    let mut out = vec![];
    for d in 0..r.max_doc() {
        let id = idc.first(d).ok_or(format!("doc {d}: no id in the fast field"))?;
        let t = truth.get(&id).ok_or(format!("doc {d}: unknown id {id}"))?;
        let stored: TantivyDocument = store.get(d).map_err(|e| format!("doc {d}: store: {e}"))?;
        let sid = stored.get_first(f.id).and_then(|v| v.as_u64());
        if sid != Some(id) { return Err(format!("doc {d}: stored id {sid:?} != fast-field id {id}")); }
        let stag = stored.get_first(f.tag).and_then(|v| v.as_str().map(|s| s.to_string()));
        if stag != Some(format!("t{}", t.tag)) { return Err(format!("doc {d} (id {id}): stored tag {stag:?} != t{}", t.tag)); }
        let fnorm = norms.fieldnorm(d);
        if fnorm as u64 != 1 + id % 5 { return Err(format!("doc {d} (id {id}): fieldnorm {fnorm} != {}", 1 + id % 5)); }
        if tf_x[d as usize] as u64 != id % 5 { return Err(format!("doc {d} (id {id}): tf(x) {} != {}", tf_x[d as usize], id % 5)); }
        // postings: the id term and the unique body token w<id> point at exactly this doc; the tag term contains it
        for (inv, term) in [(&inv_id, Term::from_field_u64(f.id, id)), (&inv_body, Term::from_field_text(f.body, &format!("w{id}")))] {
            let mut docs = vec![];
            if let Some(mut p) = inv.read_postings(&term, IndexRecordOption::Basic).map_err(|e| format!("postings: {e}"))? {
                let mut x = p.doc();
                while x != TERMINATED { docs.push(x); x = p.advance(); }
            }
            if docs != vec![d] { return Err(format!("doc {d} (id {id}): postings of {term:?} = {docs:?}")); }
        }
        let mut has_tag = false;
        if let Some(mut p) = inv_tag.read_postings(&Term::from_field_text(f.tag, &format!("t{}", t.tag)), IndexRecordOption::Basic).map_err(|e| format!("postings: {e}"))? {
            has_tag = p.seek(d) == d;
        }
        if !has_tag { return Err(format!("doc {d} (id {id}): not in the postings of its tag t{}", t.tag)); }
        let (e_wf, e_opt, e_tf) = expected_later(id);
        let (n_wf, n_opt) = (norms_wf.fieldnorm(d), norms_opt.fieldnorm(d));
        if n_wf != e_wf { return Err(format!("doc {d} (id {id}): fieldnorm(wf) {n_wf} != {e_wf}")); }
        if n_opt != e_opt { return Err(format!("doc {d} (id {id}): fieldnorm(opt) {n_opt} != {e_opt}")); }
        if tf_common[d as usize] != e_tf { return Err(format!("doc {d} (id {id}): tf(wf:common) {} != {e_tf}", tf_common[d as usize])); }
        let e_group = if id % 4 != 3 { Some((id % 3) as u8) } else { None };
        if group[d as usize] != e_group { return Err(format!("doc {d} (id {id}): wf group {:?} != {e_group:?}", group[d as usize])); }
        let keys = keys_of(d);
        if keys != t.keys { return Err(format!("doc {d} (id {id}): sort values {keys:?} != indexed {:?}", t.keys)); }
        out.push(ODoc { id, keys, alive: !r.is_deleted(d), norm_body: fnorm, norm_wf: n_wf, norm_opt: n_opt, tf_common: tf_common[d as usize] });
    }
    Ok(out)
}

// ---- order on the field's own values, decided on the Rust side for the per-step checks
fn key_cmp(kt: KT, a: &KV, b: &KV) -> std::cmp::Ordering {
    match (kt, a, b) {
        (KT::U64, KV::Num(x), KV::Num(y)) => x.cmp(y),
        (KT::I64, KV::Num(x), KV::Num(y)) | (KT::Date, KV::Num(x), KV::Num(y)) => (*x as i64).cmp(&(*y as i64)),
        (KT::F64, KV::Num(x), KV::Num(y)) => f64::from_bits(*x).partial_cmp(&f64::from_bits(*y)).unwrap(),
        (_, KV::Bin(x), KV::Bin(y)) => x.cmp(y),
        _ => unreachable!(),
    }
}
fn sorted_per_spec(kt: KT, desc: bool, keys: &[Option<KV>]) -> bool {
    keys.windows(2).all(|w| {
        let c = match (&w[0], &w[1]) {
            (None, None) => std::cmp::Ordering::Equal,
            (None, Some(_)) => std::cmp::Ordering::Less,
            (Some(_), None) => std::cmp::Ordering::Greater,
            (Some(a), Some(b)) => key_cmp(kt, a, b),
        };
        if desc { c != std::cmp::Ordering::Less } else { c != std::cmp::Ordering::Greater }
    })
}

// ---- Gallina printers
fn kv_list(k: &KV) -> String { match k { KV::Num(x) => format!("[{}]", x), KV::Bin(b) => cf::bytes(b) } }
fn rawkey(keys: &[KV]) -> String { match keys.first() { None => "None".into(), Some(k) => format!("(Some {})", kv_list(k)) } }
fn op_term(op: &Op, opstamp: u64) -> String {
    match op {
        Op::Add(d) => {
            let nums: Vec<u64> = d.keys.iter().filter_map(|k| if let KV::Num(x) = k { Some(*x) } else { None }).collect();
            let bins: Vec<Vec<u8>> = d.keys.iter().filter_map(|k| if let KV::Bin(b) = k { Some(b.clone()) } else { None }).collect();
            format!("A {} {} {} {} {}", d.id, cf::ns(&nums), cf::list(&bins, |b| cf::bytes(b)), d.tag, opstamp)
        }
        Op::Del(t) => format!("HDel {} {}", t, opstamp),
        Op::Commit => "HCommit".into(),
        Op::Merge(ps) => format!("HMerge {}", cf::list(ps, |p| cf::nat(*p))),
    }
}
fn obs_term(obs: &[Vec<ODoc>]) -> String {
    cf::list(obs, |sg| cf::list(sg, |d| format!("({}, {}, {})", d.id, rawkey(&d.keys), cf::boolean(d.alive))))
}
fn order_term(desc: bool) -> &'static str { if desc { "Desc" } else { "Asc" } }

struct Run { obs: Vec<Vec<ODoc>>, dump: Vec<SegDump>, opstamps: Vec<u64>, problems: Vec<String>, merges: u64,
             /// a merge whose sources are in class F171 produced an unsorted segment: (sources, result, number of ops executed)
             f171: Option<(Vec<Vec<ODoc>>, Vec<ODoc>, usize)>,
             /// some merge had sources in class F171 (whether or not the implementation misplaced anything)
             f171_class_merge: bool }

/// F171 class decided on the observation (the Coq classifier `has_f171` is evaluated on the same data)
fn in_f171_class(sources: &[Vec<ODoc>]) -> bool {
    sources.iter().any(|sg| sg.iter().any(|d| d.keys.len() > 1) && sg.iter().any(|d| d.alive && d.keys.is_empty()))
}

/// Runs a history on a real index.  Returns the final observation (segments in harness position order).
fn run_history(kt: KT, sort: Option<bool>, ops: &[Op]) -> Result<Run, String> {
    let mut f171 = None;
    let mut f171_class_merge = false;
    let (schema, f) = schema_for(kt);
    let settings = IndexSettings {
        sort_by_field: sort.map(|desc| IndexSortByField { field: "key".into(), order: if desc { Order::Desc } else { Order::Asc } }),
        ..Default::default()
    };
    let index = Index::builder().schema(schema).settings(settings).create_in_ram().map_err(|e| format!("create: {e}"))?;
    let mut w: IndexWriter = index.writer_with_num_threads(1, 30_000_000).map_err(|e| format!("writer: {e}"))?;
    w.set_merge_policy(Box::new(NoMergePolicy));
    let mut truth = std::collections::HashMap::new();
    let mut positions: Vec<SegmentId> = vec![];
    let mut opstamps = vec![];
    let mut problems = vec![];
    let mut merges = 0;
    let mut merge_sources: Vec<Vec<ODoc>> = vec![];
    let sync = |index: &Index, positions: &mut Vec<SegmentId>, extra: Option<SegmentId>| -> Result<(), String> {
        let now = index.searchable_segment_ids().map_err(|e| format!("segment ids: {e}"))?;
        positions.retain(|s| now.contains(s));
        let mut fresh: Vec<SegmentId> = now.iter().filter(|s| !positions.contains(s)).cloned().collect();
        if let Some(x) = extra { if fresh != vec![x] && !(fresh.is_empty()) { return Err(format!("unexpected new segments {fresh:?}")); } }
        if fresh.len() > 1 { return Err(format!("more than one new segment: {fresh:?}")); }
        positions.append(&mut fresh);
        Ok(())
    };
    for (op_ix, op) in ops.iter().enumerate() {
        match op {
            Op::Add(d) => {
                truth.insert(d.id, d.clone());
                opstamps.push(w.add_document(build_doc(&f, kt, d)).map_err(|e| format!("add: {e}"))?);
            }
            Op::Del(t) => opstamps.push(w.delete_term(Term::from_field_text(f.tag, &format!("t{t}")))),
            Op::Commit => {
                opstamps.push(w.commit().map_err(|e| format!("commit: {e}"))?);
                sync(&index, &mut positions, None)?;
            }
            Op::Merge(ps) => {
                let ids: Vec<SegmentId> = ps.iter().map(|p| positions[*p]).collect();
                {
                    let searcher = index.reader().map_err(|e| format!("reader: {e}"))?.searcher();
                    merge_sources.clear();
                    for sid in &ids {
                        let r = searcher.segment_readers().iter().find(|r| r.segment_id() == *sid).ok_or("merge source vanished")?;
                        merge_sources.push(observe_segment(r, &f, kt, &truth).unwrap_or_default());
                    }
                    if in_f171_class(&merge_sources) { f171_class_merge = true; }
                }
                let meta = w.merge(&ids).wait().map_err(|e| format!("merge: {e}"))?;
                merges += 1;
                opstamps.push(0);
                sync(&index, &mut positions, meta.map(|m| m.id()))?;
            }
        }
        // after every step that changes segments: each segment sorted per spec, attachments intact
        if matches!(op, Op::Commit | Op::Merge(_)) {
            let searcher = index.reader().map_err(|e| format!("reader: {e}"))?.searcher();
            for r in searcher.segment_readers() {
                match observe_segment(r, &f, kt, &truth) {
                    Err(e) => problems.push(format!("attachment: {e}")),
                    Ok(docs) => if let Some(desc) = sort {
                        let live: Vec<Option<KV>> = docs.iter().filter(|d| d.alive).map(|d| d.keys.first().cloned()).collect();
                        if !sorted_per_spec(kt, desc, &live) {
                            if matches!(op, Op::Merge(_)) && in_f171_class(&merge_sources) && positions.last() == Some(&r.segment_id()) {
                                f171 = Some((merge_sources.clone(), docs.clone(), op_ix + 1));
                            } else {
                                problems.push(format!("segment not sorted: {:?}", docs));
                            }
                        }
                    }
                }
            }
        }
        if f171.is_some() { break; }
    }
    w.wait_merging_threads().ok();
    let searcher = index.reader().map_err(|e| format!("reader: {e}"))?.searcher();
    let mut obs = vec![];
    let mut dump = vec![];
    for sid in &positions {
        let r = searcher.segment_readers().iter().find(|r| r.segment_id() == *sid).ok_or("segment vanished")?;
        obs.push(observe_segment(r, &f, kt, &truth).unwrap_or_else(|e| { problems.push(format!("attachment: {e}")); vec![] }));
        dump.push(dump_segment(r).unwrap_or_else(|e| { problems.push(format!("dump: {e}")); SegDump::default() }));
    }
    Ok(Run { obs, dump, opstamps, problems, merges, f171, f171_class_merge })
}

/// the key of a small integer in the field's type (order preserving)
fn key_small(kt: KT, small: i64) -> KV {
    match kt {
        KT::U64 => KV::Num((small + 1000) as u64),
        KT::I64 => KV::Num(small as u64),
        KT::F64 => KV::Num((small as f64 / 2.0 + 0.25).to_bits()),
        KT::Date => KV::Num(DateTime::from_timestamp_secs(small * 3600).into_timestamp_nanos() as u64),
        KT::Str => KV::Bin(format!("k{:03}", small + 500).into_bytes()),
        KT::Bytes => { let v = (small + 500) as u16; KV::Bin(vec![(v >> 8) as u8, v as u8]) }
    }
}

/// Directed class "the stacking decision hinges on live value-less documents in a segment with deletes":
/// 2-4 segments with pairwise disjoint (or touching) value windows, committed in a random order; one segment
/// (lowest / middle / highest window) holds j value-less documents (alive, deleted, or mixed) and d deleted
/// documents with values (d around j: fewer, equal, more; deleted inside the transaction or by a later one);
/// other segments may have deletes too but no value-less documents; optionally a multi-valued document;
/// then all segments are merged.  (Desc + alive nulls at the tail of a segment whose num_docs < max_doc is the
/// shape in which a num_docs/max_doc confusion of the null scan shows.)
fn gen_stack_candidate(rng: &mut Rng, kt: KT, shape: u64) -> Vec<Op> {
    let nseg = 2 + (shape % 3) as usize;
    let touching = rng.chance(1, 3);
    // window of value rank w: [w*10, w*10+5] (touching: next window starts at this one's end)
    let window = |w: usize| -> (i64, i64) { if touching { (w as i64 * 5, w as i64 * 5 + 5) } else { (w as i64 * 10, w as i64 * 10 + 5) } };
    let null_rank = match (shape / 3) % 3 { 0 => 0, 1 => nseg / 2, _ => nseg - 1 };
    let j = rng.range(1, 3) as usize;                       // value-less documents
    let null_mode = (shape / 9) % 4;                         // 0,1 alive; 2 all deleted; 3 mixed
    let d = match rng.below(4) { 0 => j.saturating_sub(1), 1 => j, 2 => j + 2, _ => 0 }; // deleted docs with values
    let late_delete = rng.chance(1, 2);                      // the delete arrives in the next transaction
    let multi = rng.chance(1, 5);
    let mut order: Vec<usize> = (0..nseg).collect();         // commit order of the value ranks
    rng.shuffle(&mut order);
    let mut ops = vec![];
    let mut next_id = 0u64;
    let mut pending_late: Vec<u64> = vec![];
    for (c, rank) in order.iter().enumerate() {
        let (lo, hi) = window(*rank);
        let mut docs: Vec<(Vec<KV>, u64)> = vec![];
        // live documents with values (tag 0/1), the window's ends always present (so that min/max are the window)
        docs.push((vec![key_small(kt, lo)], 0));
        docs.push((vec![key_small(kt, hi)], 1));
        for _ in 0..rng.range(0, 4) { docs.push((vec![key_small(kt, lo + rng.below((hi - lo + 1) as u64) as i64)], rng.below(2))); }
        let mut dels_here: Vec<u64> = vec![];
        if *rank == null_rank {
            for n in 0..j {
                let dead = null_mode == 2 || (null_mode == 3 && n % 2 == 0);
                docs.push((vec![], if dead { 7 } else { 6 }));
            }
            if null_mode >= 2 { dels_here.push(7); }
            for _ in 0..d { docs.push((vec![key_small(kt, lo + rng.below((hi - lo + 1) as u64) as i64)], 8)); }
            if d > 0 { dels_here.push(8); }
            if multi { docs.push((vec![key_small(kt, lo + 1), key_small(kt, lo + 2)], 0)); }
        } else if rng.chance(1, 3) {
            for _ in 0..rng.range(1, 3) { docs.push((vec![key_small(kt, lo + rng.below((hi - lo + 1) as u64) as i64)], 9)); }
            dels_here.push(9);
        }
        rng.shuffle(&mut docs);
        // deletes of the previous transaction that were postponed
        for t in pending_late.drain(..) { ops.push(Op::Del(t)); }
        for (keys, tag) in docs { ops.push(Op::Add(DocSpec { id: next_id, keys, tag })); next_id += 1; }
        if late_delete && c + 1 < nseg { pending_late = dels_here; } else { for t in dels_here { ops.push(Op::Del(t)); } }
        ops.push(Op::Commit);
    }
    let mut all: Vec<usize> = (0..nseg).collect();
    rng.shuffle(&mut all);
    ops.push(Op::Merge(all));
    ops
}

/// both ends of every key type, with neighbours (every pair of adjacent extremes must stay distinguishable by the sort key)
fn boundary_pool(kt: KT) -> Vec<KV> {
    match kt {
        KT::U64 => [0u64, 1, 2, u64::MAX - 2, u64::MAX - 1, u64::MAX, (1 << 63) - 1, 1 << 63].iter().map(|x| KV::Num(*x)).collect(),
        KT::I64 | KT::Date => [i64::MIN, i64::MIN + 1, i64::MIN + 2, -1, 0, 1, i64::MAX - 2, i64::MAX - 1, i64::MAX].iter().map(|x| KV::Num(*x as u64)).collect(),
        KT::F64 => {
            let prev = |x: f64| f64::from_bits(x.to_bits() - 1);
            [f64::NEG_INFINITY, f64::MIN, -prev(f64::MAX), -f64::MIN_POSITIVE, -1.0e-323, -5e-324, 0.0, 5e-324, 1.0e-323, f64::MIN_POSITIVE, prev(f64::MAX), f64::MAX, f64::INFINITY]
                .iter().map(|x| KV::Num(x.to_bits())).collect()
        }
        KT::Str => ["", "\u{0}", "\u{0}\u{0}", "\u{1}", "a", "\u{10ffff}", "\u{10ffff}\u{10ffff}", "\u{10fffe}"].iter().map(|x: &&str| KV::Bin(str::as_bytes(x).to_vec())).collect(),
        KT::Bytes => { let pool: [&[u8]; 8] = [b"", b"\x00", b"\x00\x00", b"\x01", b"\xfe\xff", b"\xff", b"\xff\xfe", b"\xff\xff"]; pool.iter().map(|x| KV::Bin(x.to_vec())).collect() }
    }
}

/// Fresh segments (and a merge of two) made only of boundary values in chosen / random insertion orders.
fn gen_extreme_history(rng: &mut Rng, kt: KT, variant: u64) -> Vec<Op> {
    let pool = boundary_pool(kt);
    let n = pool.len();
    let mut ops = vec![];
    let mut next_id = 0u64;
    let mut add = |ops: &mut Vec<Op>, keys: Vec<KV>, tag: u64| { ops.push(Op::Add(DocSpec { id: next_id, keys, tag })); next_id += 1; };
    match variant {
        // the two largest and the two smallest values, in both insertion orders, with a middle value and a missing one
        0 => { for k in [n - 2, n - 1, n / 2] { add(&mut ops, vec![pool[k].clone()], 0); } add(&mut ops, vec![], 0); add(&mut ops, vec![pool[1].clone()], 1); add(&mut ops, vec![pool[0].clone()], 1); ops.push(Op::Commit); }
        1 => { for k in [n - 1, n - 2, n / 2] { add(&mut ops, vec![pool[k].clone()], 0); } add(&mut ops, vec![], 0); add(&mut ops, vec![pool[0].clone()], 1); add(&mut ops, vec![pool[1].clone()], 1); ops.push(Op::Commit); }
        // the whole pool, ascending / descending / shuffled insertion order, duplicates of the extremes
        2 | 3 | 4 => {
            let mut idx: Vec<usize> = (0..n).chain([0, n - 1, n - 2, 1]).collect();
            if variant == 3 { idx.reverse(); }
            if variant == 4 { rng.shuffle(&mut idx); }
            for (j, k) in idx.iter().enumerate() {
                add(&mut ops, vec![pool[*k].clone()], (j % 2) as u64);
                if j == n / 2 { add(&mut ops, vec![], 0); ops.push(Op::Del(1)); }
            }
            ops.push(Op::Commit);
        }
        // random draws, two segments, merged
        _ => {
            for c in 0..2 {
                for _ in 0..rng.range(2, 9) {
                    let keys = if rng.chance(1, 7) { vec![] } else { vec![pool[rng.below(n as u64) as usize].clone()] };
                    add(&mut ops, keys, rng.below(2));
                    if rng.chance(1, 8) { ops.push(Op::Del(rng.below(2))); }
                }
                ops.push(Op::Commit);
                let _ = c;
            }
            ops.push(Op::Merge(vec![usize::MAX]));
        }
    }
    ops
}

/// Random history.  Merges are issued only right after a commit (no uncommitted operations in flight).
fn gen_history(rng: &mut Rng, kt: KT, thorough: bool, style: u64, multi: bool) -> Vec<Op> {
    let mut ops = vec![];
    let mut next_id = 0u64;
    let mut nsegs_upper = 0usize; // upper bound of live segments (model decides which survive)
    let ncommits = rng.range(1, if thorough { 5 } else { 4 });
    let ntags = rng.range(1, 4);
    for c in 0..ncommits {
        // value window of this transaction: disjoint windows (stackable), overlapping, or identical
        let (lo, hi) = match style % 3 { 0 => (c as i64 * 10, c as i64 * 10 + 6), 1 => (c as i64 * 4, c as i64 * 4 + 8), _ => (0, 5) };
        let (lo, hi) = if rng.chance(1, 2) { (lo, hi) } else { (-(hi), -(lo)) };
        let nd = match rng.below(6) { 0 => 1, 1 => 2, _ => rng.range(3, if thorough { 40 } else { 16 }) };
        let p_missing = match style / 3 % 3 { 0 => 0, 1 => 5, _ => 2 };
        for _ in 0..nd {
            let mut keys = if p_missing > 0 && rng.chance(1, p_missing) { vec![] } else { vec![gen_key(rng, kt, lo, hi)] };
            if multi && !keys.is_empty() && rng.chance(1, 4) { for _ in 0..rng.range(1, 2) { keys.push(gen_key(rng, kt, lo, hi)); } }
            ops.push(Op::Add(DocSpec { id: next_id, keys, tag: rng.below(ntags) }));
            next_id += 1;
            if rng.chance(1, 6) { ops.push(Op::Del(rng.below(ntags))); }
        }
        if rng.chance(1, 4) { ops.push(Op::Del(rng.below(ntags))); }
        ops.push(Op::Commit);
        nsegs_upper += 1;
        if nsegs_upper >= 2 && rng.chance(1, 3) {
            ops.push(Op::Merge(vec![usize::MAX])); // placeholder: resolved by `resolve_merges`
        }
    }
    if nsegs_upper >= 2 && rng.chance(2, 3) { ops.push(Op::Merge(vec![usize::MAX])); }
    ops
}

/// Number of live segments after each prefix, by the sequential meaning (mirrors spec_step).
fn resolve_merges(rng: &mut Rng, ops: &mut Vec<Op>) {
    // segs: per segment, list of (tag, alive)
    let mut segs: Vec<Vec<(u64, bool)>> = vec![];
    let mut pending: Vec<(u64, bool)> = vec![];
    let mut i = 0;
    while i < ops.len() {
        match &ops[i] {
            Op::Add(d) => pending.push((d.tag, true)),
            Op::Del(t) => { for s in segs.iter_mut() { for d in s.iter_mut() { if d.0 == *t { d.1 = false; } } } for d in pending.iter_mut() { if d.0 == *t { d.1 = false; } } }
            Op::Commit => { segs.push(std::mem::take(&mut pending)); segs.retain(|s| s.iter().any(|d| d.1)); }
            Op::Merge(_) => {
                if segs.len() < 2 { ops.remove(i); continue; }
                let k = if segs.len() == 2 || rng.chance(1, 2) { segs.len() } else { rng.range(2, segs.len() as u64) as usize };
                let mut idx: Vec<usize> = (0..segs.len()).collect();
                rng.shuffle(&mut idx);
                idx.truncate(k);
                let mut merged = vec![];
                for p in &idx { merged.extend(segs[*p].iter().filter(|d| d.1).cloned()); }
                let mut keep: Vec<Vec<(u64, bool)>> = segs.iter().enumerate().filter(|(j, _)| !idx.contains(j)).map(|(_, s)| s.clone()).collect();
                if merged.iter().any(|d| d.1) { keep.push(merged); }
                segs = keep;
                ops[i] = Op::Merge(idx);
            }
        }
        i += 1;
    }
}

fn history_stats(ops: &[Op]) -> (bool, bool, bool, bool) {
    // (duplicates, missing, same-transaction delete hitting an earlier doc, merge)
    let mut seen = vec![];
    let (mut dup, mut missing, mut del_in_tx, mut merge) = (false, false, false, false);
    let mut tx_tags: Vec<u64> = vec![];
    for op in ops {
        match op {
            Op::Add(d) => { if d.keys.is_empty() { missing = true } else if seen.contains(&d.keys[0]) { dup = true } else { seen.push(d.keys[0].clone()) } tx_tags.push(d.tag); }
            Op::Del(t) => if tx_tags.contains(t) { del_in_tx = true },
            Op::Commit => tx_tags.clear(),
            Op::Merge(_) => merge = true,
        }
    }
    (dup, missing, del_in_tx, merge)
}

fn run_and_emit(out: &mut CaseOut, kt: KT, sort: Option<bool>, ops: Vec<Op>, multi: bool, what: &str) {
    let (dup, missing, del_in_tx, merge) = history_stats(&ops);
    let desc_json = |extra: J| json!({"what": what, "field": kt.name(), "order": sort.map(|d| if d { "desc" } else { "asc" }), "ops": ops.len(), "multi_valued": multi, "extra": extra,
                                     "history": ops.iter().map(|o| format!("{:?}", o)).collect::<Vec<_>>()});
    let run = match guarded(|| run_history(kt, sort, &ops)) {
        Err(p) => { out.spec_checked(false, desc_json(json!({"panic": p}))); return; }
        Ok(Err(e)) => { out.spec_checked(false, desc_json(json!({"error": e}))); return; }
        Ok(Ok(r)) => r,
    };
    out.spec_checked(run.problems.is_empty(), desc_json(json!({"problems": run.problems})));
    let nontrivial = dup && missing && del_in_tx;
    let executed = run.f171.as_ref().map(|x| x.2).unwrap_or(ops.len());
    let h = cf::list(&ops[..executed].iter().zip(run.opstamps.iter()).collect::<Vec<_>>(), |(op, s)| op_term(op, **s));
    let obs = obs_term(&run.obs);
    let so = match sort { Some(d) => format!("(Some {})", order_term(d)), None => "None".into() };
    out.coq_case("spec", format!("spec_content {} {}", h, obs), desc_json(json!({"check": "live ids per segment = sequential meaning"})), nontrivial);
    // field norms of the three text fields and tf of the shared WithFreqs term, per document, against their definition by id
    let att: Vec<String> = run.obs.iter().flatten().map(|d| format!("({},{},{},{},{})", d.id, d.norm_body, d.norm_wf, d.norm_opt, d.tf_common)).collect();
    out.coq_case("spec", format!("spec_attached [{}]", att.join(";")), desc_json(json!({"check": "norms / tf attached to the right id"})), nontrivial);
    // unchanged semantics: the same history on an UNSORTED index must give, segment by segment and keyed by document id,
    // the same field norms for every normed field and the same postings (tf, positions) for every term of every field
    if sort.is_some() && run.f171.is_none() {
        match guarded(|| run_history(kt, None, &ops)) {
            Ok(Ok(reference)) => {
                let mut diff: Vec<String> = vec![];
                if reference.dump.len() != run.dump.len() { diff.push(format!("{} segments vs {} unsorted", run.dump.len(), reference.dump.len())); }
                for (i, (a, b)) in run.dump.iter().zip(reference.dump.iter()).enumerate() {
                    if a.norms != b.norms {
                        let bad: Vec<String> = a.norms.iter().filter(|(id, v)| b.norms.get(id) != Some(v)).take(4).map(|(id, v)| format!("id {id}: norms {v:?} vs unsorted {:?}", b.norms.get(id))).collect();
                        diff.push(format!("segment {i}: field norms differ: {bad:?}"));
                    }
                    if a.postings != b.postings {
                        let only_sorted: Vec<_> = a.postings.difference(&b.postings).take(4).map(|(f, t, id, tf, pos)| format!("field {f} term {:?} id {id} tf {tf} pos {pos:?}", String::from_utf8_lossy(t))).collect();
                        let only_unsorted: Vec<_> = b.postings.difference(&a.postings).take(4).map(|(f, t, id, tf, pos)| format!("field {f} term {:?} id {id} tf {tf} pos {pos:?}", String::from_utf8_lossy(t))).collect();
                        diff.push(format!("segment {i}: postings differ: only sorted {only_sorted:?}, only unsorted {only_unsorted:?}"));
                    }
                }
                out.spec_checked(diff.is_empty(), desc_json(json!({"check": "sorted vs unsorted reference (norms of every field, postings of every term, by document id)", "differences": diff})));
                out.count("reference_comparisons", 1);
            }
            other => out.spec_checked(false, desc_json(json!({"check": "unsorted reference run failed", "result": format!("{:?}", other.map(|r| r.map(|_| ())))}))),
        }
    }
    out.count("histories", 1);
    out.count(&format!("field_{}", kt.name()), 1);
    out.count("merges", run.merges);
    out.count("with_duplicates", dup as u64);
    out.count("with_missing", missing as u64);
    out.count("with_delete_in_transaction", del_in_tx as u64);
    out.count("with_merge", merge as u64);
    out.count("multi_valued_histories", multi as u64);
    out.count("docs", run.obs.iter().map(|s| s.len() as u64).sum());
    out.count("deleted_docs_in_final_segments", run.obs.iter().map(|s| s.iter().filter(|d| !d.alive).count() as u64).sum());
    if let Some((sources, result, _)) = &run.f171 {
        // the implementation misplaced a value-less document in a merge: known class F171 iff the Coq classifier accepts the sources
        let readers = cf::list(&sources.iter().enumerate().collect::<Vec<_>>(), |(i, sg)| format!("(R {} {} {})", cf::nat(*i),
            cf::list(sg, |d| cf::list(&d.keys, |k| match k { KV::Num(x) => format!("{}", x), KV::Bin(b) => format!("{}", b.len()) })),
            cf::list(sg, |d| cf::boolean(d.alive))));
        out.coq_case("known:F171", format!("has_f171 {}", readers),
                     desc_json(json!({"check": "merged segment not sorted", "sources": sources.iter().map(|s| format!("{:?}", s)).collect::<Vec<_>>(), "merged": format!("{:?}", result)})), true);
        out.count("f171_hits", 1);
        return;
    }
    // tie: the model replays the history (its segment_has_live_nulls follows the source shape through the pin
    // SORT_LIVE_NULLS_SCANS_MULTIVALUED, so histories with Multivalued sources are tied as well)
    if run.f171_class_merge { out.count("f171_class_histories_tied", 1); }
    out.coq_case("tie", format!("tie_replay {} {} {} {}", kt.coq(), so, h, obs), desc_json(json!({"segments": run.obs.len()})), nontrivial);
    if let Some(d) = sort {
        for sg in &run.obs {
            let live: Vec<String> = sg.iter().filter(|x| x.alive).map(|x| rawkey(&x.keys)).collect();
            out.coq_case("spec", format!("spec_sorted {} {} [{}]", kt.coq(), order_term(d), live.join(";")),
                         desc_json(json!({"check": "segment sorted", "segment": sg.iter().map(|x| format!("{:?}", x)).collect::<Vec<_>>()})), nontrivial && sg.len() >= 3);
        }
    }
}

fn main() {
    let args = Args::parse();
    tvh::quiet_panics();
    let mut rng = Rng::new(args.seed);
    let thorough = args.thorough();
    let mut out = CaseOut::new(&args.out, HEADER, 40);
    let kts = [KT::U64, KT::I64, KT::F64, KT::Date, KT::Str, KT::Bytes];

    // ---------------- (i) histories under every sort configuration; (ii) the same with multi-valued documents ----------------
    let per_cfg = if thorough { 60 } else { 11 };
    for multi in [false, true] {
        for kt in kts {
            for sort in [Some(false), Some(true), None] {
                let n = if multi { if sort.is_none() { 1 } else { per_cfg / 3 + 1 } } else if sort.is_none() { per_cfg / 4 + 1 } else { per_cfg };
                for i in 0..n {
                    let style = i as u64 + rng.below(9);
                    let mut ops = gen_history(&mut rng, kt, thorough, style, multi);
                    resolve_merges(&mut rng, &mut ops);
                    run_and_emit(&mut out, kt, sort, ops, multi, "history");
                }
            }
        }
    }

    // ---------------- (iii) boundary values of every key type inside one fresh segment, both insertion orders ----------------
    FINE_DATES.store(true, std::sync::atomic::Ordering::Relaxed);
    for kt in kts {
        for sort in [Some(false), Some(true)] {
            for variant in 0..(if thorough { 16 } else { 8 }) {
                let mut ops = gen_extreme_history(&mut rng, kt, variant);
                resolve_merges(&mut rng, &mut ops);
                run_and_emit(&mut out, kt, sort, ops, false, "extremes");
                out.count("extreme_histories", 1);
            }
        }
    }
    FINE_DATES.store(false, std::sync::atomic::Ordering::Relaxed);

    // ---------------- (iv) directed: stacking decision vs live value-less documents in segments with deletes ----------------
    for kt in kts {
        for sort in [Some(true), Some(false)] {
            let n = if !kt.numeric() { if thorough { 8 } else { 3 } } else if thorough { 72 } else { 18 };
            for i in 0..n {
                let shape = i as u64 * 2 + rng.below(2);
                let ops = gen_stack_candidate(&mut rng, kt, shape);
                run_and_emit(&mut out, kt, sort, ops, false, "stack-candidate");
                out.count("stack_candidate_histories", 1);
            }
        }
    }

    // ---------------- corpus: the F171 witness (findings/C17-multivalued-null-stack.md) ----------------
    for desc in [false, true] {
        let ops = vec![
            Op::Add(DocSpec { id: 0, keys: vec![KV::Num(5)], tag: 0 }), Op::Commit,
            Op::Add(DocSpec { id: 1, keys: vec![], tag: 0 }), Op::Add(DocSpec { id: 2, keys: vec![KV::Num(10), KV::Num(11)], tag: 1 }), Op::Commit,
            Op::Merge(vec![0, 1]),
        ];
        run_and_emit(&mut out, KT::U64, Some(desc), ops, true, "corpus-F171");
    }

    out.finish(json!({"tier": args.tier, "seed": args.seed}));
}
