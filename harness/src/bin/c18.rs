//! C18 correspondence: writer-lock lifecycles on Ram / Mmap / Verif directories vs the
//! guard model (coq/Storage/Locks.v `lrun`) and the one-line specification (`spec_run`).
use std::sync::{Arc, Barrier};

use serde_json::json;
use tantivy::directory::{MmapDirectory, RamDirectory};
use tantivy::indexer::IndexWriterOptions;
use tantivy::schema::{Schema, STORED, TEXT};
use tantivy::{doc, Index, IndexSettings, IndexWriter, TantivyDocument, TantivyError};
use tvh::out::CaseOut;
use tvh::rng::Rng;
use tvh::vdir::{OpKind, VerifDirectory};
use tvh::{guarded, Args};

const HEADER: &str = "From TV Require Import Base.Prelude Storage.Locks Storage.LockFile.";

#[derive(Clone, Debug)]
enum LOp {
    Create { w: u64, handle: usize, valid: u8, build_ok: bool },
    Rollback { w: u64, build_ok: bool },
    DropW { w: u64, wait: bool },
    WorkerFailure { w: u64 },
}

fn term(o: &LOp) -> String {
    match o {
        LOp::Create { w, valid, build_ok, .. } => format!("Create {w} {} {}", *valid == 0, build_ok),
        LOp::Rollback { w, build_ok } => format!("Rollback {w} {build_ok}"),
        LOp::DropW { w, .. } => format!("DropW {w}"),
        LOp::WorkerFailure { w } => format!("WorkerFailure {w}"),
    }
}

fn code_of<T>(r: &Result<tantivy::Result<T>, String>) -> u64 {
    match r {
        Ok(Ok(_)) => 0,
        Ok(Err(TantivyError::LockFailure(..))) => 1,
        Ok(Err(TantivyError::InvalidArgument(_))) => 2,
        Ok(Err(_)) => 3,
        Err(p) if p.contains("does not have any lock") => 5,
        Err(_) => 9,
    }
}

fn main() {
    let args = Args::parse();
    tvh::quiet_panics();
    let mut rng = Rng::new(args.seed);
    let thorough = args.thorough();
    let mut out = CaseOut::new(&args.out, HEADER, 40);
    let n = if thorough { 1500 } else { 240 };
    let mut sb = Schema::builder();
    let text = sb.add_text_field("t", TEXT | STORED);
    let schema = sb.build();
    for it in 0..n {
        let kind = it % 3; // 0 ram, 1 verif, 2 mmap
        let vd = VerifDirectory::new();
        let tmp = tempfile::tempdir().unwrap();
        let index = match kind {
            0 => Index::create(RamDirectory::create(), schema.clone(), IndexSettings::default()).unwrap(),
            1 => Index::create(vd.clone(), schema.clone(), IndexSettings::default()).unwrap(),
            _ => Index::create(MmapDirectory::open(tmp.path()).unwrap(), schema.clone(), IndexSettings::default()).unwrap(),
        };
        let second = match kind {
            0 => index.clone(),
            1 => Index::open(vd.clone()).unwrap(),
            _ => Index::open(MmapDirectory::open(tmp.path()).unwrap()).unwrap(),
        };
        let mut handles = vec![index.clone(), second];
        let mut live: Vec<(u64, IndexWriter<TantivyDocument>)> = vec![];
        let mut ops: Vec<LOp> = vec![];
        let mut codes: Vec<u64> = vec![];
        let mut next_w = 1u64;
        let mut max_live = 0usize;
        let len = rng.range(3, 14);
        let mut forced: std::collections::VecDeque<u64> = Default::default();
        for _ in 0..len {
            // now and then another handle on the same directory is opened while the history runs (opening a handle must not
            // touch the writer lock); later creations pick any handle
            if rng.chance(1, 6) && handles.len() < 5 {
                let h = match kind {
                    0 => Some(index.clone()),
                    1 => guarded(|| Index::open(vd.clone())).ok().and_then(|r| r.ok()),
                    _ => guarded(|| Index::open(MmapDirectory::open(tmp.path()).unwrap())).ok().and_then(|r| r.ok()),
                };
                if let Some(h) = h { handles.push(h); out.count("handles_opened_mid_history", 1); }
            }
            let r = forced.pop_front().unwrap_or_else(|| rng.below(100));
            if live.is_empty() || r < 45 {
                let valid = if rng.chance(1, 5) { 1 + rng.below(2) as u8 } else { 0 };
                let build_ok = !(kind == 1 && rng.chance(1, 6));
                let handle = rng.below(handles.len() as u64) as usize;
                let w = next_w;
                next_w += 1;
                if !build_ok { vd.set_fault(Some(vd.log_len()), true, vec![OpKind::AtomicRead]); }
                let res = guarded(|| {
                    let opts = match valid {
                        0 => IndexWriterOptions::builder().num_worker_threads(1).memory_budget_per_thread(15_000_000).build(),
                        1 => IndexWriterOptions::builder().num_worker_threads(1).memory_budget_per_thread(1000).build(),
                        _ => IndexWriterOptions::builder().num_worker_threads(0).memory_budget_per_thread(15_000_000).build(),
                    };
                    handles[handle].writer_with_options::<TantivyDocument>(opts)
                });
                vd.set_fault(None, false, vec![]);
                codes.push(code_of(&res));
                ops.push(LOp::Create { w, handle, valid, build_ok });
                if let Ok(Ok(wr)) = res { live.push((w, wr)); }
            } else {
                let i = rng.below(live.len() as u64) as usize;
                let w = live[i].0;
                if r < 65 {
                    let build_ok = !(kind == 1 && rng.chance(1, 4));
                    if !build_ok { vd.set_fault(Some(vd.log_len()), true, vec![OpKind::AtomicRead]); }
                    let res = guarded(|| live[i].1.rollback());
                    vd.set_fault(None, false, vec![]);
                    codes.push(code_of(&res));
                    ops.push(LOp::Rollback { w, build_ok });
                } else if r < 90 {
                    let wait = rng.chance(1, 2);
                    let (_, wr) = live.remove(i);
                    let res = guarded(|| if wait { wr.wait_merging_threads() } else { drop(wr); Ok(()) });
                    // wait_merging_threads() of a writer whose worker was killed reports that worker's error: the lock
                    // specification is about the lock (released either way), so only a panic counts here
                    codes.push(if res.is_err() { 9 } else { 0 });
                    ops.push(LOp::DropW { w, wait });
                } else {
                    // kill the writer's pipeline with a storage fault; the object stays alive.  Two ways: the worker dies inside
                    // a commit (prepare_commit re-creates the pipeline), or while it is just indexing -- then the writer's
                    // status stays 'killed' until the next rollback, which must still hand the lock over
                    if kind == 1 {
                        vd.set_fault(Some(vd.log_len()), true, vec![OpKind::Create, OpKind::Write, OpKind::Terminate]);
                        if rng.chance(1, 2) {
                            let _ = guarded(|| { let _ = live[i].1.add_document(doc!(text => "x")); live[i].1.commit() });
                        } else {
                            let t0 = std::time::Instant::now();
                            while t0.elapsed() < std::time::Duration::from_secs(3) {
                                match guarded(|| live[i].1.add_document(doc!(text => "x"))) { Ok(Ok(_)) => std::thread::sleep(std::time::Duration::from_millis(3)), _ => break }
                            }
                            out.count("workers_killed_while_indexing", 1);
                        }
                        vd.set_fault(None, false, vec![]);
                        // directed follow-up: roll the killed writer back, then try to create another one
                        if rng.chance(2, 3) { forced.push_back(50); forced.push_back(10); }
                    }
                    codes.push(0);
                    ops.push(LOp::WorkerFailure { w });
                }
            }
            max_live = max_live.max(live.len());
        }
        drop(live);
        let ops_t = tvh::coqfmt::list(&ops, term);
        let codes_t = tvh::coqfmt::ns(&codes);
        let dirname = ["ram", "verif", "mmap"][kind];
        let desc = json!({"dir": dirname, "ops": ops.iter().map(|o| format!("{o:?}")).collect::<Vec<_>>(), "codes": codes});
        let f7 = ops.iter().any(|o| matches!(o, LOp::Rollback { build_ok: false, .. }));
        let nontrivial = ops.len() >= 4 && ops.iter().any(|o| matches!(o, LOp::DropW { .. })) && codes.iter().any(|c| *c == 1);
        out.coq_case("tie", format!("list_eqb N.eqb (codes (snd (lrun linit {ops_t}))) {codes_t}"), desc.clone(), nontrivial);
        out.coq_case("spec", format!("list_eqb N.eqb (codes (spec_run None {ops_t})) {codes_t}"), desc.clone(), nontrivial);
        out.spec_checked(max_live <= 1, json!({"what": "two IndexWriters alive at the same time", "failing_rollback_rebuild_in_history": f7, "case": desc}));
        if f7 { out.count("lifecycles_with_failing_rollback_rebuild", 1); }
        out.count("lifecycles", 1);
        out.count(["dir_ram", "dir_verif", "dir_mmap"][kind], 1);
    }
    // the lock-file protocol itself (Directory::acquire_lock's default implementation, on the harness directory):
    // acquisition attempts with injected I/O faults at the creation / the flush of the lock file, and guard drops
    {
        use tantivy::directory::{Directory, DirectoryLock, Lock, INDEX_WRITER_LOCK};
        use tantivy::directory::error::LockError;
        let n_seq = if thorough { 600 } else { 120 };
        for _ in 0..n_seq {
            let vd = VerifDirectory::new();
            let lock: &Lock = &INDEX_WRITER_LOCK;
            let mut guards: Vec<(u64, DirectoryLock)> = vec![];
            let mut terms: Vec<String> = vec![];
            let mut codes: Vec<u64> = vec![];
            let mut next_g = 1u64;
            let len = rng.range(2, 12);
            for _ in 0..len {
                if guards.is_empty() || rng.chance(3, 5) {
                    let g = next_g; next_g += 1;
                    // faults only make sense when the lock is free (a held lock refuses before any I/O of its own)
                    let (cf, ff) = if guards.is_empty() { match rng.below(5) { 0 => (true, false), 1 | 2 => (false, true), _ => (false, false) } } else { (false, false) };
                    if cf { vd.set_fault(Some(vd.log_len()), true, vec![OpKind::Create]); }
                    if ff { vd.set_fault(Some(vd.log_len()), true, vec![OpKind::Flush]); }
                    let r = guarded(|| vd.acquire_lock(lock));
                    vd.set_fault(None, false, vec![]);
                    let code = match r { Ok(Ok(gd)) => { guards.push((g, gd)); 0 } Ok(Err(LockError::LockBusy)) => 1, Ok(Err(LockError::IoError(_))) => 3, Err(_) => 9 };
                    terms.push(format!("Acq {g} {cf} {ff}"));
                    codes.push(code);
                } else {
                    let i = rng.below(guards.len() as u64) as usize;
                    let (g, gd) = guards.remove(i);
                    drop(gd);
                    terms.push(format!("Rel {g}"));
                    codes.push(0);
                }
            }
            let exists_now = vd.raw(&lock.filepath.to_string_lossy()).is_some();
            let ops_t = format!("[{}]", terms.join("; "));
            let codes_t = tvh::coqfmt::ns(&codes);
            let desc = json!({"ops": terms, "codes": codes, "lock_file_exists_at_end": exists_now, "guards_alive_at_end": guards.len()});
            let nontrivial = terms.iter().any(|t| t.ends_with("true")) && codes.iter().any(|c| *c == 1);
            out.coq_case("tie", format!("let r := lfrun lf0 {ops_t} in list_eqb N.eqb (lfcodes (snd r)) {codes_t} && Bool.eqb (lf_exists (fst r)) {exists_now}"), json!({"what": "lock-file protocol: model vs Directory::acquire_lock", "case": desc}), nontrivial);
            out.coq_case("spec", format!("list_eqb N.eqb (lfcodes (lfspec_run None {ops_t})) {codes_t}"), json!({"what": "lock-file protocol: who holds the lock (an attempt on a free lock succeeds unless ITS OWN I/O fails; a failed attempt changes nothing)", "case": desc}), nontrivial);
            out.spec_checked(guards.len() <= 1, json!({"what": "two guards of the same lock alive at the same time", "case": desc}));
            out.spec_checked(exists_now == !guards.is_empty(), json!({"what": "lock file exists without a guard / guard without its lock file", "case": desc}));
            drop(guards);
            out.count("lock_file_sequences", 1);
        }
    }
    // a second writer while the first one is still inside wait_merging_threads(): the lock follows the writer's lifetime,
    // and a writer that is waiting for its merges is alive (it will still publish their result)
    for it in 0..(if thorough { 40 } else { 8 }) {
        let vd = VerifDirectory::new();
        let index = Index::create(vd.clone(), schema.clone(), IndexSettings::default()).unwrap();
        let mut w: IndexWriter<TantivyDocument> = index.writer_with_num_threads(1, 15_000_000).unwrap();
        w.set_merge_policy(Box::new(tantivy::indexer::NoMergePolicy));
        for c in 0..(2 + it % 3) { for d in 0..5 { w.add_document(doc!(text => format!("w{c} x{d}"))).unwrap(); } w.commit().unwrap(); }
        let ids = index.searchable_segment_ids().unwrap();
        // slow the merge thread down inside its file writes
        vd.set_hook(Some(Arc::new(move |_vd, _seq, kind, _path| {
            if std::thread::current().name().map(|n| n.starts_with("merge_thread")).unwrap_or(false) && matches!(kind, OpKind::Create | OpKind::Terminate) { std::thread::sleep(std::time::Duration::from_millis(40)); }
        })));
        let _merge_future = w.merge(&ids);
        let done = Arc::new(std::sync::atomic::AtomicBool::new(false));
        let done2 = done.clone();
        let waiter = std::thread::spawn(move || { let r = w.wait_merging_threads(); done2.store(true, std::sync::atomic::Ordering::SeqCst); r });
        let mut attempts = 0u64;
        let mut intruders = 0u64;
        while !done.load(std::sync::atomic::Ordering::SeqCst) && attempts < 400 {
            let r = guarded(|| index.writer_with_num_threads::<TantivyDocument>(1, 15_000_000));
            let still_waiting = !done.load(std::sync::atomic::Ordering::SeqCst);
            if still_waiting {
                attempts += 1;
                if matches!(r, Ok(Ok(_))) {
                    // the waiter sets `done` only AFTER wait_merging_threads() returned (and released the lock): a success
                    // in that instant is legitimate.  It is an intruder only if the first writer is STILL waiting for its
                    // (slowed-down) merge a good while later.
                    std::thread::sleep(std::time::Duration::from_millis(30));
                    if !done.load(std::sync::atomic::Ordering::SeqCst) { intruders += 1; }
                }
            }
            drop(r);
            std::thread::sleep(std::time::Duration::from_millis(2));
        }
        let _ = waiter.join();
        vd.set_hook(None);
        out.spec_checked(intruders == 0, json!({"what": "a second IndexWriter was created while the first one was still inside wait_merging_threads() (its merge was still running)", "attempts_while_waiting": attempts, "succeeded": intruders}));
        let again = guarded(|| index.writer_with_num_threads::<TantivyDocument>(1, 15_000_000));
        out.spec_checked(matches!(again, Ok(Ok(_))), json!({"what": "lock not released after wait_merging_threads returned"}));
        out.count("wait_merging_threads_races", 1);
        out.count("creation_attempts_during_wait", attempts);
    }
    // churn: several threads, each with its own Index handle, keep creating, holding and dropping writers -- releases race
    // with creation attempts; never two writers alive
    for it in 0..(if thorough { 12 } else { 3 }) {
        let tmp = tempfile::tempdir().unwrap();
        let use_mmap = it % 3 != 2;
        let index = if use_mmap { Index::create(MmapDirectory::open(tmp.path()).unwrap(), schema.clone(), IndexSettings::default()).unwrap() }
                    else { Index::create(RamDirectory::create(), schema.clone(), IndexSettings::default()).unwrap() };
        let live = Arc::new(std::sync::atomic::AtomicUsize::new(0));
        let max_live = Arc::new(std::sync::atomic::AtomicUsize::new(0));
        let created = Arc::new(std::sync::atomic::AtomicUsize::new(0));
        let mut hs = vec![];
        for t in 0..6u64 {
            let ix = if use_mmap { Index::open(MmapDirectory::open(tmp.path()).unwrap()).unwrap() } else { index.clone() };
            let (live, max_live, created) = (live.clone(), max_live.clone(), created.clone());
            hs.push(std::thread::spawn(move || {
                let deadline = std::time::Instant::now() + std::time::Duration::from_millis(700);
                let mut k = t;
                while std::time::Instant::now() < deadline {
                    if let Ok(w) = ix.writer_with_num_threads::<TantivyDocument>(1, 15_000_000) {
                        let n = live.fetch_add(1, std::sync::atomic::Ordering::SeqCst) + 1;
                        max_live.fetch_max(n, std::sync::atomic::Ordering::SeqCst);
                        created.fetch_add(1, std::sync::atomic::Ordering::SeqCst);
                        k = k.wrapping_mul(6364136223846793005).wrapping_add(1442695040888963407);
                        if k % 3 == 0 { std::thread::sleep(std::time::Duration::from_micros(200)); }
                        live.fetch_sub(1, std::sync::atomic::Ordering::SeqCst);
                        drop(w);
                    }
                }
            }));
        }
        for h in hs { let _ = h.join(); }
        let (ml, cr) = (max_live.load(std::sync::atomic::Ordering::SeqCst), created.load(std::sync::atomic::Ordering::SeqCst));
        out.spec_checked(ml <= 1, json!({"what": "two IndexWriters alive at the same time while 6 threads create / hold / drop writers on the same directory", "dir": if use_mmap { "mmap" } else { "ram" }, "max_simultaneously_alive": ml, "writers_created": cr}));
        let again = guarded(|| index.writer_with_num_threads::<TantivyDocument>(1, 15_000_000));
        out.spec_checked(matches!(again, Ok(Ok(_))), json!({"what": "lock not free after the churn ended", "dir": if use_mmap { "mmap" } else { "ram" }}));
        out.count("churn_runs", 1);
        out.count("writers_created_in_churn", cr as u64);
    }
    // racing creations: exactly one winner, the others get a lock failure, and the lock is free again afterwards
    let races = if thorough { 3000 } else { 800 };
    for it in 0..races {
        let tmp = tempfile::tempdir().unwrap();
        let index = if it % 4 != 3 { Index::create(RamDirectory::create(), schema.clone(), IndexSettings::default()).unwrap() }
                    else { Index::create(MmapDirectory::open(tmp.path()).unwrap(), schema.clone(), IndexSettings::default()).unwrap() };
        let nthreads = 2 + (it % 7);
        // a spinning barrier: all threads leave it within a few hundred nanoseconds of each other
        let ready = Arc::new(std::sync::atomic::AtomicUsize::new(0));
        let _ = Barrier::new(1);
        let mut hs = vec![];
        for _ in 0..nthreads {
            let ix = index.clone();
            let b = ready.clone();
            hs.push(std::thread::spawn(move || {
                b.fetch_add(1, std::sync::atomic::Ordering::SeqCst);
                while b.load(std::sync::atomic::Ordering::SeqCst) < nthreads { std::hint::spin_loop(); }
                ix.writer_with_num_threads::<TantivyDocument>(1, 15_000_000)
            }));
        }
        let results: Vec<_> = hs.into_iter().map(|h| h.join()).collect();
        let oks = results.iter().filter(|r| matches!(r, Ok(Ok(_)))).count();
        let busy = results.iter().filter(|r| matches!(r, Ok(Err(TantivyError::LockFailure(..))))).count();
        out.spec_checked(oks == 1 && busy == nthreads - 1, json!({"what": "racing Index::writer calls: not exactly one winner", "threads": nthreads, "ok": oks, "lock_failures": busy}));
        drop(results);
        let again = guarded(|| index.writer_with_num_threads::<TantivyDocument>(1, 15_000_000));
        out.spec_checked(matches!(again, Ok(Ok(_))), json!({"what": "lock not released after the racing winner was dropped", "threads": nthreads}));
        out.count("races", 1);
    }
    out.finish(json!({"tier": args.tier, "seed": args.seed}));
}
