//! C11 correspondence: an I/O error injected at every storage-operation index of a workload
//! (once or permanently from there on); the trace of the successful operations must still pass
//! the proved commit discipline, errors must surface, and the last successful commit must stay
//! intact and usable by a new writer.
use std::collections::BTreeSet;
use std::sync::mpsc;
use std::time::Duration;

use serde_json::json;
use tvh::e1::{self, Cfg, Op, PathIds};
use tvh::out::CaseOut;
use tvh::rng::Rng;
use tvh::vdir::{OpKind, VerifDirectory};
use tvh::Args;

const HEADER: &str = "From TV Require Import Base.Prelude Storage.Crash Storage.Faults Storage.Pipeline.";

struct Outcome {
    commits: Vec<BTreeSet<u64>>,
    attempted: Vec<BTreeSet<u64>>,
    api_errs: Vec<(usize, &'static str, String)>,
    /// API calls that failed AFTER the writer had been recovered from the first failure
    late_errs: Vec<(usize, &'static str, String)>,
    panicked: Option<String>,
    committed: BTreeSet<u64>,
}

fn main() {
    let args = Args::parse();
    tvh::quiet_panics();
    let mut rng = Rng::new(args.seed);
    let thorough = args.thorough();
    let mut out = CaseOut::new(&args.out, HEADER, 8);
    let n_work = if thorough { 8 } else { 3 };
    let mut next_id = 0u64;
    let mut coq_budget: i64 = if thorough { 600 } else { 90 };
    // replay filter: C11_ONLY="<workload>,<k>"
    let only: Option<(usize, usize)> = std::env::var("C11_ONLY").ok().and_then(|v| { let mut it = v.split(','); Some((it.next()?.parse().ok()?, it.next()?.parse().ok()?)) });
    for wl in 0..n_work {
        let len = rng.range(5, 14) as usize;
        let ops = e1::gen_history(&mut rng, len, &mut next_id);
        let cfg = Cfg { threads: 1 + (wl % 2), merge_policy: (wl % 2) as u8, stop_on_error: false, replay_failed_commit: false };
        // dry run: number of storage operations
        let dry = VerifDirectory::new();
        let _ = e1::run_history(&dry, &ops, &cfg, false);
        let n_ops = dry.log().iter().filter(|e| e.kind != OpKind::Marker).count();
        let total = dry.log_len();
        let hist = json!({"history": ops.iter().map(|o| o.to_json()).collect::<Vec<_>>(), "threads": cfg.threads, "merge_policy": cfg.merge_policy, "storage_ops_fault_free": n_ops});
        let ks: Vec<usize> = if thorough || total <= 70 { (0..total).collect() } else {
            let mut v: BTreeSet<usize> = (0..total).step_by(total / 24 + 1).collect();
            // every replace of meta.json / .managed.json and every directory sync of the fault-free run
            for e in dry.log().iter().filter(|e| matches!(e.kind, OpKind::AtomicWrite | OpKind::SyncDir)) { if rng.chance(2, 3) { v.insert(e.seq); } }
            for _ in 0..12 { v.insert(rng.below(total as u64) as usize); }
            v.into_iter().collect()
        };
        let ks: Vec<usize> = match only { Some((ow, ok)) if ow == wl => vec![ok], Some(_) => vec![], None => ks };
        if only.map(|o| o.0 == wl).unwrap_or(false) { eprintln!("workload {wl}: {}", hist); }
        for k in ks {
            for permanent in [false, true] {
                let rollback = (k + permanent as usize) % 2 == 0;
                if let Some((ow, ok)) = only { if ow != wl || ok != k { continue; } }
                let desc = json!({"workload_index": wl, "fault_at_storage_op": k, "permanent": permanent, "recover_by_rollback": rollback, "workload": hist});
                out.count("fault_runs", 1);
                let mut attempt = 0;
                let (vd, o) = loop {
                    let vd = VerifDirectory::new();
                    vd.set_fault(Some(k), permanent, vec![]);
                    let (tx, rx) = mpsc::channel();
                    let (vd2, ops2, mut cfg2) = (vd.clone(), ops.clone(), cfg.clone());
                    cfg2.stop_on_error = permanent;
                    // a transient fault: the application retries the batch whose commit failed
                    cfg2.replay_failed_commit = !permanent;
                    std::thread::Builder::new().name("main".into()).spawn(move || {
                        let res = e1::run_history(&vd2, &ops2, &cfg2, rollback);
                        let recovered_at = vd2.log().iter().find(|e| e.kind == OpKind::Marker && e.path == "recovered").map(|e| e.seq);
                        let o = Outcome {
                            late_errs: match recovered_at { Some(r) => res.api.iter().filter(|a| !a.ok && a.log_seq > r + 1 && a.what != "merge").map(|a| (a.op_index, a.what, a.err.clone())).collect(), None => vec![] },
                            commits: res.commits.iter().map(|c| c.content.clone()).collect(),
                            attempted: res.attempted.iter().map(|a| a.1.clone()).collect(),
                            api_errs: res.api.iter().filter(|a| !a.ok).map(|a| (a.op_index, a.what, a.err.clone())).collect(),
                            panicked: res.panicked.clone(),
                            committed: res.committed.clone(),
                        };
                        drop(res);
                        let _ = tx.send(o);
                    }).unwrap();
                    match rx.recv_timeout(Duration::from_secs(90)) {
                        Ok(o) => break (vd, Some(o)),
                        Err(_) if attempt == 0 => { attempt += 1; out.count("timeouts_first_attempt", 1); continue; }
                        Err(_) => break (vd, None),
                    }
                };
                let o = match o {
                    Some(o) => o,
                    // a hang is reported only when the same fault position hangs twice in a row (a loaded machine is not a hang)
                    None => { out.spec_checked(false, json!({"what": "workload hangs after an injected I/O error (twice in a row, 90 s each)", "case": desc})); continue; }
                };
                vd.set_fault(None, false, vec![]);
                if let Some(p) = &o.panicked {
                    out.spec_checked(false, json!({"what": "panic after an injected I/O error", "panic": p, "case": desc}));
                    continue;
                }
                let log = vd.log();
                let failed: Vec<_> = log.iter().filter(|e| e.result == "Io").collect();
                if failed.is_empty() { out.count("fault_not_reached", 1); continue; }
                out.count("fault_fired", 1);
                out.count(&format!("failed_{}", failed[0].kind.name()), 1);
                let tclass = |t: &str| if t.starts_with("merge_thread") { "merge" } else if t.starts_with("thrd-tantivy-index") { "worker" } else if t == "segment_updater" { "updater" } else if t.starts_with("docstore") { "compressor" } else { "caller" };
                out.count(&format!("thread_{}", tclass(&failed[0].thread)), 1);
                // (1) errors surface: a failed operation on the caller's or an indexing worker's thread
                //     (other than a delete, which GC tolerates and lists) makes some API call return Err
                // (a failure inside an indexing worker whose documents are later rolled back or dropped with the
                //  writer need not surface; silent loss of committed documents is caught by the content check below)
                let critical = failed.iter().any(|e| tclass(&e.thread) == "caller" && e.kind != OpKind::Delete);
                if critical {
                    out.spec_checked(!o.api_errs.is_empty(), json!({"what": "I/O error on the caller's / indexing path was silently swallowed (no API call returned Err)", "failed_op": format!("{:?} {} on {}", failed[0].kind, failed[0].path, failed[0].thread), "case": desc}));
                }
                // (1b) one transient fault = one failure: once the failed writer was rolled back / dropped and replaced,
                //      every later call succeeds (the batch whose commit failed is issued again)
                if !permanent && failed.len() == 1 && !o.late_errs.is_empty() {
                    // known class F111: the retried commit collides with a delete file (<segment>.<opstamp>.del) that the FAILED
                    // commit attempt had already created -- opstamps are re-used after a rollback / by a new writer, and only a
                    // garbage collection (which runs after a successful commit) removes the leftover
                    let recovered_at = log.iter().find(|e| e.kind == OpKind::Marker && e.path == "recovered").map(|e| e.seq).unwrap_or(0);
                    let last_ret = log.iter().filter(|e| e.seq < recovered_at && e.kind == OpKind::Marker && e.path.starts_with("commit_ret")).map(|e| e.seq).last().unwrap_or(0);
                    let leftovers: Vec<String> = log.iter().filter(|e| e.seq > last_ret && e.seq < recovered_at && e.kind == OpKind::Create && e.result == "Ok" && e.path.ends_with(".del")).map(|e| e.path.clone()).collect();
                    let collided: Vec<Option<String>> = o.late_errs.iter().map(|(_, w, e)| {
                        if *w != "commit" && *w != "rollback_after_error" { return None; }
                        let i = e.find("FileAlreadyExists(\"")?;
                        let rest = &e[i + 19..];
                        let j = rest.find('"')?;
                        Some(rest[..j].to_string())
                    }).collect();
                    let d111 = json!({"what": "after recovering from ONE transient I/O error a retried commit failed: it collides with a delete file left behind by the failed commit attempt", "late_errors": o.late_errs.iter().map(|(i, w, e)| format!("op{i} {w}: {e}")).collect::<Vec<_>>(), "leftover_delete_files_of_failed_attempt": leftovers, "failed_op": format!("#{} {:?} {} on {}", failed[0].seq, failed[0].kind, failed[0].path, failed[0].thread), "case": desc});
                    if collided.iter().all(|c| c.is_some()) {
                        let mut ids = PathIds::new();
                        let left_ids: Vec<u64> = leftovers.iter().map(|p| ids.id(p)).collect();
                        let coll_ids: Vec<u64> = collided.iter().map(|c| ids.id(c.as_ref().unwrap())).collect();
                        out.coq_case("known:F111", format!("f111_class {} {}", tvh::coqfmt::ns(&left_ids), tvh::coqfmt::ns(&coll_ids)), d111, true);
                        continue;
                    }
                }
                if !permanent && failed.len() == 1 {
                    out.spec_checked(o.late_errs.is_empty(), json!({"what": "after recovering from ONE transient I/O error (rollback or new writer) a later call failed although nothing else was injected", "late_errors": o.late_errs.iter().map(|(i, w, e)| format!("op{i} {w}: {e}")).collect::<Vec<_>>(), "failed_op": format!("#{} {:?} {} on {}", failed[0].seq, failed[0].kind, failed[0].path, failed[0].thread), "case": desc}));
                }
                // (2) the trace of successful operations passes the proved discipline (=> every Ok commit
                //     is complete and durable, the last commit's files are never deleted)
                if coq_budget > 0 && (k % 3 == 0 || thorough) {
                    coq_budget -= 1;
                    let mut ids = PathIds::new();
                    let (evs, _) = e1::to_events(&log, &mut ids);
                    out.coq_case("tie", format!("monitor {}", e1::trace_term(&evs)), json!({"what": "commit discipline on a trace with an injected fault", "events": evs.len(), "case": desc}), o.commits.len() >= 1);
                }
                // (3) storage afterwards: openable, checksums clean, content = last Ok commit (or a commit
                //     that failed after publishing), and a new writer continues
                let rec = e1::recover(&vd.files().into_iter().filter(|(n, _)| !n.starts_with(".tantivy-")).collect());
                let mut allowed: Vec<BTreeSet<u64>> = vec![o.committed.clone()];
                allowed.extend(o.attempted.iter().cloned());
                if !rec.opened {
                    // only acceptable when the index was never created successfully
                    let created = log.iter().any(|e| e.kind == OpKind::Marker && e.path == "created");
                    out.spec_checked(!created, json!({"what": "index cannot be re-opened after an I/O error", "err": rec.error, "case": desc}));
                    continue;
                }
                out.spec_checked(rec.checksum_clean, json!({"what": "damaged file referenced after an I/O error", "err": rec.error, "case": desc}));
                match &rec.ids {
                    Some(ids) => out.spec_checked(allowed.iter().any(|a| a == ids), json!({"what": "content after an I/O error is not the last successful commit", "got": ids, "last_commit": o.committed, "attempted": o.attempted, "api_errors": o.api_errs.iter().map(|(i, w, e)| format!("op{i} {w}: {e}")).collect::<Vec<_>>(), "failed_ops": failed.iter().map(|e| format!("#{} {:?} {} on {}", e.seq, e.kind, e.path, e.thread)).collect::<Vec<_>>(), "case": desc})),
                    None => out.spec_checked(false, json!({"what": "index cannot be searched after an I/O error", "err": rec.error, "case": desc})),
                }
                out.spec_checked(rec.resumed, json!({"what": "a new writer cannot continue after an I/O error", "err": rec.resume_error, "case": desc}));
            }
        }
        out.count("workloads", 1);
    }
    // directed: the retried batch after a commit that failed AFTER it wrote its delete files (class F111)
    for rollback in [true, false] {
        let vd = VerifDirectory::new();
        let cfg = Cfg { threads: 1, merge_policy: 0, stop_on_error: false, replay_failed_commit: true };
        let part1 = vec![Op::Add { id: 900_001, tag: 0, nwords: 2 }, Op::Add { id: 900_002, tag: 1, nwords: 2 }, Op::Commit];
        let part2 = vec![Op::DelTerm(0), Op::Commit];
        let r1 = e1::run_history(&vd, &part1, &cfg, rollback);
        let Some(index) = r1.index.clone() else { continue };
        drop(r1);
        vd.set_fault_once(OpKind::AtomicWrite, "meta.json");
        let r2 = e1::run_history_on(&vd, Some(index), &part2, &cfg, rollback);
        let log = vd.log();
        let desc = json!({"directed": "commit, then a deletes-only commit whose meta.json replace fails once; recover; issue the batch again", "recover_by_rollback": rollback});
        out.count("fault_runs", 1);
        let failed: Vec<_> = log.iter().filter(|e| e.result == "Io").collect();
        if failed.len() != 1 || r2.panicked.is_some() { out.spec_checked(false, json!({"what": "directed F111 scenario did not run as scripted (one injected fault, no panic)", "faults": failed.len(), "panic": r2.panicked, "case": desc})); continue; }
        let recovered_at = log.iter().find(|e| e.kind == OpKind::Marker && e.path == "recovered").map(|e| e.seq).unwrap_or(usize::MAX);
        let late: Vec<&e1::ApiObs> = r2.api.iter().filter(|a| !a.ok && a.log_seq > recovered_at.saturating_add(1) && a.what != "merge").collect();
        if late.is_empty() { out.spec_checked(true, json!({})); continue; }
        let last_ret = log.iter().filter(|e| e.seq < recovered_at && e.kind == OpKind::Marker && e.path.starts_with("commit_ret")).map(|e| e.seq).last().unwrap_or(0);
        let leftovers: Vec<String> = log.iter().filter(|e| e.seq > last_ret && e.seq < recovered_at && e.kind == OpKind::Create && e.result == "Ok" && e.path.ends_with(".del")).map(|e| e.path.clone()).collect();
        let collided: Vec<Option<String>> = late.iter().map(|a| { let i = a.err.find("FileAlreadyExists(\"")?; let rest = &a.err[i + 19..]; let j = rest.find('"')?; Some(rest[..j].to_string()) }).collect();
        let d111 = json!({"what": "after recovering from ONE transient I/O error a retried commit failed: it collides with a delete file left behind by the failed commit attempt", "late_errors": late.iter().map(|a| format!("op{} {}: {}", a.op_index, a.what, a.err)).collect::<Vec<_>>(), "leftover_delete_files_of_failed_attempt": leftovers, "case": desc});
        if collided.iter().all(|c| c.is_some()) {
            let mut ids = PathIds::new();
            let left_ids: Vec<u64> = leftovers.iter().map(|p| ids.id(p)).collect();
            let coll_ids: Vec<u64> = collided.iter().map(|c| ids.id(c.as_ref().unwrap())).collect();
            out.coq_case("known:F111", format!("f111_class {} {}", tvh::coqfmt::ns(&left_ids), tvh::coqfmt::ns(&coll_ids)), d111, true);
        } else {
            out.spec_checked(false, d111);
        }
    }
    // directed: the replace of meta.json fails (end of a merge / commit that empties a segment), then the same writer collects
    for variant in ["merge", "commit"] {
        let m = e1::meta_write_failure_then_gc(variant);
        for (ok, d) in e1::meta_failure_verdicts(&m) { out.spec_checked(ok, d); }
        let mut pids = PathIds::new();
        let (evs, _) = e1::to_events(&m.log, &mut pids);
        out.coq_case("tie", format!("monitor {}", e1::trace_term(&evs)), json!({"what": "commit/GC discipline on the trace of the directed meta.json-failure scenario", "variant": variant, "events": evs.len()}), true);
        out.count("directed_meta_failure_scenarios", 1);
    }
    // directed: ONE failing open of a segment file while an IndexReader reloads -- reload() reports it, or the searcher it installs works
    for (i, suffix) in [".pos", ".term", ".idx", ".fast", ".store", ".fieldnorm"].iter().enumerate() {
        use tantivy::collector::Count;
        use tantivy::query::TermQuery;
        use tantivy::schema::IndexRecordOption;
        use tantivy::{doc, Index, IndexSettings, IndexWriter, ReloadPolicy, TantivyDocument, Term};
        let vd = VerifDirectory::new();
        let (schema, f) = e1::schema();
        let desc = json!({"directed": "two commits; a reader; a third commit; ONE failing open_read of a segment file during reader.reload()", "failing_open_of": suffix});
        let r = tvh::guarded(|| -> tantivy::Result<Vec<(bool, serde_json::Value)>> {
            let mut v = vec![];
            let index = Index::create(vd.clone(), schema.clone(), IndexSettings::default())?;
            let mut w: IndexWriter<TantivyDocument> = index.writer_with_num_threads(1, 15_000_000)?;
            w.set_merge_policy(Box::new(tantivy::indexer::NoMergePolicy));
            w.add_document(doc!(f.id => 1u64, f.tag => "t0", f.body => "alpha beta"))?;
            w.commit()?;
            let reader: tantivy::IndexReader = index.reader_builder().reload_policy(ReloadPolicy::Manual).try_into()?;
            w.add_document(doc!(f.id => 2u64, f.tag => "t1", f.body => "alpha gamma"))?;
            w.commit()?;
            vd.set_fault_once(OpKind::OpenRead, suffix);
            let rl = reader.reload();
            let fired = vd.faults_fired();
            let q = TermQuery::new(Term::from_field_text(f.body, "alpha"), IndexRecordOption::WithFreqsAndPositions);
            let phrase = tantivy::query::PhraseQuery::new(vec![Term::from_field_text(f.body, "alpha"), Term::from_field_text(f.body, "gamma")]);
            let s = reader.searcher();
            let works = |s: &tantivy::Searcher, want_docs: usize| -> Result<(), String> {
                let n = s.search(&q, &Count).map_err(|e| format!("term query: {e}"))?;
                if n != want_docs { return Err(format!("term query counts {n}, expected {want_docs}")); }
                let p = s.search(&phrase, &Count).map_err(|e| format!("phrase query: {e}"))?;
                if p != want_docs - 1 { return Err(format!("phrase query counts {p}, expected {}", want_docs - 1)); }
                let ids = e1::searcher_ids(s)?;
                if ids.len() != want_docs { return Err(format!("{} documents, expected {want_docs}", ids.len())); }
                Ok(())
            };
            if fired == 1 {
                match &rl {
                    // reported: the reader keeps its previous, working searcher (commit 1)
                    Err(_) => v.push((works(&s, 1).is_ok(), json!({"what": "after a reload that reported an I/O error the reader's previous searcher does not work any more", "err": works(&s, 1).err(), "case": desc}))),
                    // not reported: then whatever reload() installed must be a working searcher of the latest commit
                    Ok(()) => v.push((works(&s, 2).is_ok(), json!({"what": "reload() swallowed an I/O error: it returned Ok and installed a searcher that does not work", "err": works(&s, 2).err(), "case": desc}))),
                }
            }
            // without a fault the reload succeeds and shows the latest commit
            let rl2 = reader.reload();
            let s2 = reader.searcher();
            v.push((rl2.is_ok() && works(&s2, 2).is_ok(), json!({"what": "a reload after the transient read error does not succeed / does not show the latest commit", "reload": format!("{:?}", rl2.map_err(|e| e.to_string())), "err": works(&s2, 2).err(), "case": desc})));
            Ok(v)
        });
        match r {
            Ok(Ok(v)) => for (ok, d) in v { out.spec_checked(ok, d); },
            Ok(Err(e)) => out.spec_checked(false, json!({"what": "directed reload-fault scenario failed outside the faulted call", "err": e.to_string(), "case": desc})),
            Err(p) => out.spec_checked(false, json!({"what": "panic in the directed reload-fault scenario", "panic": p, "case": desc})),
        }
        out.count("directed_reload_fault_scenarios", 1);
        let _ = i;
    }
    // directed: a fault at the END of a merge that ran concurrently with a committed delete; a merge that outlives its writer
    for (ok, d) in e1::merge_end_fault_after_concurrent_delete() { out.spec_checked(ok, d); }
    for k in 0..2 { for (ok, d) in e1::merge_outlives_writer(k == 1) { out.spec_checked(ok, d); } }
    out.count("directed_merge_scenarios", 3);
    // the pipeline model with kill() as the SOURCE has it today (pin KILL_DROPS_RECEIVER): the caller fills the channel, blocks,
    // and the last worker dies -- explored on the model for a few capacities / worker counts / death positions
    for i in 0..(if thorough { 40 } else { 8 }) {
        let cap = 1 + rng.below(4);
        let workers = 1 + rng.below(3);
        let mut evs: Vec<&str> = vec![];
        for _ in 0..(cap + 1 + rng.below(3)) { evs.push("PSend"); if rng.chance(1, 4) { evs.push("PTake"); } }
        for _ in 0..workers { evs.push("PWorkerDies"); if rng.chance(1, 3) { evs.push("PSend"); } }
        out.coq_case("spec", format!("negb (stuck (prun_gen kill_drops_receiver (pipe0 {cap} {workers}) [{}]))", evs.join("; ")),
                     json!({"what": "indexing pipeline model (Storage/Pipeline.v) with kill() as in the source: the caller must not stay blocked in send() once no worker is left", "capacity": cap, "workers": workers, "events": evs}), i < 2);
    }
    // directed: the LAST indexing worker dies of an I/O error while the caller is blocked in add_document() on a full pipeline
    for attempt in 0..2 {
        use tantivy::{doc, Index, IndexSettings, IndexWriter, TantivyDocument};
        let vd = VerifDirectory::new();
        let (schema, f) = e1::schema();
        let index = Index::create(vd.clone(), schema, IndexSettings::default()).unwrap();
        let mut w: IndexWriter<TantivyDocument> = index.writer_with_num_threads(1, 15_000_000).unwrap();
        // the worker stalls at the creation of its first file (a slow device), then the creation of its fast-field file fails
        vd.set_hook(Some(std::sync::Arc::new(|_vd, _seq, kind, path| {
            if *kind == OpKind::Create && path.ends_with(".store") && std::thread::current().name().map(|n| n.starts_with("thrd-tantivy-index")).unwrap_or(false) { std::thread::sleep(Duration::from_millis(1500)); }
        })));
        vd.set_fault_once(OpKind::Create, ".fast");
        let (tx, rx) = mpsc::channel();
        std::thread::Builder::new().name("producer".into()).spawn(move || {
            let mut n = 0u64;
            let mut err = None;
            while n < 40_000 {
                match w.add_document(doc!(f.id => n, f.tag => "t0", f.body => "x")) { Ok(_) => n += 1, Err(e) => { err = Some(e.to_string()); break; } }
            }
            let _ = tx.send((n, err));
            // the writer is dropped here (a killed writer's drop must not hang either)
        }).unwrap();
        let desc = json!({"directed": "1 indexing thread stalled at its first file creation; the caller fills the pipeline (10_000 pending batches) and blocks in add_document; the worker's next file creation fails", "attempt": attempt});
        match rx.recv_timeout(Duration::from_secs(45)) {
            Ok((n, Some(_e))) => { out.spec_checked(true, json!({})); out.count("docs_accepted_before_the_worker_died", n); out.count("directed_blocked_add_scenarios", 1); break; }
            Ok((n, None)) => { out.spec_checked(vd.faults_fired() == 0, json!({"what": "the last indexing worker died of an I/O error but 40000 add_document calls all returned Ok", "accepted": n, "case": desc})); out.count("directed_blocked_add_scenarios", 1); break; }
            Err(_) if attempt == 0 => { out.count("timeouts_first_attempt", 1); continue; }
            Err(_) => { out.spec_checked(false, json!({"what": "add_document() hangs: the caller was blocked on a full pipeline when the last indexing worker died of an I/O error and is never woken up (twice in a row, 45 s each)", "case": desc})); }
        }
    }
    let _ = Op::Commit;
    out.finish(json!({"tier": args.tier, "seed": args.seed}));
}
