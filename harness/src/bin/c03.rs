//! C03 correspondence: generated corpora (split into segments, deletes, merges) x generated query trees,
//! run through Count / Query::count / DocSetCollector / TopDocs / (DocSetCollector, TopDocs) with scoring
//! disabled and enabled on the real implementation.  Every observation is shipped to Coq:
//!   spec  : ids == QuerySem.eval over the model corpus
//!   tie   : ids/counts == Compose.collect_model / count_model over the segment layout read back
//!   known : when the implementation misses the spec inside the known class F32: classifier
//! (F31 -- single-clause boolean ignoring the minimum -- is fixed; its witnesses stay as regression cases)
use std::collections::{BTreeMap, BTreeSet};
use std::ops::Bound;

use serde_json::json;
use tantivy::collector::{Count, DocSetCollector, FilterCollector, TopDocs};
use tantivy::indexer::NoMergePolicy;
use tantivy::query::{
    AllQuery, BooleanQuery, BoostQuery, ConstScoreQuery, DisjunctionMaxQuery, EmptyQuery, EnableScoring, ExistsQuery,
    FuzzyTermQuery, InvertedIndexRangeQuery, Occur, PhrasePrefixQuery, PhraseQuery, Query, RangeQuery, RegexQuery,
    TermQuery, TermSetQuery,
};
use tantivy::schema::{
    Field, IndexRecordOption, OwnedValue, Schema, TextFieldIndexing, TextOptions, FAST, INDEXED,
};
use tantivy::{DateTime, DocAddress, Executor, Index, IndexWriter, Searcher, TantivyDocument, Term};
use tantivy_fst::Automaton;
use tvh::coqfmt as cf;
use tvh::out::CaseOut;
use tvh::rng::Rng;
use tvh::{guarded, Args};

const HEADER: &str = "From TV Require Import Base.Prelude Query.QuerySem Query.Compose Query.Exists Query.Cases Query.MonoMap Generated.Constants.";

// ------------------------------------------------------------------------------------------ model
#[derive(Clone, Debug, PartialEq)]
enum Val {
    I(i64),
    U(u64),
    F(f64),
    B(bool),
    D(i64), // seconds
}
impl Val {
    fn tag(&self) -> u8 {
        match self { Val::I(_) => 0, Val::U(_) => 1, Val::B(_) => 2, Val::D(_) => 3, Val::F(_) => 4 }
    }
    /// the typed order, as in QuerySem.vkey (f64: IEEE total order on non-NaN)
    fn key(&self) -> i128 {
        match self {
            Val::I(z) => *z as i128,
            Val::U(n) => *n as i128,
            Val::B(b) => *b as i128,
            Val::D(z) => *z as i128,
            Val::F(x) => {
                let bits = x.to_bits();
                if bits < (1u64 << 63) { bits as i128 } else { -((bits - (1u64 << 63)) as i128) - 1 }
            }
        }
    }
    fn coq(&self) -> String {
        match self {
            Val::I(z) => format!("VI64 {}", cf::z(*z as i128)),
            Val::U(n) => format!("VU64 {}", n),
            Val::B(b) => format!("VBool {}", b),
            Val::D(z) => format!("VDate {}", cf::z(*z as i128)),
            Val::F(x) => format!("VF64 {}", x.to_bits()),
        }
    }
}
fn vlt(a: &Val, b: &Val) -> bool { a.tag() == b.tag() && a.key() < b.key() }
fn vle(a: &Val, b: &Val) -> bool { a.tag() == b.tag() && a.key() <= b.key() }

#[derive(Clone, Debug)]
enum Bd { Unb, Incl(Val), Excl(Val) }
impl Bd {
    fn coq(&self) -> String {
        match self { Bd::Unb => "Unb".into(), Bd::Incl(v) => format!("(Incl ({}))", v.coq()), Bd::Excl(v) => format!("(Excl ({}))", v.coq()) }
    }
}

const TEXT_FIELDS: [u64; 2] = [0, 1];
const TYPED_FIELDS: [u64; 5] = [10, 11, 12, 13, 14];
/// sub-paths of the JSON fast field `js` (model field id, path, kind): scalars, arrays, and one path holding
/// values of several types.  Strings are modelled as tokens of the path, the other leaves as typed values.
#[derive(Clone, Copy, PartialEq)]
enum JKind { I, S, B, SArr, FArr, IArr, Mixed }
const JSON_PATHS: [(u64, &str, JKind); 7] = [(21, "a", JKind::I), (22, "b", JKind::S), (23, "c", JKind::B), (24, "tags", JKind::SArr),
                                             (25, "nums", JKind::FArr), (26, "ids", JKind::IArr), (27, "m", JKind::Mixed)];

#[derive(Clone, Debug, Default)]
struct DocM {
    uid: u64,
    text: BTreeMap<u64, Vec<usize>>, // field -> token ids
    vals: BTreeMap<u64, Vec<Val>>,
    alive: bool,
}
impl DocM {
    fn toks(&self, f: u64) -> &[usize] { self.text.get(&f).map(|v| &v[..]).unwrap_or(&[]) }
    fn values(&self, f: u64) -> &[Val] { self.vals.get(&f).map(|v| &v[..]).unwrap_or(&[]) }
    fn coq(&self) -> String {
        let t: Vec<String> = self.text.iter().filter(|(_, v)| !v.is_empty()).map(|(f, v)| format!("({}, {})", f, cf::ns(v))).collect();
        let v: Vec<String> = self.vals.iter().filter(|(_, v)| !v.is_empty()).map(|(f, v)| format!("({}, {})", f, cf::list(v, |x| x.coq()))).collect();
        format!("mkDoc {} [{}] [{}]", self.uid, t.join(";"), v.join(";"))
    }
}

#[derive(Clone, Debug)]
enum Q {
    Term { f: u64, t: usize, freqs: bool },
    Phrase { f: u64, ts: Vec<(usize, usize)>, slop: u32 },
    PhrasePrefix { f: u64, ts: Vec<(usize, usize)>, off: usize, prefix: String, auto: usize },
    Range { f: u64, lo: Bd, hi: Bd, inverted: bool },
    TermSet { f: u64, ts: Vec<usize> },
    Exists { f: u64 },
    ExistsPaths { name: String, subpaths: bool, fs: Vec<u64> },
    Fuzzy { f: u64, word: String, dist: u8, transp: bool, prefix: bool, auto: usize },
    Regex { f: u64, pat: String, auto: usize },
    All,
    Empty,
    Boost(Box<Q>, f32),
    Const(Box<Q>, f32),
    DisMax(Vec<Q>),
    Bool(usize, Vec<(Occur, Q)>),
}

fn occ_coq(o: Occur) -> &'static str { match o { Occur::Must => "Must", Occur::Should => "Should", Occur::MustNot => "MustNot" } }

impl Q {
    fn coq(&self) -> String {
        let offs = |ts: &Vec<(usize, usize)>| cf::list(ts, |(o, t)| format!("({}%Z, {})", o, t));
        match self {
            Q::Term { f, t, .. } => format!("QLeaf (LTerm {} {})", f, t),
            Q::Phrase { f, ts, slop } => format!("QLeaf (LPhrase {} {} {})", f, offs(ts), slop),
            Q::PhrasePrefix { f, ts, off, auto, .. } => format!("QLeaf (LPhrasePrefix {} {} {}%Z {})", f, offs(ts), off, auto),
            Q::Range { f, lo, hi, .. } => format!("QLeaf (LRange {} {} {})", f, lo.coq(), hi.coq()),
            Q::TermSet { f, ts } => format!("QLeaf (LTermSet {} {})", f, cf::ns(ts)),
            Q::Exists { f } => format!("QLeaf (LExists {})", f),
            Q::ExistsPaths { fs, .. } => format!("QLeaf (LExistsPaths {})", cf::ns(fs)),
            Q::Fuzzy { f, auto, .. } | Q::Regex { f, auto, .. } => format!("QLeaf (LAuto {} {})", f, auto),
            Q::All => "QAll".into(),
            Q::Empty => "QEmpty".into(),
            Q::Boost(q, b) => format!("QBoost {} ({})", *b == 1.0, q.coq()),
            Q::Const(q, _) => format!("QConst ({})", q.coq()),
            Q::DisMax(qs) => format!("QDisMax {}", cf::list(qs, |q| q.coq())),
            Q::Bool(msm, cs) => format!("QBool {} {}", cf::nat(*msm), cf::list(cs, |(o, q)| format!("({}, {})", occ_coq(*o), q.coq()))),
        }
    }
    fn depth(&self) -> usize {
        match self {
            Q::Boost(q, _) | Q::Const(q, _) => 1 + q.depth(),
            Q::DisMax(qs) => 1 + qs.iter().map(|q| q.depth()).max().unwrap_or(0),
            Q::Bool(_, cs) => 1 + cs.iter().map(|(_, q)| q.depth()).max().unwrap_or(0),
            _ => 0,
        }
    }
    fn occur_kinds(&self, acc: &mut BTreeSet<u8>) {
        match self {
            Q::Boost(q, _) | Q::Const(q, _) => q.occur_kinds(acc),
            Q::DisMax(qs) => { acc.insert(1); qs.iter().for_each(|q| q.occur_kinds(acc)) }
            Q::Bool(_, cs) => cs.iter().for_each(|(o, q)| { acc.insert(*o as u8); q.occur_kinds(acc) }),
            _ => {}
        }
    }
    /// Compose.has_f31 (mirror used only to decide which kind of case to emit; Coq re-decides it)
    fn has_f31(&self) -> bool {
        match self {
            Q::Boost(q, _) | Q::Const(q, _) => q.has_f31(),
            Q::DisMax(qs) => qs.iter().any(|q| q.has_f31()),
            Q::Bool(msm, cs) => {
                let node = cs.len() == 1 && cs[0].0 != Occur::MustNot && cs.iter().filter(|c| c.0 == Occur::Should).count() < *msm;
                node || cs.iter().any(|(_, q)| q.has_f31())
            }
            _ => false,
        }
    }
    /// known class F33: a union (boolean with >= 2 should clauses) that has a child able to be left dangling by
    /// seek_danger (a conjunction, a phrase, a phrase-prefix) and that is itself a clause of another boolean
    fn has_f33(&self) -> bool {
        fn dangling_capable(q: &Q) -> bool {
            match q {
                Q::Phrase { .. } | Q::PhrasePrefix { .. } => true,
                Q::Boost(q, _) | Q::Const(q, _) => dangling_capable(q),
                Q::Bool(_, cs) => cs.iter().filter(|c| c.0 != Occur::MustNot).count() >= 2 && cs.iter().any(|c| c.0 == Occur::Must) || cs.iter().any(|c| dangling_capable(&c.1)),
                Q::DisMax(qs) => qs.iter().any(dangling_capable),
                _ => false,
            }
        }
        fn is_union_with_dangler(q: &Q) -> bool {
            match q {
                Q::Boost(q, _) | Q::Const(q, _) => is_union_with_dangler(q),
                Q::Bool(_, cs) => cs.iter().filter(|c| c.0 == Occur::Should).count() >= 2 && cs.iter().any(|c| c.0 == Occur::Should && dangling_capable(&c.1)),
                Q::DisMax(qs) => qs.len() >= 2 && qs.iter().any(dangling_capable),
                _ => false,
            }
        }
        match self {
            Q::Boost(q, _) | Q::Const(q, _) => q.has_f33(),
            Q::DisMax(qs) => qs.iter().any(|q| q.has_f33()),
            Q::Bool(_, cs) => cs.len() >= 2 && cs.iter().any(|c| is_union_with_dangler(&c.1)) || cs.iter().any(|c| c.1.has_f33()),
            _ => false,
        }
    }
    fn has_f32(&self) -> bool {
        match self {
            Q::Phrase { ts, slop, .. } => ts.len() >= 3 && *slop > 0,
            Q::Boost(q, _) | Q::Const(q, _) => q.has_f32(),
            Q::DisMax(qs) => qs.iter().any(|q| q.has_f32()),
            Q::Bool(_, cs) => cs.iter().any(|(_, q)| q.has_f32()),
            _ => false,
        }
    }
    fn kind_name(&self) -> &'static str {
        match self {
            Q::Term { .. } => "term", Q::Phrase { .. } => "phrase", Q::PhrasePrefix { .. } => "phrase_prefix", Q::Range { .. } => "range",
            Q::TermSet { .. } => "term_set", Q::Exists { .. } => "exists", Q::ExistsPaths { .. } => "exists_json", Q::Fuzzy { .. } => "fuzzy", Q::Regex { .. } => "regex",
            Q::All => "all", Q::Empty => "empty", Q::Boost(..) => "boost", Q::Const(..) => "const", Q::DisMax(..) => "dismax", Q::Bool(..) => "bool",
        }
    }
    fn count_kinds(&self, out: &mut CaseOut) {
        out.count(&format!("node_{}", self.kind_name()), 1);
        match self {
            Q::Boost(q, _) | Q::Const(q, _) => q.count_kinds(out),
            Q::DisMax(qs) => qs.iter().for_each(|q| q.count_kinds(out)),
            Q::Bool(_, cs) => cs.iter().for_each(|(_, q)| q.count_kinds(out)),
            _ => {}
        }
    }
}

// the documented phrase meaning (QuerySem.phrase_spec / chain)
fn chain(toks: &[usize], prev: i64, budget: i64, ts: &[(usize, usize)]) -> bool {
    match ts.split_first() {
        None => true,
        Some((&(off, t), rest)) => toks.iter().enumerate().filter(|(_, x)| **x == t).any(|(p, _)| {
            let q = p as i64 - off as i64;
            let c = (q - prev).abs();
            c <= budget && chain(toks, q, budget - c, rest)
        }),
    }
}
fn phrase_spec(toks: &[usize], ts: &[(usize, usize)], slop: u32) -> bool {
    match ts.split_first() {
        None => false,
        Some((&(off, t), rest)) => toks.iter().enumerate().filter(|(_, x)| **x == t).any(|(p, _)| chain(toks, p as i64 - off as i64, slop as i64, rest)),
    }
}

/// QuerySem.matches mirrored in Rust (bulk sweeps and classification; the Coq spec cases are authoritative)
fn matches(d: &DocM, q: &Q, acc: &[Vec<usize>]) -> bool {
    match q {
        Q::Term { f, t, .. } => d.toks(*f).contains(t),
        Q::Phrase { f, ts, slop } => phrase_spec(d.toks(*f), ts, *slop),
        Q::PhrasePrefix { f, ts, off, auto, .. } => d.toks(*f).iter().any(|t| {
            acc[*auto].contains(t) && { let mut all = ts.clone(); all.push((*off, *t)); phrase_spec(d.toks(*f), &all, 0) }
        }),
        Q::Range { f, lo, hi, .. } => d.values(*f).iter().any(|v| {
            (match lo { Bd::Unb => true, Bd::Incl(l) => vle(l, v), Bd::Excl(l) => vlt(l, v) })
                && (match hi { Bd::Unb => true, Bd::Incl(h) => vle(v, h), Bd::Excl(h) => vlt(v, h) })
        }),
        Q::TermSet { f, ts } => ts.iter().any(|t| d.toks(*f).contains(t)),
        Q::Exists { f } => !d.values(*f).is_empty(),
        Q::ExistsPaths { fs, .. } => fs.iter().any(|f| !d.values(*f).is_empty() || !d.toks(*f).is_empty()),
        Q::Fuzzy { f, auto, .. } | Q::Regex { f, auto, .. } => d.toks(*f).iter().any(|t| acc[*auto].contains(t)),
        Q::All => true,
        Q::Empty => false,
        Q::Boost(q, _) | Q::Const(q, _) => matches(d, q, acc),
        Q::DisMax(qs) => qs.iter().any(|q| matches(d, q, acc)),
        Q::Bool(msm, cs) => {
            let vals: Vec<(Occur, bool)> = cs.iter().map(|(o, q)| (*o, matches(d, q, acc))).collect();
            let n_must = vals.iter().filter(|v| v.0 == Occur::Must).count();
            let msm2 = (*msm).max(if n_must == 0 { 1 } else { 0 });
            vals.iter().filter(|v| v.0 == Occur::Must).all(|v| v.1)
                && !vals.iter().filter(|v| v.0 == Occur::MustNot).any(|v| v.1)
                && vals.iter().filter(|v| v.0 == Occur::Should && v.1).count() >= msm2
        }
    }
}

// ------------------------------------------------------------------------------------------ index
struct Fields { id: Field, text: [Field; 2], i: Field, u: Field, f: Field, b: Field, d: Field, js: Field }

fn schema() -> (Schema, Fields) {
    let mut sb = Schema::builder();
    let id = sb.add_u64_field("id", FAST | INDEXED);
    let topt = |opt: IndexRecordOption| TextOptions::default().set_indexing_options(TextFieldIndexing::default().set_tokenizer("whitespace").set_index_option(opt));
    let t0 = sb.add_text_field("t0", topt(IndexRecordOption::WithFreqsAndPositions));
    let t1 = sb.add_text_field("t1", topt(IndexRecordOption::WithFreqsAndPositions));
    let i = sb.add_i64_field("fi", FAST | INDEXED);
    let u = sb.add_u64_field("fu", FAST | INDEXED);
    let f = sb.add_f64_field("ff", FAST | INDEXED);
    let b = sb.add_bool_field("fb", FAST | INDEXED);
    let d = sb.add_date_field("fd", FAST | INDEXED);
    let js = sb.add_json_field("js", FAST);
    (sb.build(), Fields { id, text: [t0, t1], i, u, f, b, d, js })
}

fn typed_field(fs: &Fields, f: u64) -> (Field, &'static str) {
    match f { 10 => (fs.i, "fi"), 11 => (fs.u, "fu"), 12 => (fs.f, "ff"), 13 => (fs.b, "fb"), _ => (fs.d, "fd") }
}

fn val_term(fs: &Fields, f: u64, v: &Val) -> Term {
    let (field, _) = typed_field(fs, f);
    match v {
        Val::I(z) => Term::from_field_i64(field, *z),
        Val::U(n) => Term::from_field_u64(field, *n),
        Val::F(x) => Term::from_field_f64(field, *x),
        Val::B(b) => Term::from_field_bool(field, *b),
        Val::D(s) => Term::from_field_date_for_search(field, DateTime::from_timestamp_secs(*s)),
    }
}

fn to_bound(fs: &Fields, f: u64, b: &Bd) -> Bound<Term> {
    match b { Bd::Unb => Bound::Unbounded, Bd::Incl(v) => Bound::Included(val_term(fs, f, v)), Bd::Excl(v) => Bound::Excluded(val_term(fs, f, v)) }
}

fn to_query(q: &Q, fs: &Fields, vocab: &[String]) -> Box<dyn Query> {
    let tterm = |f: u64, t: usize| Term::from_field_text(fs.text[f as usize], &vocab[t]);
    match q {
        Q::Term { f, t, freqs } => Box::new(TermQuery::new(tterm(*f, *t), if *freqs { IndexRecordOption::WithFreqs } else { IndexRecordOption::Basic })),
        Q::Phrase { f, ts, slop } => Box::new(PhraseQuery::new_with_offset_and_slop(ts.iter().map(|(o, t)| (*o, tterm(*f, *t))).collect(), *slop)),
        Q::PhrasePrefix { f, ts, off, prefix, .. } => {
            let mut terms: Vec<(usize, Term)> = ts.iter().map(|(o, t)| (*o, tterm(*f, *t))).collect();
            terms.push((*off, Term::from_field_text(fs.text[*f as usize], prefix)));
            Box::new(PhrasePrefixQuery::new_with_offset(terms))
        }
        Q::Range { f, lo, hi, inverted } => {
            if *inverted { Box::new(InvertedIndexRangeQuery::new(to_bound(fs, *f, lo), to_bound(fs, *f, hi))) }
            else { Box::new(RangeQuery::new(to_bound(fs, *f, lo), to_bound(fs, *f, hi))) }
        }
        Q::TermSet { f, ts } => Box::new(TermSetQuery::new(ts.iter().map(|t| tterm(*f, *t)))),
        Q::Exists { f } => Box::new(ExistsQuery::new(typed_field(fs, *f).1.to_string(), false)),
        Q::ExistsPaths { name, subpaths, .. } => Box::new(ExistsQuery::new(name.clone(), *subpaths)),
        Q::Fuzzy { f, word, dist, transp, prefix, .. } => {
            let term = Term::from_field_text(fs.text[*f as usize], word);
            if *prefix { Box::new(FuzzyTermQuery::new_prefix(term, *dist, *transp)) } else { Box::new(FuzzyTermQuery::new(term, *dist, *transp)) }
        }
        Q::Regex { f, pat, .. } => Box::new(RegexQuery::from_pattern(pat, fs.text[*f as usize]).expect("regex")),
        Q::All => Box::new(AllQuery),
        Q::Empty => Box::new(EmptyQuery),
        Q::Boost(q, b) => Box::new(BoostQuery::new(to_query(q, fs, vocab), *b)),
        Q::Const(q, s) => Box::new(ConstScoreQuery::new(to_query(q, fs, vocab), *s)),
        Q::DisMax(qs) => Box::new(DisjunctionMaxQuery::new(qs.iter().map(|q| to_query(q, fs, vocab)).collect())),
        Q::Bool(msm, cs) => Box::new(BooleanQuery::with_minimum_required_clauses(cs.iter().map(|(o, q)| (*o, to_query(q, fs, vocab))).collect(), *msm)),
    }
}

struct Corpus {
    name: String,
    docs: Vec<DocM>,
    chunks: Vec<usize>,      // sizes of the commits
    merge_first_two: bool,
}

fn gen_vals(rng: &mut Rng, f: u64) -> Vec<Val> {
    let n = match rng.below(6) { 0 | 1 => 0, 2 | 3 | 4 => 1, _ => 2 };
    (0..n).map(|_| match f {
        10 => Val::I(*rng.pick(&[-3i64, -2, -1, 0, 1, 2, 3, i64::MIN, i64::MAX, i64::MIN + 1, i64::MAX - 1])),
        11 => Val::U(*rng.pick(&[0u64, 1, 2, 3, 4, 5, u64::MAX, u64::MAX - 1, 1 << 63, (1 << 63) - 1])),
        12 => Val::F(*rng.pick(&[-2.5f64, -1.0, -1e-300, 0.0, 1e-300, 0.5, 1.0, 2.5, 1e300, -1e300, f64::INFINITY, f64::NEG_INFINITY, f64::MIN_POSITIVE])),
        13 => Val::B(rng.chance(1, 2)),
        _ => Val::D(*rng.pick(&[-86400i64, -1, 0, 1, 2, 3, 1_600_000_000, 1_600_000_001, 4_000_000_000])),
    }).collect()
}

fn gen_val(rng: &mut Rng, f: u64) -> Val {
    loop { if let Some(v) = gen_vals(rng, f).pop() { return v; } }
}

/// fills the JSON sub-paths `active` of every document: each path is present with probability ~1/3
/// (`dense` paths always), arrays hold 1..3 leaves
fn add_json(rng: &mut Rng, c: &mut Corpus, active: &[u64], dense: &[u64], vocab_n: usize) {
    for d in c.docs.iter_mut() {
        for (jf, _, kind) in JSON_PATHS {
            if !active.contains(&jf) { continue; }
            if !dense.contains(&jf) && !rng.chance(1, 3) { continue; }
            let n = 1 + (rng.below(4) as usize) % 3;
            let ival = |rng: &mut Rng| Val::I(*rng.pick(&[-5i64, 0, 1, 7, 1 << 40]));
            let fval = |rng: &mut Rng| Val::F(*rng.pick(&[1.5f64, -2.25, 1e10]));
            let tok = |rng: &mut Rng| rng.below(vocab_n as u64) as usize;
            match kind {
                JKind::I => { d.vals.insert(jf, vec![ival(rng)]); }
                JKind::S => { d.text.insert(jf, vec![tok(rng)]); }
                JKind::B => { d.vals.insert(jf, vec![Val::B(rng.chance(1, 2))]); }
                JKind::SArr => { d.text.insert(jf, (0..n).map(|_| tok(rng)).collect()); }
                JKind::FArr => { d.vals.insert(jf, (0..n).map(|_| fval(rng)).collect()); }
                JKind::IArr => { d.vals.insert(jf, (0..n).map(|_| ival(rng)).collect()); }
                JKind::Mixed => {
                    let mut vs = vec![]; let mut ts = vec![];
                    for _ in 0..n { match rng.below(4) { 0 => vs.push(ival(rng)), 1 => vs.push(fval(rng)), 2 => vs.push(Val::B(rng.chance(1, 2))), _ => ts.push(tok(rng)) } }
                    if !vs.is_empty() { d.vals.insert(jf, vs); }
                    if !ts.is_empty() { d.text.insert(jf, ts); }
                }
            }
        }
    }
}

/// a segment-sized corpus whose interesting terms are sparse: every document holds the filler token 0,
/// token 9 sits in every ~50th document, and the rare tokens 5..8, 10, 11 only occur in a few clusters of
/// 10 consecutive documents that lie more than 4096 doc ids apart (union look-ahead window)
fn gen_sparse_corpus(rng: &mut Rng, name: &str, n: usize, chunks: Vec<usize>, delete_pct: u64) -> Corpus {
    let mut docs: Vec<DocM> = (0..n).map(|u| { let mut d = DocM { uid: u as u64, alive: true, ..Default::default() };
        let mut t = vec![0usize]; if u % 50 == 7 { t.push(9); } d.text.insert(0, t); d }).collect();
    let mut c = 50 + rng.below(300) as usize;
    while c + 10 < n {
        for delta in 0..10 {
            let toks = docs[c + delta].text.get_mut(&0).unwrap();
            if rng.chance(1, 4) { toks.clear(); }          // not every cluster document carries the filler
            for t in [5usize, 6, 7, 8, 10, 11] { if rng.chance(2, 5) { let at = rng.below(toks.len() as u64 + 1) as usize; toks.insert(at, t); } }
        }
        c += 4200 + rng.below(1500) as usize;
    }
    for d in docs.iter_mut() { if rng.below(100) < delete_pct { d.alive = false; } }
    Corpus { name: name.into(), docs, chunks, merge_first_two: false }
}

/// n docs; `forced`: (token, field, how many docs of [lo,hi) must contain it)
fn gen_corpus(rng: &mut Rng, name: &str, n: usize, vocab_n: usize, chunks: Vec<usize>, forced: &[(usize, std::ops::Range<usize>, usize)], delete_pct: u64, merge: bool) -> Corpus {
    let mut docs = vec![];
    // token probabilities: token 0 everywhere, token 1 nowhere, others skewed
    for uid in 0..n {
        let mut d = DocM { uid: uid as u64, alive: true, ..Default::default() };
        for f in TEXT_FIELDS {
            let len = if f == 0 { rng.below(9) } else { rng.below(4) } as usize;
            let mut toks: Vec<usize> = (0..len).map(|_| {
                // skewed towards the small ids, never 1 and never the forced tokens
                loop {
                    let t = (rng.below(vocab_n as u64) * rng.below(vocab_n as u64 + 1) / vocab_n as u64) as usize;
                    if t != 1 && !(f == 0 && forced.iter().any(|(ft, _, _)| *ft == t)) { return t; }
                }
            }).collect();
            if f == 0 && rng.chance(9, 10) { let at = rng.below(toks.len() as u64 + 1) as usize; toks.insert(at, 0); }
            d.text.insert(f, toks);
        }
        for f in TYPED_FIELDS { d.vals.insert(f, gen_vals(rng, f)); }
        docs.push(d);
    }
    for (t, range, k) in forced {
        let mut idx: Vec<usize> = range.clone().filter(|i| *i < n).collect();
        rng.shuffle(&mut idx);
        for i in idx.into_iter().take(*k) {
            let toks = docs[i].text.get_mut(&0).unwrap();
            let at = rng.below(toks.len() as u64 + 1) as usize;
            toks.insert(at, *t);
        }
    }
    for d in docs.iter_mut() { if rng.below(100) < delete_pct { d.alive = false; } }
    Corpus { name: name.into(), docs, chunks, merge_first_two: merge }
}

struct Built { index: Index, searcher: Searcher, fields: Fields, layout: Vec<Vec<(u64, bool)>> }

fn build_index(c: &Corpus, vocab: &[String]) -> Built {
    let (schema, fields) = schema();
    let index = Index::create_in_ram(schema);
    {
        let mut w: IndexWriter = index.writer_with_num_threads(1, 20_000_000).unwrap();
        w.set_merge_policy(Box::new(NoMergePolicy));
        let mut it = c.docs.iter();
        for sz in &c.chunks {
            for _ in 0..*sz {
                let d = match it.next() { Some(d) => d, None => break };
                let mut td = TantivyDocument::default();
                td.add_u64(fields.id, d.uid);
                for f in TEXT_FIELDS {
                    let s: Vec<&str> = d.toks(f).iter().map(|t| vocab[*t].as_str()).collect();
                    if !s.is_empty() { td.add_text(fields.text[f as usize], s.join(" ")); }
                }
                for f in TYPED_FIELDS {
                    for v in d.values(f) {
                        match v {
                            Val::I(z) => td.add_i64(fields.i, *z),
                            Val::U(n) => td.add_u64(fields.u, *n),
                            Val::F(x) => td.add_f64(fields.f, *x),
                            Val::B(b) => td.add_bool(fields.b, *b),
                            Val::D(s) => td.add_date(fields.d, DateTime::from_timestamp_secs(*s)),
                        }
                    }
                }
                let mut obj = serde_json::Map::new();
                for (jf, path, _) in JSON_PATHS {
                    let mut leaves: Vec<serde_json::Value> = d.values(jf).iter().map(|v| match v {
                        Val::I(z) => serde_json::json!(*z), Val::U(n) => serde_json::json!(*n), Val::F(x) => serde_json::json!(*x),
                        Val::B(b) => serde_json::json!(*b), Val::D(s) => serde_json::json!(*s) }).collect();
                    leaves.extend(d.toks(jf).iter().map(|t| serde_json::json!(vocab[*t].clone())));
                    match leaves.len() { 0 => {} 1 if d.uid % 2 == 0 => { obj.insert(path.to_string(), leaves.pop().unwrap()); } _ => { obj.insert(path.to_string(), serde_json::Value::Array(leaves)); } }
                }
                if !obj.is_empty() || d.uid % 3 == 0 {
                    let o: BTreeMap<String, OwnedValue> = serde_json::from_value(serde_json::Value::Object(obj)).expect("json object");
                    td.add_object(fields.js, o);
                }
                w.add_document(td).unwrap();
            }
            w.commit().unwrap();
        }
        for d in c.docs.iter().filter(|d| !d.alive) { w.delete_term(Term::from_field_u64(fields.id, d.uid)); }
        w.commit().unwrap();
        if c.merge_first_two {
            let ids = index.searchable_segment_ids().unwrap();
            if ids.len() >= 2 { let _ = w.merge(&ids[..2]).wait(); }
        }
        w.wait_merging_threads().unwrap();
    }
    let reader = index.reader().unwrap();
    let searcher = reader.searcher();
    let mut layout = vec![];
    for sr in searcher.segment_readers() {
        let col = sr.fast_fields().u64("id").unwrap();
        layout.push((0..sr.max_doc()).map(|d| (col.first(d).unwrap_or(u64::MAX), !sr.is_deleted(d))).collect());
    }
    Built { index, searcher, fields, layout }
}

// ------------------------------------------------------------------------------------------ queries
struct QGen<'a> { rng: &'a mut Rng, vocab: &'a [String], autos: Vec<(String, Vec<usize>)>, docs: &'a [DocM] }

fn lev_accepts(word: &str, dist: u8, transp: bool, prefix: bool, vocab: &[String]) -> Vec<usize> {
    let b = levenshtein_automata::LevenshteinAutomatonBuilder::new(dist, transp);
    let dfa = if prefix { b.build_prefix_dfa(word) } else { b.build_dfa(word) };
    vocab.iter().enumerate().filter(|(_, w)| matches!(dfa.eval(w.as_bytes()), levenshtein_automata::Distance::Exact(_))).map(|(i, _)| i).collect()
}
fn regex_accepts(pat: &str, vocab: &[String]) -> Vec<usize> {
    let re = tantivy_fst::Regex::new(pat).expect("regex");
    vocab.iter().enumerate().filter(|(_, w)| {
        let mut st = re.start();
        for b in w.bytes() { st = re.accept(&st, b); }
        re.is_match(&st)
    }).map(|(i, _)| i).collect()
}

impl<'a> QGen<'a> {
    fn tok(&mut self) -> usize {
        // bias to the interesting tokens (0 = everywhere, 1 = nowhere, forced ones are the small ids)
        if self.rng.chance(1, 2) { self.rng.below(8.min(self.vocab.len() as u64)) as usize } else { self.rng.below(self.vocab.len() as u64) as usize }
    }
    fn phrase_terms(&mut self, f: u64, n: usize) -> Vec<(usize, usize)> {
        // mostly taken from an actual document so that phrases do match
        let mut ts: Vec<(usize, usize)> = vec![];
        if self.rng.chance(3, 4) && !self.docs.is_empty() {
            let d = &self.docs[self.rng.below(self.docs.len() as u64) as usize];
            let toks = d.toks(f);
            if toks.len() >= n {
                let start = self.rng.below((toks.len() - n + 1) as u64) as usize;
                ts = (0..n).map(|i| (i, toks[start + i])).collect();
                if self.rng.chance(1, 3) { let i = self.rng.below(n as u64) as usize; ts[i].1 = self.tok(); }
                if self.rng.chance(1, 4) && n >= 2 { ts.swap(0, 1); let o0 = ts[0].0; ts[0].0 = ts[1].0; ts[1].0 = o0; }
            }
        }
        if ts.is_empty() { ts = (0..n).map(|i| (i, self.tok())).collect(); }
        if self.rng.chance(1, 6) { for (k, t) in ts.iter_mut().enumerate() { t.0 += k; } }   // custom offsets (gaps)
        ts
    }
    fn leaf(&mut self) -> Q {
        let f = if self.rng.chance(3, 4) { 0 } else { 1 };
        match self.rng.below(20) {
            0..=5 => Q::Term { f, t: self.tok(), freqs: self.rng.chance(1, 2) },
            6 | 7 => { let n = *self.rng.pick(&[2usize, 2, 2, 3, 4]); let ts = self.phrase_terms(f, n);
                       let slop = if n == 2 { *self.rng.pick(&[0u32, 0, 1, 2, 3]) } else { *self.rng.pick(&[0u32, 0, 0, 0, 1, 2]) };
                       Q::Phrase { f, ts, slop } }
            8 | 9 | 10 => { let tf = *self.rng.pick(&TYPED_FIELDS); let mut a = gen_val(self.rng, tf); let mut b = gen_val(self.rng, tf);
                        if b.key() < a.key() && self.rng.chance(4, 5) { std::mem::swap(&mut a, &mut b); }
                        let mk = |rng: &mut Rng, v: Val| match rng.below(5) { 0 => Bd::Unb, 1 | 2 => Bd::Incl(v), _ => Bd::Excl(v) };
                        let (mut lo, hi) = (mk(self.rng, a.clone()), mk(self.rng, b));
                        if matches!(lo, Bd::Unb) && matches!(hi, Bd::Unb) { lo = Bd::Incl(a); }
                        // RangeQuery over a FAST bool field is rejected with InvalidArgument by FastFieldRangeWeight: use the inverted index there
                        Q::Range { f: tf, lo, hi, inverted: tf == 13 || self.rng.chance(1, 3) } }
            11 | 12 => { let n = self.rng.range(1, 4) as usize; Q::TermSet { f, ts: (0..n).map(|_| self.tok()).collect() } }
            13 => if self.rng.chance(1, 2) { Q::Exists { f: *self.rng.pick(&TYPED_FIELDS) } } else { self.exists_json() },
            14 => Q::All,
            15 => Q::Empty,
            16 => { let mut word = self.vocab[self.tok()].clone();
                    if self.rng.chance(1, 2) { word.push(*self.rng.pick(&['a', 'b', 'c'])); }
                    if self.rng.chance(1, 3) && word.len() > 1 { word.remove(0); }
                    let (dist, transp, prefix) = (self.rng.below(3) as u8, self.rng.chance(1, 2), self.rng.chance(1, 4));
                    let acc = lev_accepts(&word, dist, transp, prefix, self.vocab);
                    self.autos.push((format!("fuzzy({word},{dist},{transp},{prefix})"), acc));
                    Q::Fuzzy { f, word, dist, transp, prefix, auto: self.autos.len() - 1 } }
            17 => { let pat = self.rng.pick(&["a.*", "ab?c*", ".*b", "(a|b)+", "abc", ".*", "b[ac]*", "c.", "..", "[^a]+"]).to_string();
                    let acc = regex_accepts(&pat, self.vocab);
                    self.autos.push((format!("regex({pat})"), acc));
                    Q::Regex { f, pat, auto: self.autos.len() - 1 } }
            18 => { let n = self.rng.range(1, 2) as usize; let ts = (0..n).map(|i| (i, 0usize)).collect::<Vec<_>>();
                    let ts = if self.rng.chance(2, 3) { self.phrase_terms(f, n) } else { ts };
                    let off = ts.iter().map(|t| t.0).max().unwrap() + 1;
                    let prefix = self.rng.pick(&["a", "b", "c", "ab", "ba", ""]).to_string();
                    let acc: Vec<usize> = self.vocab.iter().enumerate().filter(|(_, w)| w.starts_with(&prefix)).map(|(i, _)| i).collect();
                    self.autos.push((format!("prefix({prefix})"), acc));
                    Q::PhrasePrefix { f, ts, off, prefix, auto: self.autos.len() - 1 } }
            _ => Q::Term { f: 0, t: *self.rng.pick(&[0usize, 1, 2, 3, 4, 5]), freqs: true },
        }
    }
    /// phrase-prefix leaf with `n` plain terms (n = 1 is the SinglePrefix scorer) taken from an actual
    /// document, the prefix being a prefix of the token that follows there: it matches some of the
    /// documents holding the first term and not the others
    fn pp_leaf(&mut self, n: usize) -> Q {
        let f = 0u64;
        for _ in 0..20 {
            if self.docs.is_empty() { break; }
            let d = &self.docs[self.rng.below(self.docs.len() as u64) as usize];
            let toks = d.toks(f);
            if toks.len() < n + 1 { continue; }
            let start = self.rng.below((toks.len() - n) as u64) as usize;
            let ts: Vec<(usize, usize)> = (0..n).map(|i| (i, toks[start + i])).collect();
            let next = &self.vocab[toks[start + n]];
            let prefix: String = match self.rng.below(4) { 0 => next.clone(), 1 | 2 => next.chars().take(1).collect(), _ => next.chars().take(2).collect() };
            let acc: Vec<usize> = self.vocab.iter().enumerate().filter(|(_, w)| w.starts_with(&prefix)).map(|(i, _)| i).collect();
            self.autos.push((format!("prefix({prefix})"), acc));
            return Q::PhrasePrefix { f, ts, off: n, prefix, auto: self.autos.len() - 1 };
        }
        let prefix = "a".to_string();
        let acc: Vec<usize> = self.vocab.iter().enumerate().filter(|(_, w)| w.starts_with(&prefix)).map(|(i, _)| i).collect();
        self.autos.push((format!("prefix({prefix})"), acc));
        Q::PhrasePrefix { f, ts: (0..n).map(|i| (i, 0usize)).collect(), off: n, prefix, auto: self.autos.len() - 1 }
    }
    /// boolean trees in which a phrase-prefix scorer is driven by seek / seek_danger: Must next to other
    /// clauses, MustNot, promoted Should
    fn pp_tree(&mut self) -> Q {
        let n = *self.rng.pick(&[1usize, 1, 1, 2]);
        let pp = self.pp_leaf(n);
        let term = |g: &mut Self| Q::Term { f: 0, t: *g.rng.pick(&[0usize, 0, 3, 4, 5, 6, 7]), freqs: g.rng.chance(1, 2) };
        let other = |g: &mut Self| if g.rng.chance(2, 3) { Q::Term { f: 0, t: g.tok(), freqs: g.rng.chance(1, 2) } } else { g.leaf() };
        match self.rng.below(9) {
            0 | 1 => Q::Bool(0, vec![(Occur::Must, pp), (Occur::Must, term(self))]),
            2 => Q::Bool(0, vec![(Occur::Must, term(self)), (Occur::Must, pp)]),
            3 => Q::Bool(0, vec![(Occur::Must, term(self)), (Occur::MustNot, pp)]),
            4 => Q::Bool(0, vec![(Occur::Must, pp), (Occur::MustNot, other(self)), (Occur::Should, other(self))]),
            5 => Q::Bool(2, vec![(Occur::Should, pp), (Occur::Should, term(self))]),
            6 => { let n2 = *self.rng.pick(&[1usize, 2]); let pp2 = self.pp_leaf(n2); Q::Bool(0, vec![(Occur::Must, pp), (Occur::Must, pp2)]) }
            7 => Q::Bool(0, vec![(Occur::Must, Q::Bool(0, vec![(Occur::Must, pp), (Occur::Must, other(self))])), (Occur::MustNot, other(self))]),
            _ => Q::Bool(1, vec![(Occur::Must, pp), (Occur::Must, term(self)), (Occur::Should, other(self)), (Occur::Should, other(self))]),
        }
    }
    /// exists over the JSON fast field: the whole field with its sub-paths (one column per path and type),
    /// or one path (a single column, or several for the mixed-type path)
    fn exists_json(&mut self) -> Q {
        if self.rng.chance(1, 2) { Q::ExistsPaths { name: "js".into(), subpaths: true, fs: JSON_PATHS.iter().map(|p| p.0).collect() } }
        else { let (jf, path, _) = *self.rng.pick(&JSON_PATHS); Q::ExistsPaths { name: format!("js.{path}"), subpaths: self.rng.chance(1, 2), fs: vec![jf] } }
    }
    fn exists_tree(&mut self) -> Q {
        let e = self.exists_json();
        let term = |g: &mut Self| Q::Term { f: 0, t: g.tok(), freqs: g.rng.chance(1, 2) };
        match self.rng.below(5) {
            0 => e,
            1 => Q::Bool(0, vec![(Occur::Must, e), (Occur::Must, term(self))]),
            2 => Q::Bool(0, vec![(Occur::Must, term(self)), (Occur::MustNot, e)]),
            3 => { let e2 = self.exists_json(); Q::Bool(0, vec![(Occur::Should, e), (Occur::Should, e2), (Occur::MustNot, term(self))]) }
            _ => { let e2 = self.exists_json(); Q::Bool(2, vec![(Occur::Should, e), (Occur::Should, e2), (Occur::Should, term(self))]) }
        }
    }
    fn tree(&mut self, depth: usize) -> Q {
        if depth == 0 || self.rng.chance(1, 4) { return self.leaf(); }
        match self.rng.below(12) {
            0 => Q::Boost(Box::new(self.tree(depth - 1)), *self.rng.pick(&[1.0f32, 2.0, 0.5])),
            1 => Q::Const(Box::new(self.tree(depth - 1)), *self.rng.pick(&[1.0f32, 3.0])),
            2 => { let n = self.rng.below(4) as usize; Q::DisMax((0..n).map(|_| self.tree(depth - 1)).collect()) }
            _ => {
                let n = *self.rng.pick(&[0usize, 1, 1, 2, 2, 2, 3, 3, 4, 5, 6]);
                let style = self.rng.below(6);
                let cs: Vec<(Occur, Q)> = (0..n).map(|_| {
                    let o = match style {
                        0 => Occur::Should, 1 => Occur::Must,
                        2 => *self.rng.pick(&[Occur::Should, Occur::Should, Occur::MustNot]),
                        3 => *self.rng.pick(&[Occur::Must, Occur::Must, Occur::MustNot]),
                        _ => *self.rng.pick(&[Occur::Must, Occur::Should, Occur::Should, Occur::MustNot]),
                    };
                    (o, self.tree(depth - 1))
                }).collect();
                let n_should = cs.iter().filter(|c| c.0 == Occur::Should).count();
                // default (BooleanQuery::new) / explicit minimum around the number of should clauses
                let msm = match self.rng.below(8) {
                    0 | 1 | 2 => { let mut m = 0; for (o, _) in &cs { if *o == Occur::Should { m = 1 } else { m = 0; break } } m }
                    3 => 0, 4 => 1, 5 => 2,
                    6 => n_should,
                    _ => self.rng.below(n_should as u64 + 2) as usize,
                };
                Q::Bool(msm, cs)
            }
        }
    }
}

// ------------------------------------------------------------------------------------------ observations
#[derive(Debug, Clone, PartialEq)]
struct Obs { count: Result<u64, String>, qcount: Result<u64, String>, ids_ns: Result<Vec<u64>, String>, ids_ns_scw: Result<Vec<u64>, String>,
             ids_top: Result<Vec<u64>, String>, ids_multi: Result<(Vec<u64>, Vec<u64>), String>,
             ids_filter: Result<Vec<u64>, String> }

fn uid_of(searcher: &Searcher, cols: &[tantivy::columnar::Column<u64>], a: DocAddress) -> u64 {
    let _ = searcher;
    cols[a.segment_ord as usize].first(a.doc_id).unwrap_or(u64::MAX)
}

fn flat<T>(r: Result<tantivy::Result<T>, String>) -> Result<T, String> {
    match r { Ok(Ok(v)) => Ok(v), Ok(Err(e)) => Err(format!("error: {e}")), Err(p) => Err(format!("panic: {p}")) }
}

fn observe(b: &Built, q: &dyn Query, total: usize) -> Obs {
    let s = &b.searcher;
    let cols: Vec<_> = s.segment_readers().iter().map(|sr| sr.fast_fields().u64("id").unwrap()).collect();
    let to_ids = |addrs: Vec<DocAddress>| { let mut v: Vec<u64> = addrs.into_iter().map(|a| uid_of(s, &cols, a)).collect(); v.sort(); v };
    let exec = Executor::single_thread();
    let count = flat(guarded(|| s.search(q, &Count))).map(|c| c as u64);
    let qcount = flat(guarded(|| q.count(s))).map(|c| c as u64);
    let ids_ns = flat(guarded(|| s.search(q, &DocSetCollector))).map(|set| to_ids(set.into_iter().collect()));
    let ids_ns_scw = flat(guarded(|| s.search_with_executor(q, &DocSetCollector, &exec, EnableScoring::enabled_from_searcher(s)))).map(|set| to_ids(set.into_iter().collect()));
    let top = TopDocs::with_limit(total + 5).order_by_score();
    let ids_top = flat(guarded(|| s.search(q, &top))).map(|v| to_ids(v.into_iter().map(|x| x.1).collect()));
    let top2 = TopDocs::with_limit(total + 5).order_by_score();
    let ids_multi = flat(guarded(|| s.search(q, &(DocSetCollector, top2)))).map(|(set, v)| (to_ids(set.into_iter().collect()), to_ids(v.into_iter().map(|x| x.1).collect())));
    // FilterCollector over the unique-id fast field (keeps ids not divisible by 3)
    let fc = FilterCollector::new("id".to_string(), |v: u64| v % 3 != 0, DocSetCollector);
    let ids_filter = flat(guarded(|| s.search(q, &fc))).map(|set| to_ids(set.into_iter().collect()));
    Obs { count, qcount, ids_ns, ids_ns_scw, ids_top, ids_multi, ids_filter }
}

/// boolean trees over sparse terms (see gen_sparse_corpus): unions and conjunctions nested in both clause
/// orders, as Must / MustNot / Should clauses, so that unions are driven by seek / seek_danger over gaps
/// larger than their look-ahead window
fn sparse_term(rng: &mut Rng) -> Q {
    let t = match rng.below(20) { 0 | 1 => 0usize, 2 | 3 => 9, _ => *rng.pick(&[5usize, 6, 7, 8, 10, 11]) };
    Q::Term { f: 0, t, freqs: rng.chance(2, 3) }
}
fn sparse_tree(rng: &mut Rng, depth: usize) -> Q {
    if depth == 0 || rng.chance(1, 4) { return sparse_term(rng); }
    let n = rng.range(2, 4) as usize;
    let style = rng.below(5);
    let cs: Vec<(Occur, Q)> = (0..n).map(|k| {
        let o = match style { 0 => Occur::Should, 1 => Occur::Must, 2 => if k == 0 { Occur::Must } else { *rng.pick(&[Occur::Must, Occur::MustNot]) },
                              3 => *rng.pick(&[Occur::Should, Occur::Should, Occur::MustNot]), _ => *rng.pick(&[Occur::Must, Occur::Should, Occur::Should, Occur::MustNot]) };
        (o, sparse_tree(rng, depth - 1))
    }).collect();
    let n_should = cs.iter().filter(|c| c.0 == Occur::Should).count();
    let msm = match rng.below(6) { 0 => 1, 1 => 2.min(n_should), _ => { let mut m = 0; for (o, _) in &cs { if *o == Occur::Should { m = 1 } else { m = 0; break } } m } };
    Q::Bool(msm, cs)
}
fn sparse_directed(rng: &mut Rng) -> Q {
    let mut ts = [5usize, 6, 7, 8, 10, 11]; rng.shuffle(&mut ts);
    let t = |t: usize| Q::Term { f: 0, t, freqs: true };
    let conj = Q::Bool(0, vec![(Occur::Must, t(ts[2])), (Occur::Must, t(ts[3]))]);
    let conj_or_phrase = if rng.chance(1, 4) { Q::Phrase { f: 0, ts: vec![(0, ts[2]), (1, ts[3])], slop: *rng.pick(&[0u32, 1, 2]) } } else { conj };
    let mut union = vec![(Occur::Should, t(ts[1])), (Occur::Should, conj_or_phrase)];
    if rng.chance(1, 2) { union.swap(0, 1); }
    if rng.chance(1, 4) { union.push((Occur::Should, t(ts[4]))); }
    let union = Q::Bool(0, union);
    match rng.below(5) {
        0 | 1 => Q::Bool(0, vec![(Occur::Must, t(ts[0])), (Occur::Must, union)]),
        2 => Q::Bool(0, vec![(Occur::Must, union), (Occur::Must, t(ts[0]))]),
        3 => Q::Bool(0, vec![(Occur::Must, t(ts[0])), (Occur::MustNot, union)]),
        _ => Q::Bool(0, vec![(Occur::Must, t(ts[0])), (Occur::Must, union), (Occur::MustNot, t(ts[5]))]),
    }
}

fn make_vocab(rng: &mut Rng, n: usize) -> Vec<String> {
    let mut set = BTreeSet::new();
    for w in ["a", "b", "c", "ab", "abc", "ba"] { set.insert(w.to_string()); }
    while set.len() < n {
        let len = rng.range(1, 4) as usize;
        set.insert((0..len).map(|_| *rng.pick(&['a', 'b', 'c'])).collect::<String>());
    }
    let mut v: Vec<String> = set.into_iter().collect();
    rng.shuffle(&mut v);
    v
}

fn split_chunks(rng: &mut Rng, n: usize, k: usize) -> Vec<usize> {
    if k <= 1 { return vec![n]; }
    let mut cuts: Vec<usize> = (0..k - 1).map(|_| rng.below(n as u64 + 1) as usize).collect();
    cuts.sort();
    let mut out = vec![]; let mut prev = 0;
    for c in cuts { out.push(c - prev); prev = c; }
    out.push(n - prev);
    out
}

fn main() {
    let args = Args::parse();
    tvh::quiet_panics();
    let mut rng = Rng::new(args.seed);
    let thorough = args.thorough();

    let vocab_n = 18;
    let vocab = make_vocab(&mut rng, vocab_n);

    // ---------------- corpora
    let mut corpora: Vec<Corpus> = vec![];
    corpora.push(gen_corpus(&mut rng, "empty", 0, vocab_n, vec![0], &[], 0, false));
    corpora.push(gen_corpus(&mut rng, "single-doc", 1, vocab_n, vec![1], &[(2, 0..1, 1)], 0, false));
    corpora.push(gen_corpus(&mut rng, "tiny-segs", 9, vocab_n, vec![1, 0, 3, 1, 4], &[(2, 0..9, 1), (3, 0..9, 4)], 25, false));
    let ch = split_chunks(&mut rng, 40, 3);
    corpora.push(gen_corpus(&mut rng, "small-deletes", 40, vocab_n, ch, &[(2, 0..40, 1), (3, 0..40, 13)], 30, false));
    let ch = split_chunks(&mut rng, 50, 4);
    corpora.push(gen_corpus(&mut rng, "small-merge", 50, vocab_n, ch, &[(2, 0..50, 1), (3, 0..50, 25)], 20, true));
    // a segment of 200 docs holding token 2 in one doc, token 3 in exactly 128 docs, token 4 in exactly 129 docs
    corpora.push(gen_corpus(&mut rng, "block-128-129", 230, vocab_n, vec![200, 30], &[(2, 0..200, 1), (3, 0..200, 128), (4, 0..200, 129)], 0, false));
    corpora.push(gen_corpus(&mut rng, "block-128-129-deletes", 230, vocab_n, vec![30, 200], &[(2, 30..230, 1), (3, 30..230, 128), (4, 30..230, 129)], 10, false));
    // phrase-prefix focus: the first term (token 0) sits in ~90% of the documents at varying positions
    corpora.push(gen_corpus(&mut rng, "pp-focus", 80, vocab_n, vec![50, 30], &[(3, 0..80, 30), (4, 0..80, 45)], 10, false));
    let extra = if thorough { 10 } else { 2 };
    for k in 0..extra {
        let n = rng.range(5, if thorough { 120 } else { 70 }) as usize;
        let segs = rng.range(1, 5) as usize;
        let del = *rng.pick(&[0u64, 0, 10, 40, 100]);
        let ch = split_chunks(&mut rng, n, segs);
        let mg = rng.chance(1, 3);
        corpora.push(gen_corpus(&mut rng, &format!("random-{k}"), n, vocab_n, ch, &[(2, 0..n, 1), (3, 0..n, n / 3)], del, mg));
    }
    // JSON sub-paths per corpus: fewer than / at least C03_EXISTS_BITSET_MIN_COLUMNS columns, with and without arrays
    {
        let all: Vec<u64> = JSON_PATHS.iter().map(|p| p.0).collect();
        for c in corpora.iter_mut() {
            let (active, dense): (Vec<u64>, Vec<u64>) = match c.name.as_str() {
                "empty" => (vec![], vec![]),
                "single-doc" => (all.clone(), vec![21]),
                "tiny-segs" => (vec![21, 22, 23, 24], vec![]),
                "small-deletes" => (vec![21, 23, 25], vec![]),
                "small-merge" => (all.clone(), vec![]),
                "block-128-129" => (vec![21, 22, 23, 24, 25], vec![]),
                "block-128-129-deletes" => (vec![24, 25, 26, 27], vec![]),
                "pp-focus" => (vec![22, 23, 24, 26, 27], vec![23]),
                _ => { let k = rng.range(1, 7) as usize; let mut a = all.clone(); rng.shuffle(&mut a); a.truncate(k); (a, vec![]) }
            };
            add_json(&mut rng, c, &active, &dense, vocab_n);
        }
    }
    // big corpora: checked on the Rust side only (union windows of 4096 docs, terms in > 4096 docs)
    let mut big: Vec<Corpus> = vec![];
    let mut witness_only: Vec<(Corpus, Vec<Q>)> = vec![];
    if thorough {
        big.push(gen_corpus(&mut rng, "big-9000", 9000, vocab_n, vec![9000], &[(2, 0..9000, 1), (3, 0..9000, 4097), (4, 0..9000, 8200), (5, 4000..4200, 129)], 0, false));
        big.push(gen_corpus(&mut rng, "big-9000-deletes", 9000, vocab_n, vec![4500, 4400, 100], &[(2, 0..9000, 1), (3, 0..4500, 4097), (4, 0..9000, 8200)], 15, false));
    } else {
        big.push(gen_corpus(&mut rng, "big-5000", 5000, vocab_n, vec![4700, 300], &[(2, 0..5000, 1), (3, 0..4700, 4097), (4, 100..400, 129)], 5, false));
    }

    // regression witness F134 of C13 (fixed): `+a +((+x +y) z)` over the doc-id sets
    // a=[1,10000,10005] x=[1,9000,10005] y=[1,9000,50000,50001] z=[2,10000] returned an extra document
    {
        let n = 50_002usize;
        let sets: [(usize, &[usize]); 4] = [(5, &[1, 10000, 10005]), (6, &[1, 9000, 10005]), (7, &[1, 9000, 50000, 50001]), (8, &[2, 10000])];
        let mut docs: Vec<DocM> = (0..n).map(|u| DocM { uid: u as u64, alive: true, ..Default::default() }).collect();
        for (tok, ids) in sets { for i in ids { docs[*i].text.entry(0).or_default().push(tok); } }
        let t = |t: usize| Q::Term { f: 0, t, freqs: true };
        let q1 = Q::Bool(0, vec![(Occur::Must, t(5)), (Occur::Must, Q::Bool(0, vec![(Occur::Should, Q::Bool(0, vec![(Occur::Must, t(6)), (Occur::Must, t(7))])), (Occur::Should, t(8))]))]);
        let q2 = Q::Bool(0, vec![(Occur::Must, t(5)), (Occur::Must, Q::Bool(0, vec![(Occur::Should, Q::Bool(0, vec![(Occur::Should, t(6)), (Occur::Should, t(7))])), (Occur::Should, t(8))]))]);
        witness_only.push((Corpus { name: "witness-F134".into(), docs, chunks: vec![n], merge_first_two: false }, vec![q1, q2]));
    }

    // sparse corpora: matches thousands of doc ids apart (beyond the 4096-doc window of the buffered union)
    {
        let n = if thorough { 60_000 } else { 32_000 };
        let specs: Vec<(&str, Vec<usize>, u64)> = if thorough { vec![("sparse-1seg", vec![n], 0), ("sparse-2seg-deletes", vec![n / 2 + 3000, n / 2 - 3000], 3), ("sparse-1seg-b", vec![n], 0)] }
                                                  else { vec![("sparse-1seg", vec![n], 0), ("sparse-2seg-deletes", vec![n / 2 + 3000, n / 2 - 3000], 3)] };
        for (name, chunks, del) in specs {
            let mut c = gen_sparse_corpus(&mut rng, name, n, chunks, del);
            add_json(&mut rng, &mut c, &[21, 24], &[], vocab_n);
            let nq = if thorough { 600 } else { 150 };
            let qs: Vec<Q> = (0..nq).map(|k| if k % 3 != 0 { sparse_directed(&mut rng) } else { let d = *rng.pick(&[2usize, 2, 3]); sparse_tree(&mut rng, d) }).collect();
            witness_only.push((c, qs));
        }
    }

    // ---------------- run
    struct Run { ci: usize, q: Q, obs: Obs, expect: Vec<u64>, auto_base: usize }
    let mut headers = String::new();
    let mut runs: Vec<Run> = vec![];
    let mut bulk: Vec<(bool, serde_json::Value)> = vec![];
    let mut col_cases: Vec<(String, serde_json::Value)> = vec![];
    let mut stats: BTreeMap<String, u64> = BTreeMap::new();
    let n_queries = if thorough { 260 } else { 62 };

    for (ci, c) in corpora.iter().enumerate() {
        let built = build_index(c, &vocab);
        // layout sanity (spec: every live document sits in exactly one segment, deleted ones are flagged)
        let mut seen: BTreeMap<u64, bool> = BTreeMap::new();
        let mut layout_ok = true;
        for seg in &built.layout { for (u, a) in seg { if seen.insert(*u, *a).is_some() { layout_ok = false; } } }
        for d in &c.docs { match seen.get(&d.uid) { Some(a) => if *a != d.alive { layout_ok = false }, None => if d.alive { layout_ok = false } } }
        bulk.push((layout_ok, json!({"what": "segment layout read back", "corpus": c.name})));
        *stats.entry(format!("segments_{}", built.layout.len().min(6))).or_default() += 1;
        for seg in &built.layout {
            let key = match seg.len() { 0 => "seg_docs_0", 1 => "seg_docs_1", 2..=127 => "seg_docs_2_127", 128..=4095 => "seg_docs_128_4095", _ => "seg_docs_4096_up" };
            *stats.entry(key.into()).or_default() += 1;
            if seg.iter().any(|x| !x.1) { *stats.entry("segs_with_deletes".into()).or_default() += 1; }
        }

        let mut qg = QGen { rng: &mut rng, vocab: &vocab, autos: vec![], docs: &c.docs };
        let mut qs: Vec<Q> = vec![];
        // fixed witnesses first (known classes and shortcut paths)
        qs.push(Q::Bool(2, vec![(Occur::Should, Q::Term { f: 0, t: 0, freqs: true })]));
        qs.push(Q::Bool(1, vec![(Occur::Must, Q::Term { f: 0, t: 3, freqs: false })]));
        qs.push(Q::Bool(0, vec![(Occur::Must, Q::Bool(3, vec![(Occur::Should, Q::Term { f: 0, t: 0, freqs: true })])), (Occur::Must, Q::Term { f: 0, t: 3, freqs: true })]));
        qs.push(Q::Phrase { f: 0, ts: vec![(0, 0), (1, 3), (2, 4)], slop: 1 });
        // regression (F131 of C13, fixed): `+a +((x y) z)` -- a union nested in a union under an intersection
        qs.push(Q::Bool(0, vec![(Occur::Must, Q::Term { f: 0, t: 0, freqs: true }),
                                (Occur::Must, Q::Bool(0, vec![(Occur::Should, Q::Bool(0, vec![(Occur::Should, Q::Term { f: 0, t: 3, freqs: true }), (Occur::Should, Q::Term { f: 0, t: 4, freqs: true })])),
                                                              (Occur::Should, Q::Term { f: 0, t: 2, freqs: true })]))]));
        qs.push(Q::Bool(0, vec![(Occur::Must, Q::Term { f: 0, t: 3, freqs: false }),
                                (Occur::Must, Q::Bool(0, vec![(Occur::Should, Q::Bool(0, vec![(Occur::Should, Q::Term { f: 0, t: 5, freqs: true }), (Occur::Should, Q::Term { f: 1, t: 0, freqs: true })])),
                                                              (Occur::Should, Q::Term { f: 0, t: 4, freqs: true })]))]));
        qs.push(Q::Bool(0, vec![(Occur::Should, Q::Term { f: 0, t: 3, freqs: true }), (Occur::Should, Q::Term { f: 0, t: 4, freqs: true })]));
        qs.push(Q::Bool(0, vec![(Occur::Must, Q::Term { f: 0, t: 3, freqs: true }), (Occur::Must, Q::Term { f: 0, t: 4, freqs: true }), (Occur::MustNot, Q::Term { f: 0, t: 2, freqs: true })]));
        qs.push(Q::Bool(0, vec![(Occur::MustNot, Q::Term { f: 0, t: 2, freqs: true }), (Occur::MustNot, Q::Empty)]));
        qs.push(Q::Bool(2, vec![(Occur::Should, Q::All), (Occur::Should, Q::Term { f: 0, t: 3, freqs: true }), (Occur::Should, Q::Term { f: 0, t: 1, freqs: true })]));
        let n_pp = if c.name == "pp-focus" { if thorough { 120 } else { 40 } } else if c.docs.len() >= 9 { if thorough { 30 } else { 8 } } else { 2 };
        for _ in 0..n_pp { qs.push(qg.pp_tree()); }
        let n_ex = if c.docs.is_empty() { 1 } else if thorough { 16 } else { 6 };
        for _ in 0..n_ex { qs.push(qg.exists_tree()); }
        let nq_here = if c.docs.len() > 150 && !thorough { 36 + n_pp + n_ex } else if c.docs.len() < 2 && !thorough { 24 } else { n_queries + n_pp + n_ex };   // large segments cost more in Coq
        while qs.len() < nq_here {
            let depth = *qg.rng.pick(&[0usize, 1, 2, 2, 3, 3, 4]);
            qs.push(qg.tree(depth));
        }
        let autos = std::mem::take(&mut qg.autos);
        let acc: Vec<Vec<usize>> = autos.iter().map(|a| a.1.clone()).collect();

        // header definitions of this corpus
        headers.push_str(&format!("Definition c{ci}_docs : list doc := {}.\n", cf::list(&c.docs, |d| d.coq())));
        headers.push_str(&format!("Definition c{ci}_corpus : segment := List.combine c{ci}_docs {}.\n", cf::list(&c.docs, |d| cf::boolean(d.alive))));
        headers.push_str(&format!("Definition c{ci}_segs : list segment := map (mkseg c{ci}_docs) {}.\n",
            cf::list(&built.layout, |seg| cf::list(seg, |(u, a)| format!("({}, {})", u, a)))));
        headers.push_str(&format!("Definition c{ci}_acc : N -> N -> bool := mk_acc {}.\n", cf::list(&acc, |a| cf::ns(a))));

        // exists over the JSON field: the columns each query expands to, read back per segment, against
        // Exists.exists_scorer and against the documents of ExistsWeight::scorer (deleted documents included)
        for (ord, sr) in built.searcher.segment_readers().iter().enumerate() {
            let mut names: Vec<(String, bool, Vec<u64>)> = vec![("js".to_string(), true, JSON_PATHS.iter().map(|p| p.0).collect())];
            let (jf, path, _) = JSON_PATHS[(ci + ord) % JSON_PATHS.len()];
            names.push((format!("js.{path}"), false, vec![jf]));
            names.push(("js.m".to_string(), false, vec![27]));
            for (name, subpaths, fs) in names {
                let r = guarded(|| -> tantivy::Result<(Vec<(u8, Vec<u32>)>, Vec<u32>)> {
                    let ff = sr.fast_fields();
                    let mut handles = ff.dynamic_column_handles(&name)?;
                    if subpaths { handles.append(&mut ff.dynamic_subpath_column_handles(&name)?); }
                    let mut cols = vec![];
                    for h in handles {
                        let col = h.open()?;
                        let idx = col.column_index();
                        let kind = match idx { tantivy::columnar::ColumnIndex::Empty { .. } => 0u8, tantivy::columnar::ColumnIndex::Full => 1, tantivy::columnar::ColumnIndex::Optional(_) => 2, tantivy::columnar::ColumnIndex::Multivalued(_) => 3 };
                        cols.push((kind, (0..sr.max_doc()).filter(|d| idx.has_value(*d)).collect::<Vec<u32>>()));
                    }
                    let w = ExistsQuery::new(name.clone(), subpaths).weight(EnableScoring::disabled_from_schema(&built.index.schema()))?;
                    let mut sc = w.scorer(sr, 1.0)?;
                    let mut docs = vec![];
                    let mut d = sc.doc();
                    while d != tantivy::TERMINATED { docs.push(d); d = sc.advance(); }
                    Ok((cols, docs))
                });
                match flat(r) {
                    Ok((cols, docs)) => {
                        *stats.entry(format!("exists_columns_{}", cols.iter().filter(|c| c.0 != 0).count().min(6))).or_default() += 1;
                        if cols.iter().any(|c| c.0 == 3) { *stats.entry("exists_with_multivalued_column".into()).or_default() += 1; }
                        col_cases.push((format!("check_exists_cols (nth {} c{ci}_segs []) {} {} {}", cf::nat(ord), cf::ns(&fs),
                                                cf::list(&cols, |(k, ds)| format!("({}, {})", k, cf::ns(ds))), cf::ns(&docs)),
                                        json!({"what": "exists columns", "corpus": c.name, "segment": ord, "query": name, "subpaths": subpaths, "n_columns": cols.len(), "kinds": cols.iter().map(|c| c.0).collect::<Vec<_>>()})));
                    }
                    Err(e) => bulk.push((false, json!({"what": "exists columns could not be read / scorer failed", "corpus": c.name, "query": name, "error": e}))),
                }
            }
        }

        let total = c.docs.len();
        for q in qs {
            let tq = to_query(&q, &built.fields, &vocab);
            let obs = observe(&built, tq.as_ref(), total);
            let expect: Vec<u64> = c.docs.iter().filter(|d| d.alive && matches(d, &q, &acc)).map(|d| d.uid).collect();
            runs.push(Run { ci, q, obs, expect, auto_base: 0 });
        }
        drop(built.index);
    }

    // big corpora: Rust-side spec only
    let big_all: Vec<(&Corpus, Option<&Vec<Q>>)> = big.iter().map(|c| (c, None)).chain(witness_only.iter().map(|(c, qs)| (c, Some(qs)))).collect();
    for (c, fixed) in big_all {
        if let Ok(spec) = std::env::var("C03_DUMP") {   // debugging aid: C03_DUMP=<corpus> prints the documents holding a rare token
            if spec == c.name { for d in &c.docs { if d.toks(0).iter().any(|t| *t != 0 && *t != 9) { eprintln!("{} {:?} alive={}", d.uid, d.toks(0), d.alive); } } }
        }
        let built = build_index(c, &vocab);
        let mut qg = QGen { rng: &mut rng, vocab: &vocab, autos: vec![], docs: &c.docs[..200.min(c.docs.len())] };
        let nq = if thorough { 150 } else { 30 };
        let mut qs: Vec<Q> = vec![];
        qs.push(Q::Bool(0, vec![(Occur::Should, Q::Term { f: 0, t: 3, freqs: true }), (Occur::Should, Q::Term { f: 0, t: 4, freqs: true }), (Occur::Should, Q::Term { f: 0, t: 2, freqs: false })]));
        qs.push(Q::Bool(2, vec![(Occur::Should, Q::Term { f: 0, t: 3, freqs: true }), (Occur::Should, Q::Term { f: 0, t: 4, freqs: true }), (Occur::Should, Q::Term { f: 0, t: 5, freqs: false })]));
        qs.push(Q::Bool(0, vec![(Occur::Must, Q::Term { f: 0, t: 3, freqs: true }), (Occur::Must, Q::Term { f: 0, t: 0, freqs: true }), (Occur::MustNot, Q::Term { f: 0, t: 4, freqs: true })]));
        if let Some(f) = fixed { qs = f.clone(); }
        else {
            for _ in 0..(if thorough { 40 } else { 10 }) { qs.push(qg.pp_tree()); }
            while qs.len() < nq { let depth = *qg.rng.pick(&[1usize, 2, 2, 3]); qs.push(qg.tree(depth)); }
        }
        let acc: Vec<Vec<usize>> = qg.autos.iter().map(|a| a.1.clone()).collect();
        for q in qs {
            if q.has_f32() { continue; }
            let tq = to_query(&q, &built.fields, &vocab);
            let obs = observe(&built, tq.as_ref(), c.docs.len());
            let expect: Vec<u64> = c.docs.iter().filter(|d| d.alive && matches(d, &q, &acc)).map(|d| d.uid).collect();
            let ok = obs.count == Ok(expect.len() as u64) && obs.qcount == Ok(expect.len() as u64) && obs.ids_ns.as_ref() == Ok(&expect)
                && obs.ids_ns_scw.as_ref() == Ok(&expect) && obs.ids_top.as_ref() == Ok(&expect) && obs.ids_multi == Ok((expect.clone(), expect.clone()))
                && obs.ids_filter == Ok(expect.iter().copied().filter(|u| u % 3 != 0).collect());
            // known class F33 (see known_findings.json): only EXTRA documents, every collector agrees on them, a segment
            // larger than the union's 4096-doc window, and the query has a seek_danger-driven union with a dangling-capable child
            let f33 = !ok && q.has_f33() && c.chunks.iter().any(|s| *s > 4096) && match &obs.ids_ns {
                Ok(got) => expect.iter().all(|u| got.contains(u)) && got.len() > expect.len()
                    && obs.count == Ok(got.len() as u64) && obs.qcount == Ok(got.len() as u64) && obs.ids_ns_scw.as_ref() == Ok(got) && obs.ids_top.as_ref() == Ok(got) && obs.ids_multi == Ok((got.clone(), got.clone())),
                Err(_) => false };
            if f33 { *stats.entry("known_F33".into()).or_default() += 1; }
            bulk.push((ok, json!({"what": "big corpus: every collector returns the ids of the naive evaluator", "corpus": c.name, "query": q.coq(), "known": if f33 { json!("F33") } else { serde_json::Value::Null },
                                  "expected_n": expect.len(), "count": format!("{:?}", obs.count), "docset_n": obs.ids_ns.as_ref().map(|v| v.len()).ok(),
                                  "diff": if ok { serde_json::Value::Null } else {
                                      let got: Vec<u64> = obs.ids_ns.clone().unwrap_or_default();
                                      let show = |ids: Vec<u64>| ids.into_iter().take(6).map(|u| json!({"uid": u, "t0": c.docs[u as usize].toks(0).iter().map(|t| vocab[*t].clone()).collect::<Vec<_>>(), "alive": c.docs[u as usize].alive})).collect::<Vec<_>>();
                                      json!({"extra": show(got.iter().copied().filter(|u| !expect.contains(u)).collect()), "missing": show(expect.iter().copied().filter(|u| !got.contains(u)).collect()),
                                             "vocab": vocab, "got_docset": got.iter().take(40).collect::<Vec<_>>(), "top": format!("{:?}", obs.ids_top).chars().take(300).collect::<String>()}) }})));
            *stats.entry("big_corpus_queries".into()).or_default() += 1;
        }
    }

    // ---------------- emit
    let header = format!("{}\nLocal Open Scope N_scope.\n{}", HEADER, headers);
    let mut out = CaseOut::new(&args.out, &header, if thorough { 120 } else { 96 });   // every shard re-parses the corpora: few, larger shards
    for (k, v) in stats { out.count(&k, v); }
    for (ok, d) in bulk { out.spec_checked(ok, d); }
    for (term, d) in col_cases { out.coq_case("tie", term, d, true); }

    // ---------------- order-preserving encodings (i64 / f64 / bool / date -> u64)
    {
        use tantivy_columnar::MonotonicallyMappableToU64;
        let n_enc = if thorough { 1500 } else { 300 };
        let mut prev: Option<(u8, String, u64)> = None;
        for k in 0..n_enc {
            let (tag, coqv, e): (u8, String, u64) = match k % 4 {
                0 => { let z = match rng.below(4) { 0 => *rng.pick(&[i64::MIN, i64::MIN + 1, -1, 0, 1, i64::MAX - 1, i64::MAX]), 1 => rng.range(0, 20) as i64 - 10, _ => rng.next_u64() as i64 };
                       (0, format!("VI64 {}", cf::z(z as i128)), tantivy_common::i64_to_u64(z)) }
                1 => { let x = match rng.below(4) { 0 => *rng.pick(&[0.0f64, 1.0, -1.0, f64::MIN_POSITIVE, -f64::MIN_POSITIVE, f64::MAX, f64::MIN, f64::INFINITY, f64::NEG_INFINITY, 5e-324, -5e-324, -0.0]),
                                                     1 => (rng.range(0, 2000) as f64 - 1000.0) / 8.0, _ => loop { let f = f64::from_bits(rng.next_u64()); if !f.is_nan() { break f } } };
                       (4, format!("VF64 {}", x.to_bits()), tantivy_common::f64_to_u64(x)) }
                2 => { let b = rng.chance(1, 2); (2, format!("VBool {}", b), b.to_u64()) }
                _ => { let z = match rng.below(3) { 0 => *rng.pick(&[i64::MIN, -1, 0, 1, i64::MAX]), _ => rng.next_u64() as i64 };
                       (3, format!("VDate {}", cf::z(z as i128)), DateTime::from_timestamp_nanos(z).to_u64()) }
            };
            out.coq_case("tie", format!("N.eqb (enc ({coqv})) {e}"), json!({"what": "encoding", "value": coqv, "impl": e}), true);
            if let Some((ptag, pv, pe)) = &prev {
                if *ptag == tag {
                    // spec: the typed order of the two values is the order of the implementation's encodings
                    out.coq_case("spec", format!("Bool.eqb (vlt ({pv}) ({coqv})) ({pe} <? {e}) && Bool.eqb (vlt ({coqv}) ({pv})) ({e} <? {pe})"),
                                 json!({"what": "encoding order", "a": pv, "b": coqv, "enc_a": pe, "enc_b": e}), true);
                }
            }
            prev = if k % 8 < 4 { Some((tag, coqv, e)) } else { prev.filter(|p| p.0 != tag) };
            out.count("encoding_cases", 1);
        }
    }

    for r in runs.iter() {
        let c = &corpora[r.ci];
        let ci = r.ci;
        let _ = r.auto_base;
        let q = &r.q;
        let qc = q.coq();
        q.count_kinds(&mut out);
        let mut kinds = BTreeSet::new();
        q.occur_kinds(&mut kinds);
        let live = c.docs.iter().filter(|d| d.alive).count();
        let nontrivial = q.depth() >= 2 && kinds.len() >= 2 && !r.expect.is_empty() && r.expect.len() < live;
        out.count(&format!("depth_{}", q.depth()), 1);
        if q.has_f31() { out.count("single_clause_minimum_regression_queries", 1); }
        let desc = |what: &str| json!({"what": what, "corpus": c.name, "docs": c.docs.len(), "segments": c.chunks, "query": qc, "expected_ids_n": r.expect.len(), "obs": format!("{:?}", r.obs).chars().take(600).collect::<String>()});

        let o = &r.obs;
        // all collectors agree with each other (decided here) ...
        let n_ok = |x: &Result<u64, String>| x.as_ref().ok().copied();
        let agree = match (&o.ids_ns, &o.ids_ns_scw, &o.ids_top, &o.ids_multi) {
            (Ok(a), Ok(b), Ok(t), Ok((m1, m2))) => a == b && a == t && a == m1 && a == m2 && n_ok(&o.count) == Some(a.len() as u64) && n_ok(&o.qcount) == Some(a.len() as u64)
                && o.ids_filter.as_ref().ok() == Some(&a.iter().copied().filter(|u| u % 3 != 0).collect::<Vec<u64>>()),
            _ => false,
        };
        let meets_spec = agree && o.ids_ns.as_ref() == Ok(&r.expect);
        let in_known = q.has_f32();   // F31 is fixed in /repo: single-clause minimum queries are ordinary cases now
        let ids_or_empty = |x: &Result<Vec<u64>, String>| x.clone().unwrap_or_default();
        let tie_term = format!("check_tie c{ci}_acc c{ci}_segs ({qc}) {} {} {} {}", cf::ns(&ids_or_empty(&o.ids_ns)), cf::ns(&ids_or_empty(&o.ids_top)),
                               o.count.clone().unwrap_or(u64::MAX), o.qcount.clone().unwrap_or(u64::MAX));
        let errors = [o.count.is_err(), o.qcount.is_err(), o.ids_ns.is_err(), o.ids_ns_scw.is_err(), o.ids_top.is_err(), o.ids_multi.is_err(), o.ids_filter.is_err()].iter().any(|e| *e);

        if !meets_spec && !in_known { out.count("diag_mismatch_with_rust_mirror_of_eval", 1); }   // diagnostic only; Coq decides
        if meets_spec || !in_known {
            // spec: the ids are those of `eval` (Coq decides); and all collectors agree
            out.coq_case("spec", format!("check_spec c{ci}_acc c{ci}_corpus ({qc}) {}", cf::ns(&ids_or_empty(&o.ids_ns))), desc("DocSetCollector ids = eval"), nontrivial);
            out.spec_checked(agree && !errors, desc("Count, Query::count, DocSetCollector (scoring off/on), TopDocs, (DocSetCollector, TopDocs), FilterCollector agree"));
            if !in_known {
                out.coq_case("tie", tie_term, desc("collect_model / count_model = implementation"), nontrivial);
            }
            out.count("spec_ok_inputs", 1);
        } else {
            // the implementation misses the spec on an input of a known class: the classifier requires the
            // class AND that the faithful model predicts exactly the observed behaviour
            let (kid, cls) = ("known:F32", "has_f32");
            let pred = if errors { "false".to_string() } else {
                format!("check_f32 c{ci}_acc c{ci}_segs c{ci}_corpus ({qc}) {} {} {} {}", cf::ns(&ids_or_empty(&o.ids_ns)), cf::ns(&ids_or_empty(&o.ids_top)), o.count.clone().unwrap_or(u64::MAX), o.qcount.clone().unwrap_or(u64::MAX))
            };
            out.coq_case(kid, format!("{cls} ({qc}) && ({pred})"), desc("known class: implementation deviates from eval"), false);
            out.count(&format!("known_{}", &kid[6..]), 1);
        }
    }
    out.finish(json!({"corpora": corpora.iter().map(|c| json!({"name": c.name, "docs": c.docs.len(), "chunks": c.chunks, "deleted": c.docs.iter().filter(|d| !d.alive).count()})).collect::<Vec<_>>(),
                      "vocab": vocab}));
}
